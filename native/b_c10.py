"""Tier B for C10 - sibling names stay unique, edits are refused exactly when they would create a duplicate or an
illegal identifier, exact lookups agree with a linear scan.

Histories over create/add/remove/re-add, rename, EDIF.identifier set/delete/pop, name deletion, clone and parse
steps, names from a small colliding alphabet (case variants included), one naming policy per history (DEFAULT or
EDIF; the policy is never switched inside a history - NamespaceManager.rst documents that as unsupported).
After every step, for every scope (libraries of a netlist; definitions of a library; ports, cables, instances of a
definition) and both keys:
  (a) C10.unique             sibling names pairwise distinct; under the EDIF policy identifiers legal and pairwise
                             distinct ignoring case
  (b) C10.refusal            ValueError  <=>  an independent linear scan says the edit would create a duplicate /
                             an illegal identifier in the state *now* (removed / renamed / un-named elements do not count)
  (c) C10.lookup-vs-scan     sdn.get_<children>(parent, exact, key=...) == linear scan over the children
The oracles only read public attributes (libraries/definitions/ports/cables/children, element[key], parent links).

stdin : {"seeds":[...], "tier":..., "steps":N, "policies":[...]}  or  {"replay": {...}}
stdout: @@JSON@@ {"evaluations", "hashes", "samples", "failures":[{check, site, detail, replay}]}
"""
import sys, json, random, hashlib, os, re, traceback, collections
import spydrnet as sdn
from spydrnet.plugins import namespace_manager as NM
import irlib
from ir_histories import World, execute, describe

REPO = os.environ.get('VERIF_REPO', '/repo')
NAMES = ['a', 'A', 'b', 'a_b', 'A_b', 'B']                       # 6-name colliding alphabet, case variants included
IDENTS = NAMES + ['Ab1', '&a', '&A', '1x', 'x-y', 'a b', '&', '', 'a' * 255, 'A' * 256, '&' + 'a' * 255]
PROBES = NAMES + ['Ab1', 'aB1', '&a', '&A', '1x', 'x-y', 'a b', '', 'a' * 255, 'A' * 255, 'A' * 256, 'zz']
KEYS = ['.NAME', 'EDIF.identifier']
EXAMPLES = ['EDIF_netlists/namespace.edf.zip', 'EDIF_netlists/inverter.edf.zip', 'verilog_netlists/namespace.v.zip',
            'eblif_netlists/toggle.eblif.zip']
EXC = (AssertionError, ValueError, KeyError, AttributeError, TypeError, RuntimeError, IndexError, NotImplementedError, StopIteration)

# scope table: parent kind, public child list, child kind, query function, create method, add method, remove method
SCOPES = [
    ('Netlist', 'libraries', 'Library', 'get_libraries', 'create_library', 'add_library', 'remove_library'),
    ('Library', 'definitions', 'Definition', 'get_definitions', 'create_definition', 'add_definition', 'remove_definition'),
    ('Definition', 'ports', 'Port', 'get_ports', 'create_port', 'add_port', 'remove_port'),
    ('Definition', 'cables', 'Cable', 'get_cables', 'create_cable', 'add_cable', 'remove_cable'),
    ('Definition', 'children', 'Instance', 'get_instances', 'create_child', 'add_child', 'remove_child'),
]
BY_CHILD = {s[2]: s for s in SCOPES}
PARENT_ATTR = {'Library': 'netlist', 'Definition': 'library', 'Port': 'definition', 'Cable': 'definition', 'Instance': 'parent'}


# ------------------------------------------------------------------ independent oracles (written from the property text)
_LEGAL = re.compile(r'\A(?:&[0-9A-Za-z_]{1,255}|[A-Za-z][0-9A-Za-z_]{0,254})\Z')


def legal_identifier(s):
    return isinstance(s, str) and _LEGAL.match(s) is not None


def parent_of(e):
    return getattr(e, PARENT_ATTR[irlib.kind(e)])


def policy_of(e):
    return e.get('.NS', None)


def siblings(parent, child_kind):
    return list(getattr(parent, BY_CHILD[child_kind][1]))


def dup_in_scope(parent, child_kind, key, value, exclude, policy):
    """Would value under key collide with another child of parent of this kind?"""
    for s in siblings(parent, child_kind):
        if s is exclude or key not in s:
            continue
        if key == '.NAME' and s[key] == value:
            return True
        if key == 'EDIF.identifier' and policy == 'EDIF' and isinstance(s[key], str) and isinstance(value, str) \
                and s[key].lower() == value.lower():
            return True
    return False


def scope_violations(parent, policy):
    """(a) for the scopes directly below parent, judged under policy."""
    out = []
    pk = irlib.kind(parent)
    for sc in SCOPES:
        if sc[0] != pk:
            continue
        kids = list(getattr(parent, sc[1]))
        names = [k['.NAME'] for k in kids if '.NAME' in k]
        if len(set(names)) != len(names):
            d = sorted(x for x, n in collections.Counter(names).items() if n > 1)
            out.append((sc[1], '.NAME', 'duplicate sibling names %r' % d[:3]))
        if policy == 'EDIF':
            ids = [k['EDIF.identifier'] for k in kids if 'EDIF.identifier' in k]
            bad = [i for i in ids if not legal_identifier(i)]
            if bad:
                out.append((sc[1], 'EDIF.identifier', 'illegal identifier %r' % (bad[0][:20],)))
            low = [i.lower() for i in ids if isinstance(i, str)]
            if len(set(low)) != len(low):
                d = sorted(x for x, n in collections.Counter(low).items() if n > 1)
                out.append((sc[1], 'EDIF.identifier', 'identifiers equal ignoring case %r' % d[:3]))
    return out


def subtree_violations(e, policy):
    """Would e and everything below it be acceptable under policy (used when an element moves under a parent of another policy)?"""
    out = []
    stack = [e]
    while stack:
        x = stack.pop()
        k = irlib.kind(x)
        if policy == 'EDIF' and 'EDIF.identifier' in x and not legal_identifier(x['EDIF.identifier']):
            out.append('illegal identifier below the added element')
        if k in ('Netlist', 'Library', 'Definition'):
            out += [v[2] for v in scope_violations(x, policy)]
            for sc in SCOPES:
                if sc[0] == k:
                    stack += list(getattr(x, sc[1]))
    return out


def expected_refusal(W, rec):
    """None = the oracle does not judge this call; else (bool refuse, reason)."""
    kind = rec['kind']
    if kind in ('set', 'rename'):
        e = W.objs[rec['args'][0]['o']]
        key, v = rec['args'][1], rec['args'][2]
        if kind == 'rename':
            key = '.NAME'
        pol = policy_of(e)
        if key == 'EDIF.identifier' and pol == 'EDIF' and not legal_identifier(v):
            return True, 'illegal identifier'
        p = parent_of(e)
        if p is not None:
            if dup_in_scope(p, irlib.kind(e), key, v, e, policy_of(p)):
                return True, 'duplicate'
        return False, ''
    if kind == 'create':
        p = W.objs[rec['args'][0]['o']]
        name = rec['args'][2]
        ck = rec['child']
        if name is not None and dup_in_scope(p, ck, '.NAME', name, None, policy_of(p)):
            return True, 'duplicate'
        return False, ''
    if kind == 'add':
        p = W.objs[rec['args'][0]['o']]
        c = W.objs[rec['args'][2]['o']]
        pol = policy_of(p)
        for key in KEYS:
            if key in c and dup_in_scope(p, irlib.kind(c), key, c[key], c, pol):
                return True, 'duplicate'
        if policy_of(c) != pol and pol is not None and subtree_violations(c, pol):
            return True, 'not acceptable under the policy of the new parent'
        return False, ''
    if kind in ('remove', 'unname', 'clone', 'parse'):
        return False, ''
    return None


def scan(parent, child_kind, key, value, policy):
    out = []
    for c in siblings(parent, child_kind):
        if key not in c:
            continue
        x = c[key]
        if x == value or (key == 'EDIF.identifier' and policy == 'EDIF' and isinstance(x, str) and x.lower() == value.lower()):
            out.append(c)
    return out


def scope_origin(origin, parent, child_kind, extra=None):
    """built | parsed | clone: a scope counts as 'clone' as soon as the parent, one of the siblings or the element being
    added came out of clone() (clones are what the statement names as the third way of building a netlist)."""
    tags = {origin.get(id(parent), 'built')}
    if child_kind in BY_CHILD:
        tags |= set(origin.get(id(k), 'built') for k in siblings(parent, child_kind))
    if extra is not None:
        tags.add(origin.get(id(extra), 'built'))
    return 'clone' if 'clone' in tags else 'parsed' if 'parsed' in tags else 'built'


# ------------------------------------------------------------------ history generation
class Gen:
    def __init__(self, W, r, origin):
        self.W, self.r, self.origin = W, r, origin
        self.parsed = 0

    def of(self, *kinds):
        return [i for i, o in enumerate(self.W.objs) if irlib.kind(o) in kinds]

    def next(self):
        r = self.r
        for _ in range(30):
            op = r.choices(['create', 'new', 'add', 'remove', 'rename', 'ident', 'unname', 'unident', 'clone', 'parse'],
                           [30, 8, 12, 12, 12, 14, 6, 6, 4, 1])[0]
            rec = self.make(op)
            if rec is not None:
                return rec
        return {'kind': 'new', 'op': 'new', 'args': ['Netlist', 'n']}

    def make(self, op):
        r, W = self.r, self.W
        nm = lambda: r.choice(NAMES)
        if op == 'create':
            sc = r.choice(SCOPES)
            ps = self.of(sc[0])
            if not ps:
                return None
            p = r.choice(ps)
            name = nm() if r.random() < 0.92 else None
            rec = {'kind': 'create', 'child': sc[2], 'op': 'call', 'args': [{'o': p}, sc[4], name]}
            if sc[2] == 'Instance':
                ds = self.of('Definition')
                if not ds:
                    return None
                rec['kw'] = {'reference': {'o': r.choice(ds)}}
            return rec
        if op == 'new':
            k = r.choice(['Library', 'Definition', 'Port', 'Cable', 'Instance'])
            return {'kind': 'new', 'op': 'new', 'args': [k, nm()]}
        if op == 'add':
            free = [i for i in self.of('Library', 'Definition', 'Port', 'Cable', 'Instance') if parent_of(W.objs[i]) is None]
            free = [i for i in free if not (irlib.kind(W.objs[i]) == 'Instance' and W.objs[i].reference is None)]
            if not free:
                return None
            c = r.choice(free)
            sc = BY_CHILD[irlib.kind(W.objs[c])]
            ps = self.of(sc[0])
            if not ps:
                return None
            return {'kind': 'add', 'op': 'call', 'args': [{'o': r.choice(ps)}, sc[5], {'o': c}]}
        if op == 'remove':
            sc = r.choice(SCOPES)
            ps = [i for i in self.of(sc[0]) if len(getattr(W.objs[i], sc[1]))]
            if not ps:
                return None
            p = r.choice(ps)
            kids = [W.ids[id(x)] for x in getattr(W.objs[p], sc[1]) if id(x) in W.ids]
            if not kids:
                return None
            def removable(c_):
                if sc[2] == 'Definition' and len(W.objs[c_].references):
                    return False          # keep instances referenced (structure, not naming, is C01/C02's business)
                if sc[2] == 'Instance' and any(n.top_instance is W.objs[c_] for n in W.objs if irlib.kind(n) == 'Netlist'):
                    return False
                return True
            if r.random() < 0.3:
                # the bulk form: some or all of the children in one call
                ok = [c_ for c_ in kids if removable(c_)]
                if ok and (len(ok) == len(kids) or r.random() < 0.5):
                    some = ok if r.random() < 0.5 else r.sample(ok, r.randint(1, len(ok)))
                    bulk = {'remove_library': 'remove_libraries_from', 'remove_definition': 'remove_definitions_from', 'remove_port': 'remove_ports_from',
                            'remove_cable': 'remove_cables_from', 'remove_child': 'remove_children_from'}[sc[6]]
                    return {'kind': 'remove', 'op': 'call', 'args': [{'o': p}, bulk, {'list': [{'o': c_} for c_ in some]}]}
            c = r.choice(kids)
            if not removable(c):
                return None
            return {'kind': 'remove', 'op': 'call', 'args': [{'o': p}, sc[6], {'o': c}]}
        els = self.of('Library', 'Definition', 'Port', 'Cable', 'Instance')
        if op == 'rename':
            if not els:
                return None
            e = r.choice(els)
            if r.random() < 0.5:
                return {'kind': 'rename', 'op': 'setattr', 'args': [{'o': e}, 'name', nm()]}
            return {'kind': 'set', 'op': 'setitem', 'args': [{'o': e}, '.NAME', nm()]}
        if op == 'ident':
            if not els:
                return None
            e = r.choice(els)
            v = r.choice(IDENTS) if r.random() < 0.8 else r.choice(NAMES)
            return {'kind': 'set', 'op': 'setitem', 'args': [{'o': e}, 'EDIF.identifier', v]}
        if op in ('unname', 'unident'):
            key = '.NAME' if op == 'unname' else 'EDIF.identifier'
            have = [i for i in els if key in W.objs[i]]
            if not have:
                return None
            e = r.choice(have)
            how = r.choice(['del', 'pop'] + (['delattr'] if key == '.NAME' else []))
            if how == 'del':
                return {'kind': 'unname', 'op': 'delitem', 'args': [{'o': e}, key]}
            if how == 'pop':
                return {'kind': 'unname', 'op': 'call', 'args': [{'o': e}, 'pop', key]}
            return {'kind': 'unname', 'op': 'delattr', 'args': [{'o': e}, 'name']}
        if op == 'clone':
            c = self.of('Netlist', 'Library', 'Definition', 'Port', 'Cable', 'Instance')
            c = [i for i in c if len(irlib.closure([W.objs[i]])) < 400]
            if not c:
                return None
            return {'kind': 'clone', 'op': 'call', 'args': [{'o': r.choice(c)}, 'clone']}
        if op == 'parse':
            if self.parsed >= 1:
                return None
            self.parsed += 1
            return {'kind': 'parse', 'op': 'parse', 'args': [r.choice(EXAMPLES)]}
        return None


def run_op(W, rec):
    if rec['op'] == 'parse':
        return sdn.parse(os.path.join(REPO, 'example_netlists', rec['args'][0]))
    return execute(W, rec)


def pretty(rec):
    if rec['op'] == 'parse':
        return 'parse(%s)' % rec['args'][0]
    return describe(rec)


# ------------------------------------------------------------------ one history
def run_history(seed, policy, steps, records=None, stop_at=None):
    r = random.Random('c10/%s/%s' % (seed, policy))
    W = World()
    origin = {}            # id -> built | clone | parsed
    fails = []
    evals = 0
    hist = []
    NM.default = policy
    try:
        gen = Gen(W, r, origin)
        prologue = [
            {'kind': 'new', 'op': 'new', 'args': ['Netlist', 'n0']},
            {'kind': 'create', 'child': 'Library', 'op': 'call', 'args': [{'o': 0}, 'create_library', 'a']},
            {'kind': 'create', 'child': 'Definition', 'op': 'call', 'args': [{'o': 1}, 'create_definition', 'A']},
        ]
        if policy == 'DEFAULT' and isinstance(seed, int) and seed % 8 == 3:
            # cross-policy adoption corner: a definition built under DEFAULT whose port and cable carry identifiers
            # that are equal ignoring case (different scopes!) moves into a library read from an EDIF file
            def last(kind, pred=lambda o: True):
                return {'o': [i for i, o in enumerate(W.objs) if irlib.kind(o) == kind and pred(o)][-1]}
            prologue += [
                lambda: {'kind': 'parse', 'op': 'parse', 'args': ['EDIF_netlists/namespace.edf.zip']},
                lambda: {'kind': 'new', 'op': 'new', 'args': ['Definition', 'b']},
                lambda: {'kind': 'create', 'child': 'Port', 'op': 'call', 'args': [last('Definition'), 'create_port', 'a']},
                lambda: {'kind': 'create', 'child': 'Cable', 'op': 'call', 'args': [last('Definition'), 'create_cable', 'a']},
                lambda: {'kind': 'set', 'op': 'setitem', 'args': [last('Port'), 'EDIF.identifier', 'a_b']},
                lambda: {'kind': 'set', 'op': 'setitem', 'args': [last('Cable'), 'EDIF.identifier', 'A_b']},
                lambda: {'kind': 'add', 'op': 'call', 'args': [last('Library', lambda o: o.get('.NS') == 'EDIF'), 'add_definition', last('Definition')]},
            ]
        todo = list(records) if records is not None else None
        step = 0
        while step < steps:
            if todo is not None:
                if not todo:
                    break
                rec = dict(todo.pop(0)); rec.pop('outcome', None)
            else:
                rec = (prologue[step]() if callable(prologue[step]) else prologue[step]) if step < len(prologue) else gen.next()
            hist.append(rec)
            exp = expected_refusal(W, rec)
            nb = len(W.objs)
            outcome = 'ok'
            try:
                res = run_op(W, rec)
                W.reg(res)
            except EXC as e:
                outcome = type(e).__name__
            rec['outcome'] = outcome
            W.harvest()
            org = {'clone': 'clone', 'parse': 'parsed'}.get(rec['kind'], None)
            for o in W.objs[nb:]:
                origin[id(o)] = org or 'built'
            if org is None:
                # elements that entered the world by being created below a clone / parsed netlist keep their own origin;
                # a parent's origin is what matters for lookups
                pass

            def fail(check, site, detail):
                fails.append({'check': check, 'site': site, 'detail': detail, 'step': len(hist) - 1,
                              'last_call': pretty(rec) + ' -> ' + outcome})

            # (b) refusal exactly when the scan says so
            if exp is not None:
                evals += 1
                refused = outcome == 'ValueError'
                key = rec['args'][1] if rec['kind'] == 'set' else ('.NAME' if rec['kind'] in ('rename', 'create') else 'both')
                target = None
                if rec['kind'] in ('set', 'rename', 'unname'):
                    e = W.objs[rec['args'][0]['o']]
                    try:
                        p = parent_of(e)
                    except Exception:
                        p = None
                    target = p
                elif rec['kind'] in ('create', 'add'):
                    target = W.objs[rec['args'][0]['o']]
                ck = rec.get('child') or (irlib.kind(W.objs[rec['args'][2]['o']]) if rec['kind'] == 'add' else
                                          irlib.kind(W.objs[rec['args'][0]['o']]) if rec['kind'] in ('set', 'rename', 'unname') else None)
                porg = scope_origin(origin, target, ck, W.objs[rec['args'][2]['o']] if rec['kind'] == 'add' else None) if target is not None else 'free'
                plabel = policy
                if target is not None and target.get('.NS') is not None:
                    plabel = target.get('.NS')
                if rec['kind'] == 'add' and W.objs[rec['args'][2]['o']].get('.NS') != plabel:
                    plabel += '+adopt'
                if outcome not in ('ok', 'ValueError') and rec['kind'] in ('clone', 'parse'):
                    pass        # a structural failure of clone / parse is C07's / C05's business, not a naming refusal
                elif outcome not in ('ok', 'ValueError'):
                    fail('C10.refusal', '%s:%s:%s:%s:%s' % (rec['kind'], key, plabel, porg, outcome),
                         'call ended with %s; the scan-based check expected %s' % (outcome, 'a refusal (%s)' % exp[1] if exp[0] else 'acceptance'))
                elif refused and not exp[0]:
                    fail('C10.refusal', '%s:%s:%s:%s:false-refusal' % (rec['kind'], key, plabel, porg),
                         'edit refused although no present sibling has the name / identifier and the identifier is legal')
                elif not refused and exp[0]:
                    fail('C10.refusal', '%s:%s:%s:%s:missed-refusal' % (rec['kind'], key, plabel, porg),
                         'edit accepted although it creates: %s' % exp[1])
            # (a) and (c) over every scope of every container in the world
            for P in W.objs:
                pk = irlib.kind(P)
                if pk not in ('Netlist', 'Library', 'Definition'):
                    continue
                pol = policy_of(P)
                porg = origin.get(id(P), 'built')
                evals += 1
                for lf, key, detail in scope_violations(P, pol):
                    ck = [x[2] for x in SCOPES if x[0] == pk and x[1] == lf][0]
                    fail('C10.unique', '%s:%s:%s:%s' % (lf, key, pol, scope_origin(origin, P, ck)), detail)
                for sc in SCOPES:
                    if sc[0] != pk:
                        continue
                    kids = list(getattr(P, sc[1]))
                    fn = getattr(sdn, sc[3])
                    porg = scope_origin(origin, P, sc[2])
                    for key in KEYS:
                        present = [k[key] for k in kids if key in k and isinstance(k[key], str)]
                        cand = list(PROBES)
                        for v in present:
                            for x in (v, v.swapcase(), v.lower()):
                                if x not in cand:
                                    cand.append(x)
                        cand = [v for v in cand if '*' not in v and '?' not in v]
                        if len(cand) > 40 and records is None:
                            cand = cand[:len(PROBES)] + random.Random(len(hist)).sample(cand[len(PROBES):], 40 - len(PROBES))
                        for v in cand:
                            evals += 1
                            want = scan(P, sc[2], key, v, pol)
                            try:
                                got = list(fn(P, v, key=key))
                            except EXC as e:
                                fail('C10.lookup-vs-scan', '%s:%s:%s:%s:raises-%s' % (sc[3], key, pol, porg, type(e).__name__),
                                     'lookup of %r raised %s' % (v[:20], type(e).__name__))
                                continue
                            if v == '':
                                # the query functions read a missing value as "" (see C13): children without the key
                                # may or may not answer a query for the empty string - not judged
                                got = [g for g in got if key in g]
                            if len(got) == len(want) and all(any(g is w for w in want) for g in got):
                                continue
                            missing = [w for w in want if not any(g is w for g in got)]
                            extra = [g for g in got if not any(g is w for w in want)]
                            how = 'missing' if missing and not extra else 'extra' if extra and not missing else 'different'
                            if len(want) > 1:
                                how += '-of-several'
                            elif extra and not any(e is k for e in extra for k in kids):
                                how = 'ghost'
                            elif missing and any(x != v for x in [missing[0][key]]):
                                how += '-case'
                            fail('C10.lookup-vs-scan', '%s:%s:%s:%s:%s' % (sc[3], key, pol, porg, how),
                                 '%s(parent, %r, key=%r) returned %d element(s), a scan over %s finds %d'
                                 % (sc[3], v[:20], key, len(got), sc[1], len(want)))
            if stop_at is not None and len(hist) - 1 >= stop_at:
                break
            step += 1
    finally:
        NM.default = 'DEFAULT'
        try:        # harness hygiene: the namespace manager would keep every world alive for ever
            for o in W.objs:
                if irlib.kind(o) in ('Netlist', 'Library', 'Definition'):
                    NM.namespaces.pop(o, None)
        except Exception:
            pass
    return fails, hist, evals


def history_hash(policy, hist):
    return hashlib.sha1(repr([policy] + [(x['op'], x.get('args'), x.get('kw'), x.get('outcome')) for x in hist]).encode()).hexdigest()[:16]


def nontrivial(hist):
    ok = sum(1 for x in hist if x.get('outcome') == 'ok')
    ref = sum(1 for x in hist if x.get('outcome') == 'ValueError')
    undo = sum(1 for x in hist if x['kind'] in ('remove', 'rename', 'unname', 'set') and x.get('outcome') == 'ok')
    return ok >= 5 and ref >= 1 and undo >= 1


def main():
    cfg = json.load(sys.stdin)
    out = {'evaluations': 0, 'hashes': [], 'samples': [], 'failures': [], 'histories': 0}
    seen = set()

    def absorb(seed, policy, fails, hist):
        for f in fails:
            sig = (f['check'], f['site'])
            if sig in seen and not cfg.get('all_failures'):
                continue
            seen.add(sig)
            upto = hist[:f['step'] + 1]
            f['replay'] = {'script': 'b_c10.py', 'seed': seed, 'policy': policy, 'records': upto,
                           'pretty': [pretty(x) + ' -> ' + str(x.get('outcome')) for x in upto][-12:]}
            f['detail'] = '%s (after %s)' % (f['detail'], f.pop('last_call'))
            f.pop('step')
            out['failures'].append(f)

    if cfg.get('replay'):
        rp = cfg['replay']
        try:
            fails, hist, ev = run_history(rp.get('seed', 0), rp['policy'], 10 ** 6, records=rp['records'])
            out['evaluations'] += ev
            absorb(rp.get('seed', 0), rp['policy'], fails, hist)
        except Exception:
            out['failures'].append({'check': 'HARNESS', 'site': 'replay', 'detail': traceback.format_exc()[-800:], 'replay': rp})
        sys.stdout.write('\n@@JSON@@\n' + json.dumps(out, default=str))
        return
    steps = cfg.get('steps', 40)
    for seed in cfg.get('seeds', [0]):
        for policy in cfg.get('policies', ['DEFAULT', 'EDIF']):
            try:
                fails, hist, ev = run_history(seed, policy, steps)
            except Exception:
                out['failures'].append({'check': 'HARNESS', 'site': 'history', 'detail': traceback.format_exc()[-800:],
                                        'replay': {'seed': seed, 'policy': policy}})
                continue
            out['histories'] += 1
            out['evaluations'] += ev
            if nontrivial(hist):
                out['hashes'].append(history_hash(policy, hist))
            if len(out['samples']) < 2:
                out['samples'].append({'policy': policy, 'calls': [pretty(x) + ' -> ' + str(x.get('outcome')) for x in hist[:14]]})
            absorb(seed, policy, fails, hist)
    sys.stdout.write('\n@@JSON@@\n' + json.dumps(out, default=str))


if __name__ == '__main__':
    main()
