"""Native replay of a string counterexample for C17: calls the REAL EdififyNames method on the model's input and evaluates the
contract's postcondition in plain Python.  stdin: {"function":..., "inputs": {"identifier"|"name": str}}"""
import json, re, sys
from spydrnet.composers.edif.edifify_names import EdififyNames


def legal(s):
    return bool(re.fullmatch(r'[A-Za-z][0-9A-Za-z_]{0,254}', s) or re.fullmatch(r'&[0-9A-Za-z_]{1,255}', s))


class Obj:
    def __init__(self, name): self.name = name; self.data = {}
    def __getitem__(self, k): return self.data[k]


def main():
    cfg = json.load(sys.stdin)
    fn, ins = cfg['function'], cfg['inputs']
    ed = EdififyNames()
    problems = []
    try:
        if fn == '_length_fix':
            s = ins['identifier']; r = ed._length_fix(s)
            if not (1 <= len(r) <= 255): problems.append('len(result)=%d' % len(r))
            if r[:1] != s[:1]: problems.append('first character changed')
            if len(s) <= 255 and r != s: problems.append('short identifier changed')
        elif fn == '_characters_good':
            s = ins['identifier']; r = ed._characters_good(s)
            spec = bool(re.fullmatch(r'[A-Za-z][0-9A-Za-z_]*', s))
            if bool(r) != spec: problems.append('_characters_good(%r)=%r but legal characters=%r' % (s[:40], r, spec))
        elif fn == '_characters_fix':
            s = ins['identifier']; r = ed._characters_fix(s)
            if not legal(r): problems.append('result %r (len %d) is not a legal EDIF identifier' % (r[:40], len(r)))
        elif fn in ('make_valid', '_conflicts_fix'):
            s = ins.get('name') or ins.get('identifier'); o = Obj(s)
            r = ed.make_valid(o, [o]) if fn == 'make_valid' else ed._conflicts_fix(o, s, [o])
            if not legal(r): problems.append('result %r (len %d) is not a legal EDIF identifier' % (r[:40], len(r)))
    except Exception as e:
        problems.append('raises %s: %s' % (type(e).__name__, e))
    sys.stdout.write('\n@@JSON@@\n' + json.dumps({'problems': problems}))


if __name__ == '__main__':
    main()
