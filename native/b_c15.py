"""Tier B for C15 - rejected input fails cleanly and leaves no process-wide residue.

Corpus: every bundled example whose text has <= 400 tokens (own tokenizers; leon3mp.edf.zip / osfbm.edf.zip are
emptied in this snapshot and skipped) plus three hand-written tiny files (EDIF / Verilog / EBLIF).
Every file is corrupted at every token position: truncation at each token boundary, deletion / duplication /
replacement of each token, and (EDIF) every cellRef / libraryRef / instanceRef / portRef / viewRef name replaced by a
name that is declared nowhere.  Each corrupted text is parsed by sdn.parse in a *child process* (5 s limit):

  C15.hang                 no answer within the limit
  C15.half-built           a netlist is returned that violates Inv (irlib.check_inv)
  C15.dangling-accepted    an EDIF reference to a never-declared cell / library / instance / port / view is not rejected
  C15.policy-residue       namespace_manager.default after the call differs from before it (rejected or accepted parse)
  C15.probe                after a rejected parse the fixed probe differs from a fresh process: creating a netlist /
                           library / definitions with identifiers only the EDIF policy refuses, and the canon of
                           a known-good file of each format
  C15.crash                the child process died

stdin : {"seeds":[s], "tier":..., "workers":16} | {"replay": {...}}
"""
import sys, json, os, re, hashlib, zipfile, glob, tempfile, shutil, traceback, signal, threading, queue, time
import multiprocessing as mp

REPO = os.environ.get('VERIF_REPO', '/repo')
LIMIT_S = 5
MAX_TOKENS = 400
SKIP = {'leon3mp.edf.zip', 'osfbm.edf.zip'}
UNDECLARED = 'zz_never_declared_zz'

TINY = {
    'tiny.edf': '''(edif tiny (edifVersion 2 0 0) (edifLevel 0) (keywordMap (keywordLevel 0))
 (status (written (timeStamp 2020 1 1 0 0 0)))
 (library prims (edifLevel 0) (technology (numberDefinition))
  (cell INV (cellType GENERIC) (view netlist (viewType NETLIST)
   (interface (port I (direction INPUT)) (port O (direction OUTPUT))))))
 (library work (edifLevel 0) (technology (numberDefinition))
  (cell top (cellType GENERIC) (view netlist (viewType NETLIST)
   (interface (port a (direction INPUT)) (port (array (rename b "b[1:0]") 2) (direction OUTPUT)))
   (contents
    (instance u1 (viewRef netlist (cellRef INV (libraryRef prims))))
    (instance (rename u2 "u[2]") (viewRef netlist (cellRef INV (libraryRef prims))) (property INIT (string "1")))
    (net a (joined (portRef a) (portRef I (instanceRef u1)) (portRef I (instanceRef u2))))
    (net (rename b_0 "b[0]") (joined (portRef (member b 1)) (portRef O (instanceRef u1))))
    (net n1 (joined (portRef (member b 0)) (portRef O (instanceRef u2))))))))
 (design top (cellRef top (libraryRef work))))
''',
    'tiny.v': '''module inv(input I, output O);
endmodule
module top(a, b);
  input a;
  output [1:0] b;
  wire n1;
  inv u1 (.I(a), .O(b[0]));
  inv \\u[2] (.I(a), .O(n1));
  assign b[1] = n1;
endmodule
''',
    'tiny.eblif': '''.model top
.inputs a clk
.outputs q
.names a n1
1 1
.subckt INV I=n1 O=n2
.cname u1
.latch n2 q re clk 0
.end

.model INV
.inputs I
.outputs O
.blackbox
.end
''',
}
TINY['hier.edf'] = '''(edif hier (edifVersion 2 0 0) (edifLevel 0) (keywordMap (keywordLevel 0))
 (library prims (edifLevel 0) (technology (numberDefinition))
  (cell INV (cellType GENERIC) (view netlist (viewType NETLIST)
   (interface (port I (direction INPUT)) (port O (direction OUTPUT))))))
 (library work (edifLevel 0) (technology (numberDefinition))
  (cell sub (cellType GENERIC) (view netlist (viewType NETLIST)
   (interface (port I (direction INPUT)) (port O (direction OUTPUT)))
   (contents
    (instance inner (viewRef netlist (cellRef INV (libraryRef prims))))
    (instance spare (viewRef netlist (cellRef INV (libraryRef prims))))
    (net I (joined (portRef I) (portRef I (instanceRef inner)))))))
  (cell top (cellType GENERIC) (view netlist (viewType NETLIST)
   (interface (port a (direction INPUT)) (port y (direction OUTPUT)))
   (contents
    (instance u_sub (viewRef netlist (cellRef sub (libraryRef work))))
    (instance u1 (viewRef netlist (cellRef INV (libraryRef prims))))
    (net a (joined (portRef a) (portRef I (instanceRef u_sub)) (portRef I (instanceRef u1))))
    (net y (joined (portRef y) (portRef O (instanceRef u_sub))))
    (net n (joined (portRef O (instanceRef u1))))))))
 (design top (cellRef top (libraryRef work))))
'''
TINY['chain.v'] = '''module a();
endmodule

module b();
  wire w;
  leaf u1();
endmodule

module c();
  b u2();
  d u4();
endmodule

module d();
  a u3();
endmodule

module e();
  c u5();
  a u6();
endmodule
'''
GOOD = {'edf': 'tiny.edf', 'v': 'tiny.v', 'eblif': 'tiny.eblif'}

TOK = {
    'edf': re.compile(r'"[^"]*"?|\(|\)|[^\s()"]+'),
    'v': re.compile(r'//[^\n]*|/\*.*?\*/|\(\*|\*\)|"(?:[^"\\]|\\.)*"|\\\S+|`\w+|\d*\'[sS]?[bBhHdDoO][0-9a-fA-FxXzZ_?]+|[A-Za-z_$][\w$]*|\d+|\S', re.S),
    'eblif': re.compile(r'\S+'),
}


def fmt_of(name):
    return name.rsplit('.', 1)[1].lower()


def tokenize(fmt, text):
    """[(token, start, end)]"""
    return [(m.group(0), m.start(), m.end()) for m in TOK[fmt].finditer(text)]


def corpus():
    out = []
    for z in sorted(glob.glob(os.path.join(REPO, 'example_netlists', '*', '*.zip'))):
        base = os.path.basename(z)
        if base in SKIP:
            continue
        try:
            zf = zipfile.ZipFile(z)
            names = zf.namelist()
            if len(names) != 1 or zf.getinfo(names[0]).file_size > 40000:
                continue
            text = zf.read(names[0]).decode('utf8', 'replace')
        except Exception:
            continue
        name = base[:-4]
        if len(tokenize(fmt_of(name), text)) <= MAX_TOKENS:
            out.append((name, text))
    for k in sorted(TINY):
        out.append((k, TINY[k]))
    return out


def mutations(name, text, seed, tier):
    """Yields dicts {kind, index, text}."""
    fmt = fmt_of(name)
    toks = tokenize(fmt, text)
    T = len(toks)
    nrep = 1 if tier != 'thorough' else 3
    for i, (t, a, b) in enumerate(toks):
        yield {'kind': 'truncate', 'index': i, 'text': text[:a]}
        yield {'kind': 'delete', 'index': i, 'text': text[:a] + text[b:]}
        yield {'kind': 'duplicate', 'index': i, 'text': text[:b] + ' ' + t + text[b:]}
        for k in range(nrep):
            j = (i * 7 + seed + 1 + 13 * k) % T
            r = toks[j][0]
            if r == t:
                r = toks[(j + 1) % T][0]
            if r == t:
                r = 'zz'
            yield {'kind': 'replace', 'index': i, 'with': r, 'text': text[:a] + r + text[b:]}
    yield {'kind': 'truncate', 'index': T, 'text': text.rstrip()}     # complete text without the final newline
    if fmt == 'v':
        # every instantiation re-targeted to every other module declared in the file (cyclic hierarchies, use-before-declaration, ...)
        ident = re.compile(r'^(\\\S+|[A-Za-z_$][\w$]*)$')
        KW = {'module', 'endmodule', 'input', 'output', 'inout', 'wire', 'reg', 'assign', 'parameter', 'localparam', 'tri', 'supply0', 'supply1'}
        declared = [toks[i + 1][0] for i in range(T - 1) if toks[i][0] == 'module' and ident.match(toks[i + 1][0])]
        for i in range(T - 2):
            t = toks[i][0]
            if ident.match(t) and t not in KW and ident.match(toks[i + 1][0]) and toks[i + 1][0] not in KW and toks[i + 2][0] == '(' \
                    and (i == 0 or toks[i - 1][0] in (';', 'endmodule', '*)')):
                a, b = toks[i][1], toks[i][2]
                for m in declared:
                    if m != t:
                        yield {'kind': 'retarget-instance', 'index': i, 'with': m, 'text': text[:a] + m + text[b:]}
    if fmt == 'edf':
        low = [t.lower() for t, _, _ in toks]
        for i, t in enumerate(low):
            if t in ('cellref', 'libraryref', 'instanceref', 'portref', 'viewref') and i + 1 < T:
                j = i + 1
                if toks[j][0] == '(' and j + 2 < T and low[j + 1] == 'member':
                    j = j + 2
                if toks[j][0] in '()':
                    continue
                a, b = toks[j][1], toks[j][2]
                yield {'kind': 'dangling-' + toks[i][0], 'index': j, 'with': UNDECLARED, 'text': text[:a] + UNDECLARED + text[b:]}
        # an instanceRef that names an instance declared only in ANOTHER cell (a grand-child, a sibling cell's content) is just as undeclared
        insts_of = {}
        cur_cell = None
        where = {}
        def name_at0(k):
            if k < T and toks[k][0] == '(' and k + 2 < T and low[k + 1] == 'rename':
                return toks[k + 2][0]
            return toks[k][0] if k < T else None
        for i, t in enumerate(low):
            if t == 'cell' and i > 0 and toks[i - 1][0] == '(':
                cur_cell = (name_at0(i + 1) or '').lower(); insts_of.setdefault(cur_cell, set())
            if t == 'instance' and i > 0 and toks[i - 1][0] == '(' and cur_cell is not None:
                insts_of[cur_cell].add(name_at0(i + 1) or '')
            where[i] = cur_cell
        for i, t in enumerate(low):
            if t == 'instanceref' and i + 1 < T and toks[i + 1][0] not in '()':
                here = insts_of.get(where.get(i), set())
                a, b = toks[i + 1][1], toks[i + 1][2]
                others = sorted(set(x for c_, xs in insts_of.items() if c_ != where.get(i) for x in xs) - here)
                for iname in others[:4]:
                    yield {'kind': 'dangling-instanceRef', 'index': i + 1, 'with': iname, 'text': text[:a] + iname + text[b:]}
        # a cellRef that names a cell declared only in ANOTHER library than the one its libraryRef gives is just as undeclared
        cells_of = {}
        cur = None
        def name_at(k):
            if k < T and toks[k][0] == '(' and k + 2 < T and low[k + 1] == 'rename':
                return toks[k + 2][0]
            return toks[k][0] if k < T else None
        for i, t in enumerate(low):
            if t in ('library', 'external') and i > 0 and toks[i - 1][0] == '(':
                cur = (name_at(i + 1) or '').lower(); cells_of.setdefault(cur, set())
            if t == 'cell' and i > 0 and toks[i - 1][0] == '(' and cur is not None:
                cells_of[cur].add((name_at(i + 1) or '').lower())
        for i, t in enumerate(low):
            if t == 'cellref' and i + 4 < T and toks[i + 2][0] == '(' and low[i + 3] == 'libraryref':
                lib = toks[i + 4][0].lower()
                here = cells_of.get(lib, set())
                a, b = toks[i + 1][1], toks[i + 1][2]
                for other, cs in sorted(cells_of.items()):
                    if other == lib: continue
                    for cname in sorted(cs - here)[:2]:
                        yield {'kind': 'dangling-cellRef', 'index': i + 1, 'with': cname, 'text': text[:a] + cname + text[b:]}


# ------------------------------------------------------------------ canon (names, shapes, connectivity, data) - own walk
# name-keyed as in DESIGN.md section 4: libraries, definitions, cables and instances are compared by name, not by position
# (the EBLIF reader orders the generated primitive definitions by a set of objects, i.e. by memory address)
def canon(n):
    def data(e):
        return sorted((str(k), repr(v)) for k, v in e.data.items())
    out = {'name': n.name, 'data': data(n), 'top': None, 'libs': []}
    ti = n.top_instance
    if ti is not None:
        ref = ti.reference
        out['top'] = (ti.name, ref.name if ref is not None else None, ref.library.name if ref is not None and ref.library is not None else None)
    for l in n.libraries:
        L = {'name': l.name, 'data': data(l), 'defs': []}
        for d in l.definitions:
            D = {'name': d.name, 'data': data(d), 'ports': [], 'cables': [], 'insts': []}
            for p in d.ports:
                D['ports'].append((p.name, str(p.direction), len(p.pins), p.lower_index, p.is_downto, p.is_scalar, data(p)))
            for i in d.children:
                r = i.reference
                D['insts'].append((i.name, r.name if r is not None else None, r.library.name if r is not None and r.library is not None else None, data(i)))
            for c in d.cables:
                wires = []
                for w in c.wires:
                    ends = []
                    for pin in w.pins:
                        if hasattr(pin, 'instance'):
                            ip = pin.inner_pin
                            ends.append(('inst', pin.instance.name if pin.instance is not None else None,
                                         ip.port.name if ip is not None and ip.port is not None else None,
                                         list(ip.port.pins).index(ip) if ip is not None and ip.port is not None else None))
                        else:
                            ends.append(('port', pin.port.name if pin.port is not None else None,
                                         list(pin.port.pins).index(pin) if pin.port is not None else None))
                    wires.append(ends)
                D['cables'].append((c.name, len(c.wires), c.lower_index, c.is_downto, c.is_scalar, data(c), wires))
            D['insts'].sort(key=repr); D['cables'].sort(key=repr)
            L['defs'].append(D)
        L['defs'].sort(key=lambda D: repr(D['name']))
        out['libs'].append(L)
    out['libs'].sort(key=lambda L: repr(L['name']))
    return json.dumps(out, sort_keys=True, default=str)


# ------------------------------------------------------------------ child process
class Timeout(BaseException):
    pass


def child_main(conn, workdir, fresh):
    devnull = os.open(os.devnull, os.O_WRONLY)
    os.dup2(devnull, 1); os.dup2(devnull, 2)
    import spydrnet as sdn
    from spydrnet.plugins import namespace_manager as NM
    import irlib

    def on_alarm(signum, frame):
        raise Timeout()
    signal.signal(signal.SIGALRM, on_alarm)
    good = {}
    for fmt, name in GOOD.items():
        p = os.path.join(workdir, 'good.' + fmt)
        with open(p, 'w') as f:
            f.write(TINY[name])
        good[fmt] = p

    def probe(prior):
        errs = []
        if NM.default != prior:
            errs.append(('policy', 'namespace_manager.default is %r, was %r before the call' % (NM.default, prior)))
        return errs

    def probe_fresh():
        """Only meaningful when the process is expected to be in its initial configuration (policy DEFAULT)."""
        errs = []
        try:
            n = sdn.Netlist('probe netlist'); n['EDIF.identifier'] = '9 not-an edif id'
            l = n.create_library('lib one'); l['EDIF.identifier'] = '1-bad id'
            d1 = l.create_definition('cell'); d1['EDIF.identifier'] = 'Cell'
            d2 = l.create_definition('CELL'); d2['EDIF.identifier'] = 'cell'
            if [x.get('.NS') for x in (n, l, d1, d2)] != ['DEFAULT'] * 4:
                errs.append(('create', 'fresh elements carry policy %r' % [x.get('.NS') for x in (n, l, d1, d2)]))
        except Exception as e:
            errs.append(('create', 'creating elements a fresh process accepts raised %s: %s' % (type(e).__name__, str(e)[:80])))
        for fmt, p in sorted(good.items()):
            try:
                c = canon(sdn.parse(p))
                if c != fresh[fmt]:
                    errs.append(('good-' + fmt, 'a known-good .%s file parses to a different netlist than in a fresh process' % fmt))
            except Exception as e:
                errs.append(('good-' + fmt, 'a known-good .%s file is now rejected: %s: %s' % (fmt, type(e).__name__, str(e)[:80])))
        return errs

    k = 0
    while True:
        try:
            case = conn.recv()
        except EOFError:
            break
        if case is None:
            break
        k += 1
        res = {'id': case['id'], 'outcome': None, 'problems': []}
        path = os.path.join(workdir, 'c%d.%s' % (k % 4, case['fmt']))
        with open(path, 'w') as f:
            f.write(case['text'])
        prior = case.get('prior', 'DEFAULT')
        NM.default = prior
        n = None
        signal.alarm(LIMIT_S)
        try:
            n = sdn.parse(path)
            signal.alarm(0)
            res['outcome'] = 'netlist'
        except Timeout:
            res['outcome'] = 'hang'
            conn.send(res)
            os._exit(3)
        except Exception as e:
            signal.alarm(0)
            res['outcome'] = 'raises:' + type(e).__name__
        except BaseException as e:
            signal.alarm(0)
            res['outcome'] = 'raises:' + type(e).__name__
        try:
            signal.alarm(LIMIT_S * 2)
            if res['outcome'] == 'netlist':
                if n is None or type(n).__name__ != 'Netlist':
                    res['problems'].append(('half-built', 'returned', 'parse returned %s' % type(n).__name__))
                else:
                    inv = irlib.check_inv([n])
                    if inv:
                        res['problems'].append(('half-built', inv[0][0], inv[0][1]))
                for what, detail in probe(prior):
                    res['problems'].append(('policy-residue', 'after-accepted', detail))
            else:
                for what, detail in probe(prior):
                    res['problems'].append(('policy-residue', 'after-rejected', detail))
            NM.default = 'DEFAULT'          # repair what is already reported, then look for anything else
            if res['outcome'] != 'netlist':
                for what, detail in probe_fresh():
                    res['problems'].append(('probe', what, detail))
                    res['restart'] = True
            signal.alarm(0)
        except Timeout:
            res['problems'].append(('probe', 'hang', 'the probe after the parse did not finish'))
            res['restart'] = True
        conn.send(res)
        if res.get('restart'):
            os._exit(0)


class Child:
    def __init__(self, ctx, root, fresh):
        self.ctx, self.root, self.fresh = ctx, root, fresh
        self.proc = None
        self.start()

    def start(self):
        self.dir = tempfile.mkdtemp(dir=self.root)
        self.conn, c2 = self.ctx.Pipe()
        self.proc = self.ctx.Process(target=child_main, args=(c2, self.dir, self.fresh), daemon=True)
        self.proc.start()
        c2.close()

    def stop(self):
        try:
            self.conn.send(None)
        except Exception:
            pass
        self.proc.join(1)
        if self.proc.is_alive():
            self.proc.kill(); self.proc.join(1)
        self.conn.close()

    def run(self, case):
        try:
            self.conn.send(case)
            if self.conn.poll(LIMIT_S * 3 + 3):
                res = self.conn.recv()
            else:
                res = {'id': case['id'], 'outcome': 'hang', 'problems': [], 'hard': True}
        except (EOFError, BrokenPipeError, ConnectionResetError):
            res = {'id': case['id'], 'outcome': 'crash', 'problems': []}
        if res['outcome'] in ('hang', 'crash') or res.get('restart') or not self.proc.is_alive():
            self.proc.kill(); self.proc.join(2)
            try:
                self.conn.close()
            except Exception:
                pass
            self.start()
        return res


def run_cases(cases, workers, fresh, root):
    ctx = mp.get_context('fork')
    q = queue.Queue()
    for c in cases:
        q.put(c)
    results = {}
    lock = threading.Lock()

    def loop():
        ch = Child(ctx, root, fresh)
        try:
            while True:
                try:
                    c = q.get_nowait()
                except queue.Empty:
                    return
                r = ch.run(c)
                with lock:
                    results[c['id']] = r
        finally:
            ch.stop()
    ths = [threading.Thread(target=loop) for _ in range(max(1, min(workers, len(cases))))]
    for t in ths:
        t.start()
    for t in ths:
        t.join()
    return results


def fresh_canons(root):
    """canon of the good files in a process that has parsed nothing else."""
    ctx = mp.get_context('fork')
    a, b = ctx.Pipe()

    def f(conn):
        devnull = os.open(os.devnull, os.O_WRONLY)
        os.dup2(devnull, 1); os.dup2(devnull, 2)
        import spydrnet as sdn
        out = {}
        d = tempfile.mkdtemp(dir=root)
        for fmt, name in GOOD.items():
            p = os.path.join(d, 'good.' + fmt)
            with open(p, 'w') as fh:
                fh.write(TINY[name])
            out[fmt] = canon(sdn.parse(p))
        conn.send(out)
    p = ctx.Process(target=f, args=(b,))
    p.start()
    out = a.recv() if a.poll(60) else None
    p.join(5)
    if out is None:
        raise RuntimeError('could not parse the known-good files in a fresh process')
    return out


def main():
    cfg = json.load(sys.stdin)
    out = {'evaluations': 0, 'hashes': [], 'samples': [], 'failures': [], 'outcomes': {}, 'files': []}
    root = tempfile.mkdtemp(prefix='verif_c15_')
    try:
        fresh = fresh_canons(root)
        cases = []
        if cfg.get('replay'):
            rp = cfg['replay']
            cases.append({'id': 0, 'file': rp['file'], 'fmt': rp['fmt'], 'kind': rp['kind'], 'index': rp.get('index'), 'with': rp.get('with'),
                          'text': rp['text'], 'prior': rp.get('prior', 'DEFAULT'), 'base_ok': True})
        else:
            seed = (cfg.get('seeds') or [0])[0]
            tier = cfg.get('tier', 'quick')
            for name, text in corpus():
                fmt = fmt_of(name)
                out['files'].append({'file': name, 'tokens': len(tokenize(fmt, text))})
                cases.append({'id': len(cases), 'file': name, 'fmt': fmt, 'kind': 'original', 'index': None, 'text': text, 'prior': 'DEFAULT'})
                cases.append({'id': len(cases), 'file': name, 'fmt': fmt, 'kind': 'original', 'index': None, 'text': text, 'prior': 'EDIF'})
                for m in mutations(name, text, seed, tier):
                    for pr in ('DEFAULT', 'EDIF'):
                        cases.append({'id': len(cases), 'file': name, 'fmt': fmt, 'kind': m['kind'], 'index': m['index'], 'with': m.get('with'),
                                      'text': m['text'], 'prior': pr})
        results = run_cases(cases, int(cfg.get('workers', 16)), fresh, root)
        # a time-out on a loaded machine is not a hang: every case that did not answer is run again, alone, with a six-fold limit,
        # and only the second verdict counts
        global LIMIT_S
        slow = [c for c in cases if results.get(c['id'], {}).get('outcome') in ('hang', 'crash')]
        if slow:
            first_limit = LIMIT_S
            LIMIT_S = first_limit * 6
            try:
                again = run_cases(slow[:12], 1, fresh, root)
            finally:
                LIMIT_S = first_limit
            for c in slow[:12]:
                if c['id'] in again:
                    if again[c['id']]['outcome'] not in ('hang', 'crash'):
                        out.setdefault('slow_but_terminating', 0); out['slow_but_terminating'] += 1
                    results[c['id']] = again[c['id']]
        seen = set()
        hashes = set()
        base_text = {n: t for n, t in corpus()} if not cfg.get('replay') else {}
        for c in cases:
            r = results.get(c['id'])
            if r is None:
                out['failures'].append({'check': 'HARNESS', 'site': 'no-result', 'detail': 'case %s lost' % c['id'], 'replay': None})
                continue
            out['evaluations'] += 1
            oc = r['outcome'].split(':')[0]
            key = '%s:%s:%s' % (c['fmt'], c['kind'].split('-')[0], oc)
            out['outcomes'][key] = out['outcomes'].get(key, 0) + 1
            probs = list(r['problems'])
            if r['outcome'] == 'hang':
                probs.append(('hang', 'hard' if r.get('hard') else 'parse', 'sdn.parse did not return within %d s (confirmed alone with %d s)' % (LIMIT_S, LIMIT_S * 6)))
            if r['outcome'] == 'crash':
                probs.append(('crash', 'child', 'the child process died while parsing'))
            if c['kind'].startswith('dangling') and r['outcome'] == 'netlist':
                probs.append(('dangling-accepted', c['kind'][9:], 'the reference %s to a name declared nowhere was accepted and a netlist returned' % c['kind'][9:]))
            if c['kind'] == 'original' and r['outcome'] != 'netlist':
                probs.append(('base-rejected', 'original', 'the unmodified file is rejected: ' + r['outcome']))
            if c['kind'] != 'original' and c['text'] != base_text.get(c['file']):
                hashes.add(hashlib.sha1((c['fmt'] + '\0' + c['prior'] + '\0' + c['text']).encode()).hexdigest()[:16])
            if len(out['samples']) < 3 and c['kind'] not in ('original',) and c['index'] and c['index'] > 20:
                out['samples'].append({'file': c['file'], 'mutation': c['kind'], 'token': c['index'], 'prior_policy': c['prior'], 'outcome': r['outcome']})
            for chk, where, detail in probs:
                check = 'C15.' + chk if chk != 'base-rejected' else 'HARNESS'
                site = '%s:%s:%s' % (c['fmt'], c['kind'] if chk in ('hang', 'half-built', 'crash') else ('prior-' + c['prior']), where)
                if chk == 'dangling-accepted':
                    site = 'edf:' + where.lower()
                if (check, site) in seen and not cfg.get('all_failures'):
                    continue
                seen.add((check, site))
                out['failures'].append({'check': check, 'site': site,
                                        'detail': '%s, %s token %s%s (policy before the call: %s): %s -> %s' % (
                                            c['file'], c['kind'], c['index'], (' -> %r' % c['with']) if c.get('with') else '', c['prior'], r['outcome'], detail),
                                        'replay': {'script': 'b_c15.py', 'file': c['file'], 'fmt': c['fmt'], 'kind': c['kind'], 'index': c['index'],
                                                   'with': c.get('with'), 'prior': c['prior'], 'text': c['text']}})
        out['hashes'] = sorted(hashes)
    except Exception:
        out['failures'].append({'check': 'HARNESS', 'site': 'main', 'detail': traceback.format_exc()[-900:], 'replay': None})
    finally:
        shutil.rmtree(root, ignore_errors=True)
    sys.stdout.write('\n@@JSON@@\n' + json.dumps(out, default=str))


if __name__ == '__main__':
    main()
