"""Abstract designs (AD) for the bounded stand-in tier of C07/C08/C09/C11/C12/C20 (DESIGN.md section 4).

An AD is a JSON-able dict

  {"name": str,
   "libraries": [{"name": str,
                  "definitions": [{"name": str,
                                   "ports":     [{"name", "direction": IN|OUT|INOUT, "width", "base", "downto": bool}],
                                   "cables":    [{"name", "width", "base"}],
                                   "instances": [{"name", "ref": [libname, defname], "properties": {key: value}}],
                                   "nets":      [{"cable": name, "bit": index incl. base,
                                                  "endpoints": [["port", portname, bit] | ["inst", instname, portname, bit]]}]}]}],
   "top": [libname, defname], "top_instance_name": str}

Optional keys (all default to absent): element["unnamed"] = True (build_api leaves the element without a name; "name"
stays the handle used inside the AD), element["data"] = {key: value} (extra user data), port["array"] = True /
cable["array"] = True (a one-element bundle that is not a scalar), ad["top_child"] = [libname, defname, instname]
(the top instance is that child instance instead of a stand-alone instance), ad["meta"] (generator notes, not used by
build_api).

Guarantees of every generated AD (checked by validate_ad): references are acyclic, every pin bit is on at most one
net, every net bit exists, names are unique among siblings of a kind, scalar (width-1, non-array) bundles start at 0.

Everything here depends only on the seed (random.Random(seed)); no hashing of objects, no set iteration.
build_api builds the netlist through spydrnet's public API only; the rest of the module never touches spydrnet.
"""
import copy, hashlib, itertools, json, random

DIRS = ('IN', 'OUT', 'INOUT')

# ------------------------------------------------------------------------------------------------ profiles
PROFILES = {
    # named, plain; library references form a DAG (prims <- lib_b <- work) so that the EDIF writer can order them
    'plain':   dict(unnamed=0.0, outside=0.35, free_libs=False, userdata=0.0, array1=0.0, case_names=False, twins=0.4),
    # everything the quantifier of C07/C11 mentions: unnamed items, user data, one-element arrays, free library order
    'wild':    dict(unnamed=0.12, outside=0.35, free_libs=True, userdata=0.5, array1=0.15, case_names=True, twins=0.3),
    # named, but any library order / cross references in both directions, user data, one-element arrays
    'named':   dict(unnamed=0.0, outside=0.4, free_libs=True, userdata=0.3, array1=0.1, case_names=True, twins=0.3),
}

LEAF_NAMES = ['BUF', 'AND2', 'FD', 'LUT3', 'INV']
PORT_NAMES = ['a', 'b', 'y', 'q', 'd', 'A', 'clk']
CABLE_NAMES = ['n', 'w', 'a', 'y', 'bus', 'N', 'net_1']
INST_NAMES = ['u', 'i', 'a', 'U', 'g', 'x_1']
DEF_NAMES = ['mod', 'blk', 'core', 'pt', 'Mod']


def ad_hash(ad):
    return hashlib.sha1(json.dumps(ad, sort_keys=True, default=str).encode()).hexdigest()[:16]


def _uniq(r, pool, used, case_names, prefix=''):
    """A fresh sibling name. With case_names, names that differ only in case ('a'/'A') may be siblings."""
    for _ in range(50):
        base = r.choice(pool)
        if not case_names:
            base = base.lower()
        cand = prefix + base + (str(r.randrange(0, 4)) if r.random() < 0.7 else '')
        key = cand if case_names else cand.lower()
        if key not in used:
            used.add(key)
            return cand
    k = len(used)
    while True:
        cand = prefix + 'e%d' % k
        if cand not in used:
            used.add(cand)
            return cand
        k += 1


def _gen_ports(r, prof, lo, hi, case_names):
    ports, used = [], set()
    for _ in range(r.randint(lo, hi)):
        w = r.choice([1, 1, 1, 2, 2, 3, 4])
        p = {'name': _uniq(r, PORT_NAMES, used, case_names), 'direction': r.choice(DIRS), 'width': w,
             'base': r.choice([0, 0, 1, 2, 3]) if w > 1 else 0, 'downto': r.random() < 0.5}
        if w == 1 and r.random() < prof['array1']:
            p['array'] = True
            p['base'] = r.choice([0, 1, 3])
        ports.append(p)
    return ports


def _pin_bits(ports):
    return [(p['name'], p['base'] + k) for p in ports for k in range(p['width'])]


def _userdata(r):
    return r.choice([{'user.k': 1}, {'user.note': 'x y', 'VERILOG.InlineConstraints': {'keep': 'true'}},
                     {'user.list': [1, [2, 3], {'z': None}]}, {'EDIF.original_identifier': 'orig[0]'}])


def gen_design(seed, profile='plain'):
    """One seeded abstract design."""
    prof = dict(PROFILES[profile]) if isinstance(profile, str) else dict(profile)
    r = random.Random(seed)
    cn = prof['case_names']
    libs = {}
    order = []                       # generation order of definitions: (libname, defdict)
    prim_name = r.choice(['prims', 'hdi_primitives'])
    work_names = ['work'] if r.random() < 0.35 else ['lib_b', 'work']
    libs[prim_name] = {'name': prim_name, 'definitions': []}
    for wn in work_names:
        libs[wn] = {'name': wn, 'definitions': []}
    used_def = {ln: set() for ln in libs}

    # ---- leaves (no cables, no children)
    nleaf = r.randint(1, 3)
    for _ in range(nleaf):
        d = {'name': _uniq(r, LEAF_NAMES, used_def[prim_name], False), 'ports': _gen_ports(r, prof, 1, 3, cn),
             'cables': [], 'instances': [], 'nets': []}
        libs[prim_name]['definitions'].append(d)
        order.append((prim_name, d))
    if r.random() < prof['twins']:   # a second leaf with the same port list (re-pointing target for C20)
        src = r.choice(libs[prim_name]['definitions'])
        d = {'name': _uniq(r, LEAF_NAMES, used_def[prim_name], False, prefix='T'), 'ports': copy.deepcopy(src['ports']),
             'cables': [], 'instances': [], 'nets': []}
        libs[prim_name]['definitions'].append(d)
        order.append((prim_name, d))

    # ---- hierarchical definitions
    nhier = r.randint(2, 5)
    kinds = []
    for k in range(nhier):
        if k == nhier - 1:
            kinds.append('normal')
        else:
            kinds.append(r.choice(['normal', 'normal', 'normal', 'passthrough', 'wireonly', 'normal']))
    if prof['free_libs']:
        lib_of = [r.choice(work_names) for _ in range(nhier)]
        lib_of[-1] = 'work'
    else:                            # lib_b definitions first, then work: references never point "forward" in library order
        nb = r.randint(0, nhier - 1) if len(work_names) == 2 else 0
        lib_of = ['lib_b'] * nb + ['work'] * (nhier - nb)
    has_outside = r.random() < prof['outside']
    total = nhier + (1 if has_outside else 0)
    for k in range(total):
        outside = k >= nhier
        kind = 'normal' if outside else kinds[k]
        ln = (r.choice(work_names) if prof['free_libs'] else 'work') if outside else lib_of[k]
        is_top = (k == nhier - 1)
        d = {'name': _uniq(r, DEF_NAMES, used_def[ln], False, prefix='orphan_' if outside else ''),
             'ports': _gen_ports(r, prof, 0 if (is_top or outside or kind == 'wireonly') else 1, 3, cn),
             'cables': [], 'instances': [], 'nets': []}
        if kind == 'passthrough' and len(d['ports']) < 2:
            d['ports'] = _gen_ports(r, prof, 2, 3, cn)
        usedc, usedi = set(), set()
        for _ in range(r.randint(1, 4)):
            w = r.choice([1, 1, 2, 3, 4])
            c = {'name': _uniq(r, CABLE_NAMES, usedc, cn), 'width': w, 'base': r.choice([0, 0, 1, 2, 3]) if w > 1 else 0}
            if w == 1 and r.random() < prof['array1']:
                c['array'] = True
                c['base'] = r.choice([0, 2])
            d['cables'].append(c)
        if kind == 'normal':
            hier_before = [x for x in order if x[1]['cables'] or x[1]['instances']]
            if outside:              # never instantiate the top definition elsewhere
                hier_before = [x for x in hier_before if x[1] is not top_def]
            leaves = [x for x in order if not (x[1]['cables'] or x[1]['instances'])]
            for _ in range(r.randint(1, 4)):
                pool = hier_before if (hier_before and r.random() < 0.55) else leaves
                rl, rd = r.choice(pool)
                inst = {'name': _uniq(r, INST_NAMES, usedi, cn), 'ref': [rl, rd['name']], 'properties': {}}
                if r.random() < 0.3:
                    inst['properties']['EDIF.properties'] = [{'identifier': 'INIT', 'value': r.choice(["4'h8", '1', 'abc'])}]
                    if r.random() < 0.4:
                        inst['properties']['EDIF.properties'].append({'identifier': 'LOC', 'value': 'X%dY0' % r.randrange(4)})
                if r.random() < prof['userdata']:
                    inst['properties'].update(_userdata(r))
                d['instances'].append(inst)
        # ---- nets
        wires = [(c['name'], c['base'] + k2) for c in d['cables'] for k2 in range(c['width'])]
        nets = {}
        if kind == 'passthrough':
            bits = _pin_bits(d['ports'])
            r.shuffle(bits)
            free = list(wires)
            r.shuffle(free)
            while len(bits) >= 2 and free:
                w = free.pop()
                take = 2 if r.random() < 0.8 or len(bits) < 3 else 3
                nets[w] = [['port', pn, b] for pn, b in bits[:take]]
                bits = bits[take:]
        elif kind == 'wireonly':
            pass
        else:
            defs_by = {(l, x['name']): x for l, x in order}
            pins = [['port', pn, b] for pn, b in _pin_bits(d['ports'])]
            for inst in d['instances']:
                rd = defs_by[tuple(inst['ref'])]
                pins += [['inst', inst['name'], pn, b] for pn, b in _pin_bits(rd['ports'])]
            r.shuffle(pins)
            for ep in pins:
                if r.random() < 0.78:
                    nets.setdefault(r.choice(wires), []).append(ep)
        for c in d['cables']:        # emit in cable/bit order: no dict-order dependence
            for k2 in range(c['width']):
                key = (c['name'], c['base'] + k2)
                if key in nets:
                    d['nets'].append({'cable': key[0], 'bit': key[1], 'endpoints': nets[key]})
        if r.random() < prof['userdata']:
            d['data'] = _userdata(r)
        libs[ln]['definitions'].append(d)
        order.append((ln, d))
        if is_top:
            top_def, top_lib = d, ln
    # ---- unnamed items
    if prof['unnamed'] > 0:
        for ln, d in order:
            for kind in ('ports', 'cables', 'instances'):
                for e in d[kind]:
                    if r.random() < prof['unnamed']:
                        e['unnamed'] = True
            if d is not top_def and r.random() < prof['unnamed'] / 2:
                d['unnamed'] = True
    lib_list = [libs[prim_name]] + [libs[w] for w in work_names]
    if prof['free_libs']:
        r.shuffle(lib_list)
        for L in lib_list:
            if r.random() < 0.5:
                L['definitions'].reverse()
    ad = {'name': r.choice(['design', 'nl_top', 'Design_1']), 'libraries': lib_list,
          'top': [top_lib, top_def['name']], 'top_instance_name': r.choice(['top_inst', 'top', top_def['name']])}
    if prof['userdata'] and r.random() < prof['userdata']:
        ad['data'] = _userdata(r)
    ad['meta'] = {'seed': seed, 'profile': profile if isinstance(profile, str) else 'custom',
                  'lib_dag': not prof['free_libs']}
    return ad


# ------------------------------------------------------------------------------------------------ access helpers
def defs_by_name(ad):
    return {(L['name'], d['name']): d for L in ad['libraries'] for d in L['definitions']}


def is_leaf_def(d):
    return not d['cables'] and not d['instances']


def validate_ad(ad):
    """Returns a list of problems (empty = the AD keeps every generator guarantee)."""
    errs = []
    db = defs_by_name(ad)
    if len(db) != sum(len(L['definitions']) for L in ad['libraries']):
        errs.append('duplicate definition name')
    if tuple(ad['top']) not in db:
        errs.append('top missing')
    state = {}

    def visit(k):
        if state.get(k) == 1:
            errs.append('reference cycle through %r' % (k,)); return
        if state.get(k) == 2:
            return
        state[k] = 1
        for i in db[k]['instances']:
            if tuple(i['ref']) not in db:
                errs.append('dangling ref %r' % (i['ref'],))
            else:
                visit(tuple(i['ref']))
        state[k] = 2
    for k in db:
        visit(k)
    for k, d in db.items():
        for kind in ('ports', 'cables', 'instances'):
            names = [e['name'] for e in d[kind]]
            if len(set(names)) != len(names):
                errs.append('%r: duplicate %s name' % (k, kind))
        for b in d['ports'] + d['cables']:
            if b['width'] == 1 and not b.get('array') and b['base'] != 0:
                errs.append('%r: scalar bundle %s with base %d' % (k, b['name'], b['base']))
            if not 1 <= b['width'] <= 8:     # the generator stays within 1-4; mutated designs may exceed it by one
                errs.append('%r: width of %s' % (k, b['name']))
        wires = set((c['name'], c['base'] + j) for c in d['cables'] for j in range(c['width']))
        pins = set(('port', pn, b) for pn, b in _pin_bits(d['ports']))
        for i in d['instances']:
            rd = db.get(tuple(i['ref']))
            if rd:
                pins |= set(('inst', i['name'], pn, b) for pn, b in _pin_bits(rd['ports']))
        seen, seenw = set(), set()
        for n in d['nets']:
            if (n['cable'], n['bit']) not in wires:
                errs.append('%r: net on a missing wire %s[%d]' % (k, n['cable'], n['bit']))
            if (n['cable'], n['bit']) in seenw:
                errs.append('%r: two net records for one wire' % (k,))
            seenw.add((n['cable'], n['bit']))
            for ep in n['endpoints']:
                t = tuple(ep)
                if t not in pins:
                    errs.append('%r: endpoint %r does not exist' % (k, ep))
                if t in seen:
                    errs.append('%r: pin bit %r on two nets' % (k, ep))
                seen.add(t)
    return errs


# ------------------------------------------------------------------------------------------------ AD-level elaboration
class _UF:
    def __init__(self):
        self.p = {}

    def find(self, x):
        self.p.setdefault(x, x)
        root = x
        while self.p[root] != root:
            root = self.p[root]
        while self.p[x] != root:
            self.p[x], x = root, self.p[x]
        return root

    def union(self, a, b):
        ra, rb = self.find(a), self.find(b)
        if ra != rb:
            self.p[ra] = rb


def elab_ad(ad):
    """Elaboration computed from the abstract design alone (second, spydrnet-free oracle; the shape is that of
    oracles.elab): {'hier': sorted instance paths, 'leaves': {path: [lib, def]}, 'nets': sorted partition} where paths are
    tuples of instance names below the top and endpoints are ('pin', path, portname, position) / ('top', portname, position).
    Only meaningful for fully named designs."""
    db = defs_by_name(ad)
    uf = _UF()
    hier, leaves, endpoints = [], {}, []

    def pos(d, pn, bit):
        for p in d['ports']:
            if p['name'] == pn:
                return bit - p['base']
        raise KeyError(pn)

    def walk(dk, path):
        d = db[dk]
        for n in d['nets']:
            node = ('w', path, n['cable'], n['bit'])
            for ep in n['endpoints']:
                if ep[0] == 'port':
                    key = ('pin', path, ep[1], pos(d, ep[1], ep[2])) if path else ('top', ep[1], pos(d, ep[1], ep[2]))
                else:
                    inst = [i for i in d['instances'] if i['name'] == ep[1]][0]
                    key = ('pin', path + (ep[1],), ep[2], pos(db[tuple(inst['ref'])], ep[2], ep[3]))
                uf.union(node, key)
        for i in d['instances']:
            sub = path + (i['name'],)
            hier.append(sub)
            rd = db[tuple(i['ref'])]
            if is_leaf_def(rd):
                leaves[sub] = list(i['ref'])
                for p in rd['ports']:
                    for k in range(p['width']):
                        endpoints.append(('pin', sub, p['name'], k))
            else:
                walk(tuple(i['ref']), sub)
    top = db[tuple(ad['top'])]
    for p in top['ports']:
        for k in range(p['width']):
            endpoints.append(('top', p['name'], k))
    walk(tuple(ad['top']), ())
    groups = {}
    for e in endpoints:
        groups.setdefault(uf.find(e), []).append(e)
    return {'hier': sorted(hier), 'leaves': leaves, 'nets': sorted(sorted(g) for g in groups.values())}


def ad_features(ad):
    """Structural features used by the per-property non-triviality rules (computed from the AD only)."""
    db = defs_by_name(ad)
    count, depth_of = {}, {}

    def walk(dk, depth):
        d = db[dk]
        for i in d['instances']:
            rk = tuple(i['ref'])
            count[rk] = count.get(rk, 0) + 1
            depth_of.setdefault(rk, set()).add(depth + 1)
            if not is_leaf_def(db[rk]):
                walk(rk, depth + 1)
    walk(tuple(ad['top']), 0)
    shared_nonleaf = [k for k, c in count.items() if c > 1 and not is_leaf_def(db[k])]
    # static sharing: definitions with more than one instance anywhere (what uniquify looks at)
    static = {}
    for k, d in db.items():
        for i in d['instances']:
            static[tuple(i['ref'])] = static.get(tuple(i['ref']), 0) + 1
    reach = set(count)
    shared_static = [k for k in reach if static.get(k, 0) > 1 and not is_leaf_def(db[k])]
    crossing = 0      # hierarchical pins wired on both sides, somewhere under the top
    for dk in [tuple(ad['top'])] + [k for k in reach if not is_leaf_def(db[k])]:
        d = db[dk]
        for n in d['nets']:
            for ep in n['endpoints']:
                if ep[0] == 'inst':
                    inst = [i for i in d['instances'] if i['name'] == ep[1]][0]
                    rd = db[tuple(inst['ref'])]
                    if not is_leaf_def(rd) and any(['port', ep[2], ep[3]] in m['endpoints'] for m in rd['nets']):
                        crossing += 1
    passthrough = 0
    for k in reach:
        for n in db[k]['nets']:
            if sum(1 for ep in n['endpoints'] if ep[0] == 'port') >= 2:
                passthrough += 1
    maxdepth = max([max(v) for v in depth_of.values()] or [0])
    return {'shared_nonleaf_paths': len(shared_nonleaf), 'shared_nonleaf_static': len(shared_static), 'crossing': crossing,
            'passthrough_nets': passthrough, 'depth': maxdepth, 'occurrences': sum(count.values()),
            'multi_depth': sum(1 for k, v in depth_of.items() if len(v) > 1),
            'unnamed': sum(1 for d in db.values() for kind in ('ports', 'cables', 'instances') for e in d[kind] if e.get('unnamed'))}


def verilog_friendly(ad):
    """A copy of the AD in the shape Verilog can express (verilog_support.rst: every port implies a cable of the same name and
    shape wired to it bit by bit): each port gets its own cable; the net that held a port bit moves onto that cable bit; a net
    tied to a second port keeps only the first (Verilog would need an assign); other cables are renamed away from port names."""
    ad = copy.deepcopy(ad)
    for L in ad['libraries']:
        for d in L['definitions']:
            if not d['cables'] and not d['instances']:
                continue
            pnames = set(p['name'] for p in d['ports'])
            ren = {}
            for c in d['cables']:
                if c['name'] in pnames:
                    ren[c['name']] = 'w_' + c['name']
            taken = set(c['name'] for c in d['cables']) | pnames
            for old_name, new_name in list(ren.items()):
                while new_name in taken:
                    new_name += '_'
                taken.add(new_name)
                ren[old_name] = new_name
            for c in d['cables']:
                c['name'] = ren.get(c['name'], c['name'])
                c.pop('array', None)
                if c['width'] == 1:
                    c['base'] = 0
            for n in d['nets']:
                n['cable'] = ren.get(n['cable'], n['cable'])
            newnets = []
            owned = {}
            for n in d['nets']:
                ports_here = [ep for ep in n['endpoints'] if ep[0] == 'port']
                if not ports_here:
                    newnets.append(n)
                    continue
                first = ports_here[0]
                eps = [ep for ep in n['endpoints'] if ep[0] != 'port' or ep is first]
                owned[(first[1], first[2])] = eps
            for p in d['ports']:
                p.pop('array', None)
                if p['width'] == 1:
                    p['base'] = 0
            pc = []
            for p in d['ports']:
                pc.append({'name': p['name'], 'width': p['width'], 'base': p['base']})
                for k in range(p['width']):
                    b = p['base'] + k
                    eps = owned.get((p['name'], b)) or [['port', p['name'], b]]
                    if ['port', p['name'], b] not in eps:
                        eps = [['port', p['name'], b]] + eps
                    newnets.append({'cable': p['name'], 'bit': b, 'endpoints': eps})
            d['cables'] = pc + d['cables']
            order = {c['name']: i for i, c in enumerate(d['cables'])}
            d['nets'] = sorted(newnets, key=lambda n: (order[n['cable']], n['bit']))
    # scalar ports had base 0 enforced above; endpoints of width-1 ports elsewhere must follow
    db = defs_by_name(ad)
    for L in ad['libraries']:
        for d in L['definitions']:
            insts = {i['name']: i for i in d['instances']}
            for n in d['nets']:
                for ep in n['endpoints']:
                    if ep[0] == 'inst':
                        rp = [p for p in db[tuple(insts[ep[1]]['ref'])]['ports'] if p['name'] == ep[2]][0]
                        if rp['width'] == 1:
                            ep[3] = 0
                    else:
                        rp = [p for p in d['ports'] if p['name'] == ep[1]][0]
                        if rp['width'] == 1:
                            ep[2] = 0
    ad.setdefault('meta', {})['verilog_friendly'] = True
    return ad


# ------------------------------------------------------------------------------------------------ builder (public API only)
def build_api(ad, with_index=False):
    """Build the design through spydrnet's public API. with_index also returns {handle tuple: object}."""
    import spydrnet as sdn
    DIR = {'IN': sdn.IN, 'OUT': sdn.OUT, 'INOUT': sdn.INOUT, 'UNDEFINED': sdn.UNDEFINED}
    ix = {}

    def nm(e):
        return None if e.get('unnamed') else e['name']

    def put(obj, e):
        for k, v in (e.get('data') or {}).items():
            obj[k] = copy.deepcopy(v)

    n = sdn.Netlist(name=nm(ad))
    put(n, ad)
    for L in ad['libraries']:
        lib = n.create_library(name=nm(L))
        put(lib, L)
        ix[('lib', L['name'])] = lib
        for d in L['definitions']:
            dd = lib.create_definition(name=nm(d))
            put(dd, d)
            ix[('def', L['name'], d['name'])] = dd
            for p in d['ports']:
                pp = dd.create_port(name=nm(p), direction=DIR[p['direction']], pins=p['width'], lower_index=p['base'],
                                    is_downto=p['downto'])
                if p.get('array'):
                    pp.is_scalar = False
                put(pp, p)
                ix[('port', L['name'], d['name'], p['name'])] = pp
            for c in d['cables']:
                cc = dd.create_cable(name=nm(c), wires=c['width'], lower_index=c['base'])
                if 'downto' in c:
                    cc.is_downto = c['downto']
                if c.get('array'):
                    cc.is_scalar = False
                put(cc, c)
                ix[('cable', L['name'], d['name'], c['name'])] = cc
    for L in ad['libraries']:
        for d in L['definitions']:
            dd = ix[('def', L['name'], d['name'])]
            for i in d['instances']:
                ii = dd.create_child(name=nm(i), reference=ix[('def', i['ref'][0], i['ref'][1])])
                for k, v in (i.get('properties') or {}).items():
                    ii[k] = copy.deepcopy(v)
                put(ii, i)
                ix[('inst', L['name'], d['name'], i['name'])] = ii
    for L in ad['libraries']:
        for d in L['definitions']:
            insts = {i['name']: i for i in d['instances']}
            for net in d['nets']:
                c = ix[('cable', L['name'], d['name'], net['cable'])]
                w = c.wires[net['bit'] - c.lower_index]
                for ep in net['endpoints']:
                    if ep[0] == 'port':
                        p = ix[('port', L['name'], d['name'], ep[1])]
                        pin = p.pins[ep[2] - p.lower_index]
                    else:
                        ii = ix[('inst', L['name'], d['name'], ep[1])]
                        rp = ix[('port',) + tuple(insts[ep[1]]['ref']) + (ep[2],)]
                        pin = ii.pins[rp.pins[ep[3] - rp.lower_index]]
                    w.connect_pin(pin)
    if ad.get('top_child'):
        top = ix[('inst',) + tuple(ad['top_child'])]
    else:
        top = sdn.Instance(name=ad.get('top_instance_name'))
        top.reference = ix[('def',) + tuple(ad['top'])]
    n.top_instance = top
    ix[('top',)] = top
    return (n, ix) if with_index else n


# ------------------------------------------------------------------------------------------------ hand-written corners
def _port(name, direction='IN', width=1, base=0, downto=True, **kw):
    return dict({'name': name, 'direction': direction, 'width': width, 'base': base, 'downto': downto}, **kw)


def _leaf(name, *ports):
    return {'name': name, 'ports': list(ports), 'cables': [], 'instances': [], 'nets': []}


def _cab(name, width=1, base=0, **kw):
    return dict({'name': name, 'width': width, 'base': base}, **kw)


def _inst(name, lib, d, **props):
    return {'name': name, 'ref': [lib, d], 'properties': dict(props)}


def _net(cable, bit, *eps):
    return {'cable': cable, 'bit': bit, 'endpoints': [list(e) for e in eps]}


def _ad(name, prims, work, top, extra_libs=(), **kw):
    return dict({'name': name, 'libraries': [{'name': 'prims', 'definitions': prims}] + list(extra_libs) +
                 [{'name': 'work', 'definitions': work}], 'top': ['work', top], 'top_instance_name': 'top_inst',
                 'meta': {'corner': name, 'lib_dag': True}}, **kw)


def corner_designs():
    BUF = _leaf('BUF', _port('a', 'IN'), _port('y', 'OUT'))
    AND2 = _leaf('AND2', _port('a', 'IN'), _port('b', 'IN'), _port('y', 'OUT'))
    REG4 = _leaf('REG4', _port('d', 'IN', 4, 0), _port('q', 'OUT', 4, 2, False), _port('clk', 'IN'))
    out = []
    # 1. deep pass-through chain: driver -> W3 -> W2 -> W1 -> PT (port tied to port) and back up to a sink
    PT = {'name': 'PT', 'ports': [_port('i', 'IN'), _port('o', 'OUT')], 'cables': [_cab('thru')], 'instances': [],
          'nets': [_net('thru', 0, ('port', 'i', 0), ('port', 'o', 0))]}

    def wrap(name, inner):
        return {'name': name, 'ports': [_port('i', 'IN'), _port('o', 'OUT')], 'cables': [_cab('ci'), _cab('co')],
                'instances': [_inst('x', 'work', inner)],
                'nets': [_net('ci', 0, ('port', 'i', 0), ('inst', 'x', 'i', 0)), _net('co', 0, ('inst', 'x', 'o', 0), ('port', 'o', 0))]}
    T = {'name': 'chain_top', 'ports': [_port('pin', 'IN'), _port('pout', 'OUT')], 'cables': [_cab('a'), _cab('b'), _cab('c')],
         'instances': [_inst('drv', 'prims', 'BUF'), _inst('w', 'work', 'W3'), _inst('snk', 'prims', 'BUF')],
         'nets': [_net('a', 0, ('port', 'pin', 0), ('inst', 'drv', 'a', 0)),
                  _net('b', 0, ('inst', 'drv', 'y', 0), ('inst', 'w', 'i', 0)),
                  _net('c', 0, ('inst', 'w', 'o', 0), ('inst', 'snk', 'a', 0), ('port', 'pout', 0))]}
    out.append(_ad('passthrough_chain', [BUF], [PT, wrap('W1', 'PT'), wrap('W2', 'W1'), wrap('W3', 'W2'), T], 'chain_top'))
    # 2. a net crossing three levels down to leaf pins, bus with offsets, partial connection
    L1 = {'name': 'L1', 'ports': [_port('p', 'IN', 3, 1, True), _port('z', 'OUT')], 'cables': [_cab('pb', 3, 2), _cab('zz')],
          'instances': [_inst('g0', 'prims', 'AND2'), _inst('g1', 'prims', 'AND2')],
          'nets': [_net('pb', 2, ('port', 'p', 1), ('inst', 'g0', 'a', 0)), _net('pb', 3, ('port', 'p', 2), ('inst', 'g0', 'b', 0), ('inst', 'g1', 'a', 0)),
                   _net('pb', 4, ('port', 'p', 3)), _net('zz', 0, ('inst', 'g0', 'y', 0), ('port', 'z', 0))]}
    L2 = {'name': 'L2', 'ports': [_port('p', 'IN', 3, 0, False), _port('z', 'OUT')], 'cables': [_cab('q', 3, 0), _cab('zo')],
          'instances': [_inst('l1', 'work', 'L1')],
          'nets': [_net('q', 0, ('port', 'p', 0), ('inst', 'l1', 'p', 1)), _net('q', 1, ('port', 'p', 1), ('inst', 'l1', 'p', 2)),
                   _net('q', 2, ('port', 'p', 2), ('inst', 'l1', 'p', 3)), _net('zo', 0, ('inst', 'l1', 'z', 0), ('port', 'z', 0))]}
    L3 = {'name': 'L3', 'ports': [_port('p', 'IN', 3, 3, True), _port('z', 'OUT')], 'cables': [_cab('r', 4, 1), _cab('zo')],
          'instances': [_inst('l2', 'work', 'L2')],
          'nets': [_net('r', 1, ('port', 'p', 3), ('inst', 'l2', 'p', 0)), _net('r', 2, ('port', 'p', 4), ('inst', 'l2', 'p', 1)),
                   _net('r', 4, ('port', 'p', 5), ('inst', 'l2', 'p', 2)), _net('zo', 0, ('inst', 'l2', 'z', 0), ('port', 'z', 0))]}
    T = {'name': 'deep_top', 'ports': [_port('bus', 'IN', 3, 0), _port('res', 'OUT')], 'cables': [_cab('tb', 3, 0), _cab('tr')],
         'instances': [_inst('l3', 'work', 'L3'), _inst('probe', 'prims', 'BUF')],
         'nets': [_net('tb', 0, ('port', 'bus', 0), ('inst', 'l3', 'p', 3)), _net('tb', 1, ('port', 'bus', 1), ('inst', 'l3', 'p', 4), ('inst', 'probe', 'a', 0)),
                  _net('tb', 2, ('inst', 'l3', 'p', 5)), _net('tr', 0, ('inst', 'l3', 'z', 0), ('port', 'res', 0))]}
    out.append(_ad('three_level_net', [BUF, AND2], [L1, L2, L3, T], 'deep_top'))
    # 3. ports unconnected inside / outside / both; an inner net tied to two ports plus a leaf
    M = {'name': 'M', 'ports': [_port('in_only', 'IN'), _port('out_only', 'OUT'), _port('both', 'INOUT'), _port('none', 'IN'),
                                _port('t1', 'IN'), _port('t2', 'OUT')],
         'cables': [_cab('k'), _cab('tie'), _cab('float', 2, 1)], 'instances': [_inst('b', 'prims', 'BUF')],
         'nets': [_net('k', 0, ('port', 'in_only', 0), ('port', 'both', 0), ('inst', 'b', 'a', 0)),
                  _net('tie', 0, ('port', 't1', 0), ('port', 't2', 0), ('inst', 'b', 'y', 0))]}
    T = {'name': 'unc_top', 'ports': [_port('x', 'IN'), _port('y', 'OUT'), _port('dangling', 'INOUT', 2, 0)],
         'cables': [_cab('n0'), _cab('n1'), _cab('n2'), _cab('n3')], 'instances': [_inst('m0', 'work', 'M'), _inst('m1', 'work', 'M')],
         'nets': [_net('n0', 0, ('port', 'x', 0), ('inst', 'm0', 'out_only', 0), ('inst', 'm0', 'both', 0)),
                  _net('n1', 0, ('inst', 'm0', 't2', 0), ('inst', 'm1', 't1', 0)),
                  _net('n2', 0, ('inst', 'm1', 't2', 0), ('port', 'y', 0), ('inst', 'm1', 'none', 0)),
                  _net('n3', 0, ('inst', 'm1', 'in_only', 0))]}
    out.append(_ad('unconnected_sides', [BUF], [M, T], 'unc_top'))
    # 4. the same definition reached by several paths (diamond), at several depths, across libraries, also from outside
    C = {'name': 'C', 'ports': [_port('i', 'IN'), _port('o', 'OUT', 2, 0)], 'cables': [_cab('ci'), _cab('co', 2, 0)],
         'instances': [_inst('b0', 'prims', 'BUF'), _inst('b1', 'prims', 'BUF')],
         'nets': [_net('ci', 0, ('port', 'i', 0), ('inst', 'b0', 'a', 0), ('inst', 'b1', 'a', 0)),
                  _net('co', 0, ('inst', 'b0', 'y', 0), ('port', 'o', 0)), _net('co', 1, ('inst', 'b1', 'y', 0), ('port', 'o', 1))]}

    def mid(name, lib):
        return {'name': name, 'ports': [_port('i', 'IN'), _port('o', 'OUT', 2, 0)], 'cables': [_cab('x'), _cab('y', 2, 0)],
                'instances': [_inst('c', 'lib_b', 'C'), _inst('c2', 'lib_b', 'C')],
                'nets': [_net('x', 0, ('port', 'i', 0), ('inst', 'c', 'i', 0), ('inst', 'c2', 'i', 0)),
                         _net('y', 0, ('inst', 'c', 'o', 0), ('port', 'o', 0)), _net('y', 1, ('inst', 'c2', 'o', 1), ('port', 'o', 1))]}
    T = {'name': 'dia_top', 'ports': [_port('i', 'IN'), _port('o', 'OUT', 4, 0)], 'cables': [_cab('ti'), _cab('to', 4, 0)],
         'instances': [_inst('a', 'work', 'A'), _inst('b', 'work', 'B'), _inst('c', 'lib_b', 'C'), _inst('a2', 'work', 'A')],
         'nets': [_net('ti', 0, ('port', 'i', 0), ('inst', 'a', 'i', 0), ('inst', 'b', 'i', 0), ('inst', 'c', 'i', 0)),
                  _net('to', 0, ('inst', 'a', 'o', 0), ('port', 'o', 0)), _net('to', 1, ('inst', 'b', 'o', 1), ('port', 'o', 1)),
                  _net('to', 2, ('inst', 'c', 'o', 0), ('port', 'o', 2), ('inst', 'a2', 'i', 0)), _net('to', 3, ('inst', 'a2', 'o', 0), ('port', 'o', 3))]}
    ORPH = {'name': 'orphan', 'ports': [], 'cables': [_cab('z')], 'instances': [_inst('oa', 'work', 'A'), _inst('oc', 'lib_b', 'C')],
            'nets': [_net('z', 0, ('inst', 'oa', 'i', 0), ('inst', 'oc', 'i', 0))]}
    out.append(_ad('diamond', [BUF], [mid('A', 'work'), mid('B', 'work'), T, ORPH], 'dia_top',
                   extra_libs=[{'name': 'lib_b', 'definitions': [C]}]))
    # 5. wire-only cell, cell with unused ports, bus leaf with downto/to mix
    WO = {'name': 'WO', 'ports': [_port('p', 'IN', 2, 0)], 'cables': [_cab('lonely', 2, 3), _cab('s')], 'instances': [], 'nets': []}
    T = {'name': 'wo_top', 'ports': [_port('d', 'IN', 4, 0), _port('q', 'OUT', 4, 2, False), _port('clk', 'IN')],
         'cables': [_cab('db', 4, 0), _cab('qb', 4, 2), _cab('ck'), _cab('sp', 2, 0)],
         'instances': [_inst('r', 'prims', 'REG4', **{'EDIF.properties': [{'identifier': 'INIT', 'value': "4'h0"}]}), _inst('w', 'work', 'WO'), _inst('w2', 'work', 'WO')],
         'nets': [_net('db', k, ('port', 'd', k), ('inst', 'r', 'd', k)) for k in range(4)] +
                 [_net('qb', 2 + k, ('inst', 'r', 'q', 2 + k), ('port', 'q', 2 + k)) for k in range(4)] +
                 [_net('ck', 0, ('port', 'clk', 0), ('inst', 'r', 'clk', 0)), _net('sp', 0, ('inst', 'w', 'p', 0), ('inst', 'w2', 'p', 1))]}
    out.append(_ad('wire_only', [REG4], [WO, T], 'wo_top'))
    # 6. a definition name that already carries the documented uniquify suffix next to a shared definition
    S = {'name': 'S', 'ports': [_port('i', 'IN')], 'cables': [_cab('n')], 'instances': [_inst('b', 'prims', 'BUF')],
         'nets': [_net('n', 0, ('port', 'i', 0), ('inst', 'b', 'a', 0))]}
    S0 = dict(copy.deepcopy(S), name='S_sdn_unique_0')
    T = {'name': 'sfx_top', 'ports': [_port('i', 'IN')], 'cables': [_cab('n')],
         'instances': [_inst('s0', 'work', 'S'), _inst('s1', 'work', 'S'), _inst('old', 'work', 'S_sdn_unique_0')],
         'nets': [_net('n', 0, ('port', 'i', 0), ('inst', 's0', 'i', 0), ('inst', 's1', 'i', 0), ('inst', 'old', 'i', 0))]}
    out.append(_ad('suffix_taken', [BUF], [S, S0, T], 'sfx_top'))
    # 7. top instance that is also a child of a test bench (C07: "top instance standalone or also a child")
    DUT = copy.deepcopy(C); DUT['name'] = 'DUT'
    TB = {'name': 'tb', 'ports': [], 'cables': [_cab('s'), _cab('r', 2, 0)], 'instances': [_inst('dut', 'work', 'DUT'), _inst('mon', 'prims', 'BUF')],
          'nets': [_net('s', 0, ('inst', 'dut', 'i', 0)), _net('r', 0, ('inst', 'dut', 'o', 0), ('inst', 'mon', 'a', 0))]}
    out.append(_ad('top_is_child', [BUF], [DUT, TB], 'DUT', top_child=['work', 'tb', 'dut']))
    # 8. minimal ones
    E = {'name': 'empty_top', 'ports': [], 'cables': [], 'instances': [], 'nets': []}
    out.append(_ad('empty_top', [BUF], [E], 'empty_top'))
    T = {'name': 'leaf_only', 'ports': [_port('p', 'INOUT', 2, 1)], 'cables': [_cab('c', 2, 1)], 'instances': [_inst('only', 'prims', 'BUF')],
         'nets': [_net('c', 1, ('port', 'p', 1), ('inst', 'only', 'a', 0)), _net('c', 2, ('port', 'p', 2), ('inst', 'only', 'y', 0))]}
    out.append(_ad('flat_already', [BUF], [T], 'leaf_only'))
    for ad in out:
        assert not validate_ad(ad), (ad['name'], validate_ad(ad))
    return out


# ------------------------------------------------------------------------------------------------ exhaustive micro-scope
MICRO_SCOPE = ('one mid-level definition M with ports in {(), (1), (2), (1,1)} (widths), 0-2 instances of a 2-pin leaf, cables in '
               '{(1), (2), (1,1)}: every map pin bit -> wire-or-unconnected; under two fixed tops (A: one instance of M, each pin bit on '
               'its own top net with a top port bit; B: two instances of M, first-port bits shared pairwise, the rest of instance 1 tied '
               'to top port bits, the rest of instance 2 unconnected)')


def micro_count():
    n = 0
    for pw in ((), (1,), (2,), (1, 1)):
        for k in (0, 1, 2):
            bits = sum(pw) + 2 * k
            for cw in ((1,), (2,), (1, 1)):
                n += (sum(cw) + 1) ** bits
    return 2 * n


def micro_designs(start=0, step=1):
    """The micro-scope, enumerated in a fixed order; (start, step) selects every step-th design for one worker."""
    idx = -1
    LEAF = _leaf('L', _port('a', 'IN'), _port('y', 'OUT'))
    for pw in ((), (1,), (2,), (1, 1)):
        ports = [_port('p%d' % j, ('IN', 'OUT')[j % 2], w, 0) for j, w in enumerate(pw)]
        for k in (0, 1, 2):
            insts = [_inst('u%d' % j, 'prims', 'L') for j in range(k)]
            pins = [('port', p['name'], b) for p in ports for b in range(p['width'])]
            for i in insts:
                pins += [('inst', i['name'], 'a', 0), ('inst', i['name'], 'y', 0)]
            for cw in ((1,), (2,), (1, 1)):
                cables = [_cab('c%d' % j, w, 0) for j, w in enumerate(cw)]
                wires = [(c['name'], b) for c in cables for b in range(c['width'])]
                for assign in itertools.product(range(len(wires) + 1), repeat=len(pins)):
                    for topkind in ('A', 'B'):
                        idx += 1
                        if idx % step != start:
                            continue
                        nets = []
                        for wi, w in enumerate(wires):
                            eps = [pins[j] for j, a in enumerate(assign) if a == wi + 1]
                            if eps:
                                nets.append(_net(w[0], w[1], *eps))
                        M = {'name': 'M', 'ports': copy.deepcopy(ports), 'cables': copy.deepcopy(cables),
                             'instances': copy.deepcopy(insts), 'nets': nets}
                        mbits = [(p['name'], b) for p in ports for b in range(p['width'])]
                        if topkind == 'A':
                            T = {'name': 'T', 'ports': [_port('t', 'INOUT', len(mbits), 0)] if mbits else [],
                                 'cables': [_cab('tn', len(mbits), 0)] if mbits else [], 'instances': [_inst('m', 'work', 'M')],
                                 'nets': [_net('tn', j, ('port', 't', j), ('inst', 'm', pn, b)) for j, (pn, b) in enumerate(mbits)]}
                        else:
                            first = [x for x in mbits if x[0] == 'p0']
                            rest = [x for x in mbits if x[0] != 'p0']
                            tn = []
                            for j, (pn, b) in enumerate(first):
                                tn.append(_net('sh', j, ('inst', 'm0', pn, b), ('inst', 'm1', pn, b)))
                            for j, (pn, b) in enumerate(rest):
                                tn.append(_net('tn', j, ('inst', 'm0', pn, b), ('port', 't', j)))
                            T = {'name': 'T', 'ports': [_port('t', 'INOUT', len(rest), 0)] if rest else [],
                                 'cables': ([_cab('sh', len(first), 0)] if first else []) + ([_cab('tn', len(rest), 0)] if rest else []),
                                 'instances': [_inst('m0', 'work', 'M'), _inst('m1', 'work', 'M')], 'nets': tn}
                        yield {'name': 'micro', 'libraries': [{'name': 'prims', 'definitions': [LEAF]}, {'name': 'work', 'definitions': [M, T]}],
                               'top': ['work', 'T'], 'top_instance_name': 'top', 'meta': {'micro': idx, 'lib_dag': True}}


if __name__ == '__main__':
    import sys
    n = int(sys.argv[1]) if len(sys.argv) > 1 else 200
    bad = 0
    feats = {}
    for prof in PROFILES:
        for s in range(n):
            ad = gen_design(s, prof)
            e = validate_ad(ad)
            if e:
                bad += 1; print(prof, s, e[:3])
            assert ad_hash(ad) == ad_hash(gen_design(s, prof))
            f = ad_features(ad)
            for k, v in f.items():
                feats.setdefault((prof, k), []).append(v)
    for k in sorted(feats):
        v = feats[k]
        print(k, 'nonzero %d/%d max %d' % (sum(1 for x in v if x), len(v), max(v)))
    print('corners', len(corner_designs()), 'micro', micro_count(), 'bad', bad)
