"""Native evaluators over real spydrnet objects (run under /venv/bin/python with PYTHONPATH=<repo>).

Inv (I1-I4) is the same predicate the SMT proofs are about (DESIGN.md 5.1), evaluated over an explicit
universe of objects (everything ever created in a history, removed elements included).
Only private slots are read for the snapshot; Inv is evaluated through the public read API as well as
through the slots (both must agree, which cross-checks the 'views are aliases' assumption).
"""
import spydrnet as sdn
from spydrnet.ir import OuterPin, InnerPin

REL = [  # container class, list attr, element class, parent attr
    ('Netlist', 'libraries', 'Library', 'netlist'),
    ('Library', 'definitions', 'Definition', 'library'),
    ('Definition', 'ports', 'Port', 'definition'),
    ('Definition', 'cables', 'Cable', 'definition'),
    ('Definition', 'children', 'Instance', 'parent'),
    ('Port', 'pins', 'InnerPin', 'port'),
    ('Cable', 'wires', 'Wire', 'cable'),
]
CLS = {'Netlist': sdn.Netlist, 'Library': sdn.Library, 'Definition': sdn.Definition, 'Port': sdn.Port,
       'Cable': sdn.Cable, 'Instance': sdn.Instance, 'Wire': sdn.Wire, 'InnerPin': InnerPin, 'OuterPin': OuterPin}


def kind(o):
    for k, c in CLS.items():
        if isinstance(o, c):
            return k
    return type(o).__name__


def cnt(lst, x):
    return sum(1 for y in lst if y is x)


def closure(objs):
    """Everything reachable from objs through public read attributes (plus stored outer pins)."""
    seen = {}
    stack = list(objs)
    while stack:
        o = stack.pop()
        if o is None or id(o) in seen:
            continue
        k = kind(o)
        if k not in CLS:
            continue
        seen[id(o)] = o
        nxt = []
        if k == 'Netlist':
            nxt += list(o.libraries) + [o.top_instance]
        elif k == 'Library':
            nxt += list(o.definitions) + [o.netlist]
        elif k == 'Definition':
            nxt += list(o.ports) + list(o.cables) + list(o.children) + list(o.references) + [o.library]
        elif k == 'Port':
            nxt += list(o.pins) + [o.definition]
        elif k == 'Cable':
            nxt += list(o.wires) + [o.definition]
        elif k == 'Instance':
            nxt += [o.parent, o.reference] + list(o._pins.keys()) + list(o._pins.values())
        elif k == 'Wire':
            nxt += list(o.pins) + [o.cable]
        elif k == 'InnerPin':
            nxt += [o.port, o.wire]
        elif k == 'OuterPin':
            nxt += [o.instance, o.inner_pin, o.wire]
        stack += nxt
    return list(seen.values())


def check_inv(objs, clauses=('I1', 'I2', 'I3', 'I4')):
    """Returns a list of (clause, detail) violations of Inv over the universe objs (closed first)."""
    objs = closure(objs)
    by = {k: [o for o in objs if kind(o) == k] for k in CLS}
    errs = []
    if 'I1' in clauses:
        for ccls, lf, ecls, pf in REL:
            for c in by[ccls]:
                lst = list(getattr(c, lf))
                for e in lst:
                    if kind(e) != ecls:
                        errs.append(('I1.foreign', '%s.%s lists a %s' % (ccls, lf, kind(e))))
                for e in by[ecls]:
                    want = 1 if getattr(e, pf) is c else 0
                    have = cnt(lst, e)
                    if have != want:
                        errs.append(('I1.%s' % lf, '%s.%s lists element %d time(s), element.%s %s the container'
                                     % (ccls, lf, have, pf, 'is' if want else 'is not')))
    stored = []
    for i in by['Instance']:
        for q, o in i._pins.items():
            stored.append(o)
    stored_ids = set(id(o) for o in stored)
    if 'I3' in clauses:
        for i in by['Instance']:
            for q, o in i._pins.items():
                if not (isinstance(o, OuterPin) and o._instance is i and o._inner_pin is q):
                    errs.append(('I3.values', 'outer pin stored under a key does not name (instance, key)'))
            d = i.reference
            if d is None:
                if len(i._pins):
                    errs.append(('I3.noref-keys', 'instance without reference carries %d outer pins' % len(i._pins)))
            else:
                if kind(d) != 'Definition':
                    errs.append(('I3.reftype', 'reference is a %s' % kind(d)))
                    continue
                want = set(id(q) for p in d.ports for q in p.pins)
                have = set(id(q) for q in i._pins)
                if want != have:
                    errs.append(('I3.keys', 'instance has %d outer pins, its definition has %d inner pins (missing %d, stale %d)'
                                 % (len(have), len(want), len(want - have), len(have - want))))
            for dd in by['Definition']:
                if (any(i is r for r in dd._references)) != (i.reference is dd):
                    errs.append(('I3.refsets', 'reference set membership disagrees with instance.reference'))
    if 'I2' in clauses:
        real = by['InnerPin'] + stored
        real_ids = set(id(p) for p in real)
        for w in by['Wire']:
            lst = list(w.pins)
            for p in lst:
                if cnt(lst, p) != 1:
                    errs.append(('I2.dup', 'wire lists a pin %d times' % cnt(lst, p)))
                if getattr(p, 'wire', None) is not w:
                    errs.append(('I2.listed-wire', 'wire lists a pin that reports another wire / none'))
                if id(p) not in real_ids:
                    errs.append(('I2.listed-notreal', 'wire lists a %s that is neither an inner pin nor a stored outer pin' % kind(p)))
        for p in real:
            w = p.wire
            if w is not None:
                if kind(w) != 'Wire':
                    errs.append(('I2.wiretype', 'pin.wire is a %s' % kind(w)))
                elif cnt(list(w.pins), p) != 1:
                    errs.append(('I2.reports', 'pin reports a wire that lists it %d times' % cnt(list(w.pins), p)))
    if 'I4' in clauses:
        for o in by['OuterPin']:
            if o._instance is None and o._wire is not None and id(o) not in stored_ids:
                errs.append(('I4', 'detached outer pin still reports a wire'))
    return errs


STRUCT_LISTS = ('_libraries', '_definitions', '_ports', '_cables', '_children', '_wires')
STRUCT_REFS = ('_netlist', '_library', '_definition', '_parent', '_port', '_cable', '_wire', '_reference', '_instance',
               '_inner_pin', '_top_instance')
SCALARS = ('_is_downto', '_is_scalar', '_lower_index', '_direction', '_is_top_instance')


def ns_tables(index=None):
    """Content of the stock NamespaceManager's tables for the parents listed in index (id -> universe index):
    {parent index: (policy class, {table: {class: {key: element index}}})}"""
    from spydrnet.plugins import namespace_manager as nm
    out = {}
    for parent, ns in list(nm.namespaces.items()):
        if index is not None and id(parent) not in index:
            continue
        row = {}
        for attr in ('namespaces', 'edif_namespaces'):
            t = getattr(ns, attr, None)
            if t is not None:
                row[attr] = {c.__name__: {k: (index or {}).get(id(v), '?') for k, v in d.items()} for c, d in t.items() if d}
        out[(index or {}).get(id(parent), id(parent))] = (type(ns).__name__, row)
    return out


def snapshot(objs, index=None):
    """Field-level snapshot of every object (ids replaced by universe indices when index is given)."""
    ix = index or {}
    def r(x):
        return ix.get(id(x), ('?', kind(x))) if x is not None else None
    out = []
    for o in objs:
        row = [kind(o)]
        for f in STRUCT_LISTS:
            v = getattr(o, f, None)
            if isinstance(v, list):
                row.append((f, tuple(r(x) for x in v)))
        v = getattr(o, '_pins', None)
        if isinstance(v, list):
            row.append(('_pins', tuple(r(x) for x in v)))
        elif v is not None:
            row.append(('_pins', tuple((r(k), r(x)) for k, x in v.items())))
        for f in STRUCT_REFS:
            if hasattr(o, f):
                row.append((f, r(getattr(o, f))))
        for f in SCALARS:
            if hasattr(o, f):
                row.append((f, repr(getattr(o, f))))
        if hasattr(o, '_references'):
            row.append(('_references', tuple(sorted(repr(r(x)) for x in o._references))))
        if hasattr(o, '_data'):
            row.append(('_data', tuple(sorted((str(k), repr(v)) for k, v in o._data.items()))))
        out.append(tuple(row))
    return out


def diff_snap(a, b):
    out = []
    for i, (x, y) in enumerate(zip(a, b)):
        if x != y:
            dx = dict(x[1:]); dy = dict(y[1:])
            for k in dx:
                if dx[k] != dy.get(k):
                    out.append((i, x[0], k, repr(dx[k])[:80], repr(dy.get(k))[:80]))
    return out
