"""Bounded stand-in for C11: get_hinstances / get_hports / get_hpins / get_hcables / get_hwires and HRef on generated
designs versus the independent occurrence enumeration oracles.Occ.

  C11.raises        a query raised                                                              site: query(root) : exception @ function
  C11.enum          "within" queries from a netlist / hierarchical-instance root, recursive on/off   site: query(rootkind,recursive=..)
  C11.occurrences   occurrences of a given element (same kind)                                   site: query(element kind)
  C11.assoc         containment queries across kinds (items inside all occurrences of a definition/instance/library; bundle<->member;
                    enclosing instance)                                                          site: query(rootkind[,recursive])
  C11.roots         a single root of any kind (pool of <= ~45 roots per design), every query the property gives a meaning to, recursive
                    on AND off (occurrence / containment / enclosing-instance answers do not depend on the flag)   site: query(rootkind,recursive=..)
  C11.mixed         a COLLECTION of 2-4 roots of mixed kinds (netlist / hierarchical instance together with library / definition /
                    instance / element / hierarchical element roots, overlapping and disjoint, a root possibly listed twice):
                    the answer is the union of the answers for the single roots, each occurrence once
                                                                                                 site: query([root classes],recursive=..)
  C11.dup           a result lists the same path twice                                           site: as above
  C11.valid         a returned reference reports is_valid False                                  site: item kind
  C11.name          HRef.name != slash-joined instance names below the top + item name + [index] site: item kind
  C11.canonical     two references to one path are different objects / unequal / unequal hash    site: how obtained
  C11.is_valid      is_valid after an edit disagrees with the current netlist                    site: item kind : expected value
  C11.is_unique     is_unique disagrees with "valid and the only occurrence of its item"         site: item kind : expected value
  C11.enum-after-edit  the queries asked again in the state an edit leaves behind (netlist / library / definition / instance / port /
                    cable / pin / wire roots, hierarchical-instance roots built BEFORE the edit; degenerate roots are labelled:
                    instance-without-reference, cable-without-wires, port-without-pins, href-instance-stale) versus the occurrence
                    enumeration of the current netlist              site: query(rootkind):top-valid|top-invalid|top-none

Edits (EDIT_SEQS) are short sequences; the references built before the first step AND references built from the oracle's paths
after every step are re-examined after every step.  Besides edits below the top (remove child / cable / wire / port / pin,
dereference, add instance, move child) the alphabet has the edits ABOVE the root of a path and their undo: the library or the
definition that holds the design leaves the netlist (single and bulk removal) and comes back (same place / another library / another
netlist), the top instance loses / regains / changes its reference, the top instance is replaced through the property setter and
through set_top_instance (fresh instance, child instance, definition) and put back.

Validity oracle (path_status): a path is in the current netlist iff its root IS the top instance of a netlist whose libraries
contain (found by walking netlist -> libraries -> definitions, never upwards) the definition the root references, and every
further element is contained in the definition referenced by the instance before it.  Paths that run through an instance whose
definition is outside that netlist (cross-netlist reference below the top) are not judged (stat 'ambiguous_paths').
"""
import random
import spydrnet as sdn
from spydrnet.util.hierarchical_reference import HRef
from spydrnet.ir import Instance, Port, Cable, Wire, InnerPin, OuterPin
import designs, oracles, irlib, bcommon
from oracles import _ids as ids

Q = {'hinstances': sdn.get_hinstances, 'hports': sdn.get_hports, 'hpins': sdn.get_hpins, 'hcables': sdn.get_hcables, 'hwires': sdn.get_hwires}
ITEMS = {'hports': 'ports', 'hpins': 'pins', 'hcables': 'cables', 'hwires': 'wires'}


def show(seq):
    return '/'.join((x.name if getattr(x, 'name', None) is not None else type(x).__name__[0].lower() + '?') if not isinstance(x, (Wire, InnerPin)) else
                    ('[%s]' % (oracles.pos_of(list(x.cable.wires), x) if isinstance(x, Wire) and x.cable is not None else
                               oracles.pos_of(list(x.port.pins), x) if isinstance(x, InnerPin) and x.port is not None else '?')) for x in seq)


def ask(f, check, site, fn, expected):
    res = f.guarded('C11.raises', site, lambda: list(fn()))
    if res is None:
        return None
    got = [oracles.href_seq(h) for h in res]
    gi = [ids(s) for s in got]
    ei = {ids(s): s for s in expected}
    f.check(len(gi) == len(set(gi)), 'C11.dup', site, '%d results, %d distinct paths' % (len(gi), len(set(gi))))
    missing = [show(s) for k, s in ei.items() if k not in set(gi)]
    extra = [show(s) for k, s in zip(gi, got) if k not in ei]
    f.check(not missing and not extra, check, site, 'expected %d occurrences, got %d; missing %r extra %r' % (len(ei), len(set(gi)), missing[:3], extra[:3]))
    return res


def expected_within(occ, path, q, recursive):
    """items of kind q inside occurrence path (and, when recursive, inside everything below it)."""
    if q == 'hinstances':
        return occ.below(path, recursive)
    out = list(occ.items_in(path, ITEMS[q]))
    if recursive:
        for p in occ.below(path, True):
            out += occ.items_in(p, ITEMS[q])
    return out


def kind_of_seq(s):
    x = s[-1]
    return 'instance' if isinstance(x, Instance) else 'port' if isinstance(x, Port) else 'cable' if isinstance(x, Cable) else \
        'wire' if isinstance(x, Wire) else 'pin'


def all_paths(occ):
    return {'instance': occ.inst, 'port': occ.ports, 'pin': occ.pins, 'cable': occ.cables, 'wire': occ.wires}


ROOT_CLASS = {'netlist': 'within', 'href-instance': 'within', 'library': 'container', 'definition': 'container', 'instance': 'container',
              'port': 'element', 'inner-pin': 'element', 'outer-pin': 'element', 'cable': 'element', 'wire': 'element',
              'href-port': 'href-element', 'href-pin': 'href-element', 'href-cable': 'href-element', 'href-wire': 'href-element'}


def single_expected(occ, kind, x, q, rec):
    """The occurrences query q answers for ONE root of the given kind (x: the element, or the path for hierarchical roots).
    None where the property text gives the combination no meaning (those are cross-hierarchy tracing, C12)."""
    if kind == 'netlist':
        return expected_within(occ, (occ.top,), q, rec) if occ.top is not None else []
    if kind == 'href-instance':
        return expected_within(occ, x, q, rec)
    if kind in ('library', 'definition', 'instance'):
        if kind == 'library':
            paths = [p for p in occ.inst if any(p[-1].reference is d for d in x.definitions)]
        elif kind == 'definition':
            paths = [p for p in occ.inst if p[-1].reference is x]
        else:
            paths = [p for p in occ.inst if p[-1] is x]
        if q == 'hinstances':
            return paths
        out = []
        for p in paths:
            out += expected_within(occ, p, q, rec)
        return _dedupe(out)
    if kind == 'port':
        return {'hports': [p for p in occ.ports if p[-1] is x], 'hpins': [p for p in occ.pins if p[-2] is x],
                'hinstances': [p for p in occ.inst if p[-1].reference is x.definition]}.get(q)
    if kind == 'inner-pin':
        return {'hpins': [p for p in occ.pins if p[-1] is x], 'hports': [p for p in occ.ports if p[-1] is x.port],
                'hinstances': [p for p in occ.inst if p[-1].reference is x.port.definition]}.get(q)
    if kind == 'outer-pin':
        return {'hpins': [p for p in occ.pins if p[-1] is x.inner_pin and p[-3] is x.instance],
                'hinstances': [p for p in occ.inst if p[-1] is x.instance]}.get(q)
    if kind == 'cable':
        return {'hcables': [p for p in occ.cables if p[-1] is x], 'hwires': [p for p in occ.wires if p[-2] is x],
                'hinstances': [p for p in occ.inst if p[-1].reference is x.definition]}.get(q)
    if kind == 'wire':
        return {'hwires': [p for p in occ.wires if p[-1] is x], 'hcables': [p for p in occ.cables if p[-1] is x.cable],
                'hinstances': [p for p in occ.inst if p[-1].reference is x.cable.definition]}.get(q)
    if kind == 'href-port':
        return {'hports': [x], 'hpins': [p for p in occ.pins if ids(p[:-1]) == ids(x)], 'hinstances': [x[:-1]]}.get(q)
    if kind == 'href-pin':
        return {'hpins': [x], 'hports': [x[:-1]], 'hinstances': [x[:-2]]}.get(q)
    if kind == 'href-cable':
        return {'hcables': [x], 'hwires': [p for p in occ.wires if ids(p[:-1]) == ids(x)], 'hinstances': [x[:-1]]}.get(q)
    if kind == 'href-wire':
        return {'hwires': [x], 'hcables': [x[:-1]], 'hinstances': [x[:-2]]}.get(q)
    return None


def root_pool(n, occ, r, keep):
    """Single roots of every kind: [(kind, object handed to the query, oracle key)]. Deterministic given r."""
    defs = [d for l in n.libraries for d in l.definitions]

    def pick(lst, k):
        lst = list(lst)
        r.shuffle(lst)
        return lst[:k]

    def href(s):
        h = HRef.from_sequence(list(s))
        keep.append(h)
        return h
    pool = [('netlist', n, None)]
    pool += [('href-instance', href(p), p) for p in [occ.inst[0]] + pick(occ.inst[1:], 5)]
    pool += [('library', l, l) for l in n.libraries]
    pool += [('definition', d, d) for d in pick(defs, 5)]
    pool += [('instance', i, i) for i in [n.top_instance] + pick([i for d in defs for i in d.children], 5)]
    pool += [('port', x, x) for x in pick([p for d in defs for p in d.ports], 3)]
    pool += [('inner-pin', x, x) for x in pick([q for d in defs for p in d.ports for q in p.pins], 3)]
    pool += [('outer-pin', x, x) for x in pick([o for d in defs for i in d.children for o in i.pins], 3)]
    pool += [('cable', x, x) for x in pick([c for d in defs for c in d.cables], 3)]
    pool += [('wire', x, x) for x in pick([w for d in defs for c in d.cables for w in c.wires], 3)]
    pool += [('href-port', href(s), s) for s in pick(occ.ports, 2)]
    pool += [('href-pin', href(s), s) for s in pick(occ.pins, 2)]
    pool += [('href-cable', href(s), s) for s in pick(occ.cables, 2)]
    pool += [('href-wire', href(s), s) for s in pick(occ.wires, 2)]
    return pool


MIXED_PER_QUERY = 6     # collections per (query, recursive) and design


def roots_case(n, occ, f, r, keep):
    """Single roots of every kind with recursive on and off, then collections of roots of mixed kinds."""
    pool = root_pool(n, occ, r, keep)
    for q, fn in Q.items():
        for rec in (False, True):
            elig = []
            for kind, obj, key in pool:
                exp = single_expected(occ, kind, key, q, rec)
                if exp is None:
                    continue
                elig.append((kind, obj, exp))
                ask(f, 'C11.roots', 'get_%s(%s,recursive=%s)' % (q, kind, rec), lambda: fn(obj, recursive=rec), exp)
            within = [e for e in elig if ROOT_CLASS[e[0]] == 'within']
            direct = [e for e in elig if ROOT_CLASS[e[0]] == 'container']
            for k in range(MIXED_PER_QUERY):
                if k < 2 and within and direct:
                    # one name-searched root together with one or two directly enumerated roots
                    chosen = [r.choice(within)] + r.sample(direct, min(len(direct), 1 + k))
                else:
                    chosen = r.sample(elig, min(len(elig), r.randint(2, 4)))
                if r.random() < 0.15:
                    chosen.append(r.choice(chosen))          # the same root listed twice
                r.shuffle(chosen)
                if len(chosen) < 2:
                    continue
                union = _dedupe([s for e in chosen for s in e[2]])
                sets = [set(ids(s) for s in e[2]) for e in chosen]
                overlap = sum(len(x) for x in sets) > len(set().union(*sets))
                f.stats['mixed_overlapping' if overlap else 'mixed_disjoint'] += 1
                f.stats['mixed_collections'] += 1
                kinds = [e[0] for e in chosen]
                site = 'get_%s([%s],recursive=%s)' % (q, ','.join(sorted(set(ROOT_CLASS[k_] for k_ in kinds))), rec)
                coll = [e[1] for e in chosen]
                res = f.guarded('C11.raises', site, lambda: list(fn(list(coll) if k % 2 == 0 else tuple(coll), recursive=rec)), roots=kinds)
                if res is None:
                    continue
                got = [oracles.href_seq(h) for h in res]
                gi = [ids(s) for s in got]
                ei = {ids(s): s for s in union}
                f.check(len(gi) == len(set(gi)), 'C11.dup', site, 'roots %r: %d results, %d distinct paths, e.g. twice: %s' % (
                    kinds, len(gi), len(set(gi)), next((show(s) for j, s in enumerate(got) if gi[j] in gi[:j]), '')), roots=kinds)
                missing = [show(s) for k_, s in ei.items() if k_ not in set(gi)]
                extra = [show(s) for k_, s in zip(gi, got) if k_ not in ei]
                f.check(not missing and not extra, 'C11.mixed', site, 'roots %r: expected the union of the single-root answers (%d occurrences), got %d; '
                        'missing %r extra %r' % (kinds, len(ei), len(set(gi)), missing[:3], extra[:3]), roots=kinds)
                bad_v = [h for h in res if h.is_valid is not True]
                f.check(not bad_v, 'C11.valid', 'mixed-roots', '%d references returned for roots %r report invalid' % (len(bad_v), kinds), roots=kinds)


def enumeration_case(ad, f, r, r_roots=None):
    n = designs.build_api(ad)
    occ = oracles.Occ(n)
    top = (n.top_instance,)
    keep = []     # hold every reference alive: canonicity is only promised while one is alive
    # ---- A. netlist root
    for q, fn in Q.items():
        for rec in (False, True):
            res = ask(f, 'C11.enum', 'get_%s(netlist,recursive=%s)' % (q, rec), lambda: fn(n, recursive=rec), expected_within(occ, top, q, rec))
            keep.append(res)
    # ---- B. hierarchical-instance roots
    roots = list(occ.inst)
    r.shuffle(roots)
    for path in roots[:10]:
        h = HRef.from_sequence(list(path))
        keep.append(h)
        for q, fn in Q.items():
            for rec in (False, True):
                ask(f, 'C11.enum', 'get_%s(href-instance,recursive=%s)' % (q, rec), lambda: fn(h, recursive=rec), expected_within(occ, path, q, rec))
    # ---- C. occurrences of a given element
    defs = [d for l in n.libraries for d in l.definitions]

    def pick(lst, k=4):
        lst = list(lst)
        r.shuffle(lst)
        return lst[:k]
    for i in pick([i for d in defs for i in d.children] + [n.top_instance], 5):
        ask(f, 'C11.occurrences', 'get_hinstances(instance)', lambda: sdn.get_hinstances(i), [p for p in occ.inst if p[-1] is i])
    for d in pick(defs, 5):
        ask(f, 'C11.occurrences', 'get_hinstances(definition)', lambda: sdn.get_hinstances(d), [p for p in occ.inst if p[-1].reference is d])
    for l in n.libraries:
        ask(f, 'C11.occurrences', 'get_hinstances(library)', lambda: sdn.get_hinstances(l),
            [p for p in occ.inst if any(p[-1].reference is d for d in l.definitions)])
    for x in pick([p for d in defs for p in d.ports]):
        ask(f, 'C11.occurrences', 'get_hports(port)', lambda: sdn.get_hports(x), [p for p in occ.ports if p[-1] is x])
        ask(f, 'C11.assoc', 'get_hpins(port)', lambda: sdn.get_hpins(x), [p for p in occ.pins if p[-2] is x])
        ask(f, 'C11.assoc', 'get_hinstances(port)', lambda: sdn.get_hinstances(x), [p for p in occ.inst if p[-1].reference is x.definition])
    for x in pick([q for d in defs for p in d.ports for q in p.pins]):
        ask(f, 'C11.occurrences', 'get_hpins(inner-pin)', lambda: sdn.get_hpins(x), [p for p in occ.pins if p[-1] is x])
        ask(f, 'C11.assoc', 'get_hports(inner-pin)', lambda: sdn.get_hports(x), [p for p in occ.ports if p[-1] is x.port])
    for x in pick([o for d in defs for i in d.children for o in i.pins]):
        ask(f, 'C11.occurrences', 'get_hpins(outer-pin)', lambda: sdn.get_hpins(x),
            [p for p in occ.pins if p[-1] is x.inner_pin and p[-3] is x.instance])
    for x in pick([c for d in defs for c in d.cables]):
        ask(f, 'C11.occurrences', 'get_hcables(cable)', lambda: sdn.get_hcables(x), [p for p in occ.cables if p[-1] is x])
        ask(f, 'C11.assoc', 'get_hwires(cable)', lambda: sdn.get_hwires(x), [p for p in occ.wires if p[-2] is x])
    for x in pick([w for d in defs for c in d.cables for w in c.wires]):
        ask(f, 'C11.occurrences', 'get_hwires(wire)', lambda: sdn.get_hwires(x), [p for p in occ.wires if p[-1] is x])
        ask(f, 'C11.assoc', 'get_hcables(wire)', lambda: sdn.get_hcables(x), [p for p in occ.cables if p[-1] is x.cable])
    # ---- D. containment across kinds: items inside all occurrences of a definition / instance / library
    for q in ('hports', 'hpins', 'hcables', 'hwires'):
        for rec in (False, True):
            for d in pick(defs, 3):
                exp = []
                for p in occ.inst:
                    if p[-1].reference is d:
                        exp += expected_within(occ, p, q, rec)
                ask(f, 'C11.assoc', 'get_%s(definition,recursive=%s)' % (q, rec), lambda: Q[q](d, recursive=rec), _dedupe(exp))
            for i in pick([i for d in defs for i in d.children], 3):
                exp = []
                for p in occ.inst:
                    if p[-1] is i:
                        exp += expected_within(occ, p, q, rec)
                ask(f, 'C11.assoc', 'get_%s(instance,recursive=%s)' % (q, rec), lambda: Q[q](i, recursive=rec), _dedupe(exp))
        for l in pick(list(n.libraries), 2):
            exp = []
            for p in occ.inst:
                if any(p[-1].reference is d for d in l.definitions):
                    exp += expected_within(occ, p, q, False)
            ask(f, 'C11.assoc', 'get_%s(library)' % q, lambda: Q[q](l), _dedupe(exp))
    # bundle <-> member, enclosing instance (hierarchical roots)
    for s in pick(occ.ports, 3):
        h = HRef.from_sequence(list(s)); keep.append(h)
        ask(f, 'C11.assoc', 'get_hpins(href-port)', lambda: sdn.get_hpins(h), [p for p in occ.pins if ids(p[:-1]) == ids(s)])
        ask(f, 'C11.assoc', 'get_hports(href-port)', lambda: sdn.get_hports(h), [s])
        ask(f, 'C11.assoc', 'get_hinstances(href-port)', lambda: sdn.get_hinstances(h), [s[:-1]])
    for s in pick(occ.pins, 3):
        h = HRef.from_sequence(list(s)); keep.append(h)
        ask(f, 'C11.assoc', 'get_hports(href-pin)', lambda: sdn.get_hports(h), [s[:-1]])
        ask(f, 'C11.assoc', 'get_hpins(href-pin)', lambda: sdn.get_hpins(h), [s])
        ask(f, 'C11.assoc', 'get_hinstances(href-pin)', lambda: sdn.get_hinstances(h), [s[:-2]])
    for s in pick(occ.cables, 3):
        h = HRef.from_sequence(list(s)); keep.append(h)
        ask(f, 'C11.assoc', 'get_hwires(href-cable)', lambda: sdn.get_hwires(h), [p for p in occ.wires if ids(p[:-1]) == ids(s)])
        ask(f, 'C11.assoc', 'get_hcables(href-cable)', lambda: sdn.get_hcables(h), [s])
        ask(f, 'C11.assoc', 'get_hinstances(href-cable)', lambda: sdn.get_hinstances(h), [s[:-1]])
    for s in pick(occ.wires, 3):
        h = HRef.from_sequence(list(s)); keep.append(h)
        ask(f, 'C11.assoc', 'get_hcables(href-wire)', lambda: sdn.get_hcables(h), [s[:-1]])
        ask(f, 'C11.assoc', 'get_hwires(href-wire)', lambda: sdn.get_hwires(h), [s])
        ask(f, 'C11.assoc', 'get_hinstances(href-wire)', lambda: sdn.get_hinstances(h), [s[:-2]])
    # ---- D2. every root kind with recursive on/off; collections of roots of mixed kinds
    roots_case(n, occ, f, r_roots if r_roots is not None else random.Random(0), keep)
    # ---- E. validity and names of everything enumerated from the netlist
    everything = collect(n)
    for kind, hs in everything.items():
        bad_v = [h for h in hs if h.is_valid is not True]
        f.check(not bad_v, 'C11.valid', kind, '%d of %d references report invalid, e.g. %s' % (len(bad_v), len(hs), show(oracles.href_seq(bad_v[0])) if bad_v else ''))
        bad_n = [(h.name, oracles.expected_name(oracles.href_seq(h))) for h in hs if h.name != oracles.expected_name(oracles.href_seq(h))]
        f.check(not bad_n, 'C11.name', kind, '%d names differ, e.g. HRef.name %r, expected %r' % (len(bad_n), bad_n[0][0] if bad_n else '', bad_n[0][1] if bad_n else ''))
    # ---- F. canonical objects
    again = collect(n)
    for kind in everything:
        a = {ids(oracles.href_seq(h)): h for h in everything[kind]}
        b = {ids(oracles.href_seq(h)): h for h in again[kind]}
        same = all(a[k] is b[k] for k in a if k in b)
        f.check(same, 'C11.canonical', 'query-twice:' + kind, 'the same path came back as two different objects')
        eq = all(a[k] == b[k] and hash(a[k]) == hash(b[k]) for k in a if k in b)
        f.check(eq, 'C11.canonical', 'eq-hash:' + kind, 'references to one path are unequal or hash differently')
        hs = everything[kind][:40]
        f.check(all(HRef.from_sequence(list(oracles.href_seq(h))) is h for h in hs), 'C11.canonical', 'from_sequence:' + kind,
                'HRef.from_sequence(path) is not the reference the query returned')
        f.check(all(HRef.from_parent_and_item(h.parent, h.item) is h for h in hs), 'C11.canonical', 'from_parent_and_item:' + kind,
                'HRef.from_parent_and_item(parent, item) is not the reference the query returned')
    # distinct paths are distinct references
    allh = [h for hs in everything.values() for h in hs]
    f.check(len(set(id(h) for h in allh)) == len(set(ids(oracles.href_seq(h)) for h in allh)), 'C11.canonical', 'distinct-paths',
            'two different paths share one reference object')
    uniq_check(f, 'no-edit', everything, [n])


def _dedupe(seqs):
    seen, out = set(), []
    for s in seqs:
        k = ids(s)
        if k not in seen:
            seen.add(k)
            out.append(s)
    return out


def collect(n):
    out = {}
    out['instance'] = [HRef.from_parent_and_item(None, n.top_instance)] + list(sdn.get_hinstances(n, recursive=True))
    out['port'] = list(sdn.get_hports(n, recursive=True))
    out['pin'] = list(sdn.get_hpins(n, recursive=True))
    out['cable'] = list(sdn.get_hcables(n, recursive=True))
    out['wire'] = list(sdn.get_hwires(n, recursive=True))
    return out


class Now:
    """The current netlist(s) as the oracle sees them: occurrence paths found by walking downwards from each netlist's top instance,
    judged by path_status. Reads .libraries .definitions .top_instance .reference .children .ports .pins .cables .wires only."""

    def __init__(self, netlists):
        self.netlists = list(netlists)
        self.member = [set(id(d) for l in m.libraries for d in l.definitions) for m in self.netlists]
        self.paths = {k: [] for k in ('instance', 'port', 'pin', 'cable', 'wire')}      # judged True
        self.ambiguous = {k: [] for k in self.paths}                                      # not judged
        seen = set()
        for m in self.netlists:
            occ = oracles.Occ(m)
            for kind, ps in all_paths(occ).items():
                for p in ps:
                    if ids(p) in seen:
                        continue
                    seen.add(ids(p))
                    st = self.status(p)
                    if st is True:
                        self.paths[kind].append(p)
                    elif st is None:
                        self.ambiguous[kind].append(p)

    def status(self, s):
        """True: the path is an occurrence of the current design; False: it is not; None: not judged (see module docstring)."""
        root = s[0]
        if not isinstance(root, Instance):
            return False
        d = root.reference
        if d is None:
            return False
        home = [k for k, m in enumerate(self.netlists) if m.top_instance is root and id(d) in self.member[k]]
        if not home:
            return False
        amb = False
        cur = d
        k = 1
        while k < len(s):
            x = s[k]
            if cur is None:
                return False
            if isinstance(x, Instance):
                if oracles.pos_of(list(cur.children), x) is None:
                    return False
                cur = x.reference
                if cur is not None and not any(id(cur) in self.member[h] for h in home):
                    amb = True
                k += 1
                continue
            if isinstance(x, Port):
                if oracles.pos_of(list(cur.ports), x) is None:
                    return False
                members = list(x.pins)
            elif isinstance(x, Cable):
                if oracles.pos_of(list(cur.cables), x) is None:
                    return False
                members = list(x.wires)
            else:
                return False
            rest = s[k + 1:]
            if len(rest) > 1 or (rest and oracles.pos_of(members, rest[0]) is None):
                return False
            break
        return None if amb else True


FRESH_PER_KIND = 25


def uniq_check(f, edit, held, netlists, r=None):
    """is_valid / is_unique of the held references against the current netlist(s). With r: references are also built (from_sequence)
    for a sample of the paths the oracle finds now; they join held and must report valid."""
    now = Now(netlists)
    if r is not None:
        for kind, ps in now.paths.items():
            ps = list(ps)
            r.shuffle(ps)
            have = set(id(h) for h in held[kind])
            for p in ps[:FRESH_PER_KIND]:
                h = HRef.from_sequence(list(p))
                if id(h) not in have:
                    have.add(id(h))
                    held[kind].append(h)
    for kind, hs in held.items():
        count, count_amb = {}, {}
        for p in now.paths[kind]:
            count[id(p[-1])] = count.get(id(p[-1]), 0) + 1
        for p in now.ambiguous[kind]:
            count_amb[id(p[-1])] = count_amb.get(id(p[-1]), 0) + 1
        judged = []
        for h in hs:
            s = oracles.href_seq(h)
            v = now.status(s)
            if v is None:
                f.stats['ambiguous_paths'] += 1
                continue
            judged.append((h, s, v))
        for want in (True, False):
            bad = []
            n_eval = 0
            for h, s, v in judged:
                if v != want:
                    continue
                n_eval += 1
                got = f.guarded('C11.raises', 'is_valid', lambda: h.is_valid, edit=edit)
                if got is not v:
                    bad.append(s)
            if n_eval:
                f.check(not bad, 'C11.is_valid', '%s:expected-%s' % (kind, want),
                        'after %s: %d of %d references report is_valid=%s, the path %s in the netlist, e.g. %s' % (
                            edit, len(bad), n_eval, not want, 'exists' if want else 'no longer exists', show(bad[0]) if bad else ''),
                        edit=edit)
        for want in (True, False):
            bad = []
            n_eval = 0
            for h, s, v in judged:
                if v and count_amb.get(id(s[-1]), 0):
                    continue                      # another occurrence of the item may or may not count
                u = v and count.get(id(s[-1]), 0) == 1
                if u != want:
                    continue
                n_eval += 1
                got = f.guarded('C11.raises', 'is_unique', lambda: h.is_unique, edit=edit)
                if got is not u:
                    bad.append((s, count.get(id(s[-1]), 0) if v else 0))
            if n_eval:
                f.check(not bad, 'C11.is_unique', '%s:expected-%s' % (kind, want),
                        'after %s: %d of %d references report is_unique=%s, e.g. %s which %s' % (
                            edit, len(bad), n_eval, not want, show(bad[0][0]) if bad else '',
                            ('is a path of the netlist whose item occurs %s time(s)' % bad[0][1] if bad[0][1] else 'is not a path of the netlist') if bad else ''),
                        edit=edit)


# one-step edits below the top (and the two property-setter edits of the top) ...
EDITS = ('remove_child', 'remove_cable', 'remove_wire', 'remove_port', 'remove_pin', 'dereference', 'top_none', 'top_other', 'add_instance', 'move_child')
# ... and sequences: edits above the root of every path, each followed by its undo
EDIT_SEQS = tuple((e,) for e in EDITS) + (
    ('remove_top_library', 'readd_library'),
    ('remove_top_library_bulk', 'readd_library'),
    ('remove_top_definition', 'readd_definition'),
    ('remove_top_definition_bulk', 'readd_definition_other_library'),
    ('top_dereference', 'top_rereference'),
    ('top_repoint', 'top_rereference'),
    ('set_top_instance_fresh', 'set_top_instance_back'),
    ('set_top_instance_child', 'set_top_instance_back'),
    ('set_top_instance_definition', 'set_top_instance_back'),
    ('top_replace_fresh', 'top_replace_back'),
    ('top_none', 'top_replace_back'),
    ('remove_lower_library', 'readd_library'),
    ('remove_lower_definition', 'readd_definition'),
    ('library_to_other_netlist', 'other_netlist_top', 'library_back'),
    ('add_empty_bundles',),
    ('empty_a_cable',),
)


class NotApplicable(Exception):
    pass


def apply_edit(edit, n, r, ctx):
    """One edit through the public API. ctx carries what a later undo step needs; ctx['netlists'] the netlists to judge against."""
    occ0 = oracles.Occ(n)
    reach_defs = [d[0] for d in _dedupe([(p[-1].reference,) for p in occ0.inst if p[-1].reference is not None])]
    r.shuffle(reach_defs)
    top = n.top_instance
    topdef = top.reference if top is not None else None

    def need(c):
        if not c:
            raise NotApplicable()

    def first(pred):
        for d in reach_defs:
            x = pred(d)
            if x:
                return d, x
        raise NotApplicable()
    if edit == 'remove_child':
        d, xs = first(lambda d: list(d.children))
        d.remove_child(r.choice(xs))
    elif edit == 'remove_cable':
        d, xs = first(lambda d: list(d.cables))
        d.remove_cable(r.choice(xs))
    elif edit == 'remove_wire':
        d, cs = first(lambda d: [c for c in d.cables if len(c.wires) > 0])
        c = r.choice(cs)
        c.remove_wire(r.choice(list(c.wires)))
    elif edit == 'remove_port':
        d, xs = first(lambda d: list(d.ports))
        d.remove_port(r.choice(xs))
    elif edit == 'remove_pin':
        d, ps = first(lambda d: [p for p in d.ports if len(p.pins) > 1])
        p = r.choice(ps)
        p.remove_pin(r.choice(list(p.pins)))
    elif edit == 'dereference':
        d, xs = first(lambda d: list(d.children))
        r.choice(xs).reference = None
    elif edit == 'top_none':
        ctx['old_top'] = top
        n.top_instance = None
    elif edit == 'top_other':
        cands = [p[-1] for p in occ0.inst[1:]]
        need(cands)
        n.top_instance = r.choice(cands)
    elif edit == 'add_instance':
        d, targets = first(lambda d: [x for x in reach_defs if x is not d and not _reaches(x, d)])
        d.create_child('c11_extra', reference=r.choice(targets))
    elif edit == 'move_child':
        def movable(d):
            for i in r.sample(list(d.children), len(d.children)):
                others = [x for x in reach_defs if x is not d and (i.reference is None or not _reaches(i.reference, x)) and x is not i.reference]
                if others:
                    return (i, others)
            return None
        d, (i, others) = first(movable)
        d.remove_child(i)
        i.name = 'c11_moved'
        r.choice(others).add_child(i)
    elif edit == 'add_empty_bundles':
        need(reach_defs)
        d = reach_defs[0]
        d.create_cable(name='c11_empty_cable')
        d.create_port(name='c11_empty_port')
    elif edit == 'empty_a_cable':
        d, cs = first(lambda d: [c for c in d.cables if len(c.wires) > 0])
        c = r.choice(cs)
        c.remove_wires_from(list(c.wires))
    # ---- above the root: the library / definition that holds the design
    elif edit in ('remove_top_library', 'remove_top_library_bulk', 'remove_lower_library', 'library_to_other_netlist'):
        need(topdef is not None and topdef.library is not None)
        if edit == 'remove_lower_library':
            libs = [l for l in _dedupe([(d.library,) for d in reach_defs if d.library is not None and d.library is not topdef.library])]
            need(libs)
            lib = r.choice(libs)[0]
        else:
            lib = topdef.library
        ctx['lib'], ctx['lib_pos'] = lib, oracles.pos_of(list(n.libraries), lib)
        if edit == 'remove_top_library_bulk':
            n.remove_libraries_from([lib])
        else:
            n.remove_library(lib)
        if edit == 'library_to_other_netlist':
            n2 = sdn.Netlist(name='c11_other_netlist')
            n2.add_library(lib)
            ctx['n2'] = n2
            ctx['netlists'] = [n, n2]
    elif edit == 'other_netlist_top':
        ctx['n2'].top_instance = top
    elif edit == 'library_back':
        ctx['n2'].remove_library(ctx['lib'])
        n.add_library(ctx['lib'], position=ctx['lib_pos'])
    elif edit == 'readd_library':
        n.add_library(ctx['lib'], position=ctx['lib_pos'])
    elif edit in ('remove_top_definition', 'remove_top_definition_bulk', 'remove_lower_definition'):
        need(topdef is not None and topdef.library is not None)
        if edit == 'remove_lower_definition':
            cands = [d for d in reach_defs if d is not topdef and d.library is not None]
            need(cands)
            d = r.choice(cands)
        else:
            d = topdef
        lib = d.library
        ctx['def'], ctx['def_lib'], ctx['def_pos'] = d, lib, oracles.pos_of(list(lib.definitions), d)
        if edit == 'remove_top_definition_bulk':
            lib.remove_definitions_from([d])
        else:
            lib.remove_definition(d)
    elif edit == 'readd_definition':
        ctx['def_lib'].add_definition(ctx['def'], position=ctx['def_pos'])
    elif edit == 'readd_definition_other_library':
        others = [l for l in n.libraries if l is not ctx['def_lib']]
        need(others)
        r.choice(others).add_definition(ctx['def'])
    # ---- above the root: the top instance and its reference
    elif edit == 'top_dereference':
        need(topdef is not None)
        ctx['old_topdef'] = topdef
        top.reference = None
    elif edit == 'top_repoint':
        cands = [d for d in reach_defs if d is not topdef]
        need(topdef is not None and cands)
        ctx['old_topdef'] = topdef
        _repoint(top, r.choice(cands))
    elif edit == 'top_rereference':
        _repoint(top, ctx['old_topdef'])
    elif edit == 'set_top_instance_fresh':
        need(topdef is not None)
        ctx['old_top'] = top
        other = sdn.Instance(name='c11_top2')
        other.reference = topdef
        n.set_top_instance(other)
    elif edit == 'set_top_instance_child':
        cands = [p[-1] for p in occ0.inst[1:]]
        need(cands)
        ctx['old_top'] = top
        n.set_top_instance(r.choice(cands))
    elif edit == 'set_top_instance_definition':
        need(reach_defs)
        ctx['old_top'] = top
        n.set_top_instance(r.choice(reach_defs), instance_name='c11_top3')
    elif edit == 'set_top_instance_back':
        n.set_top_instance(ctx['old_top'])
    elif edit == 'top_replace_fresh':
        need(topdef is not None)
        ctx['old_top'] = top
        other = sdn.Instance(name='c11_top4')
        other.reference = topdef
        n.top_instance = other
    elif edit == 'top_replace_back':
        n.top_instance = ctx['old_top']
    else:
        raise KeyError(edit)


def _repoint(inst, d):
    """inst.reference = d; direct re-pointing is only supported between definitions of the same port shape, otherwise through None"""
    cur = inst.reference
    if cur is not None and [len(p.pins) for p in cur.ports] != [len(p.pins) for p in d.ports]:
        inst.reference = None
    inst.reference = d


class _NoDesign:
    """what the occurrence oracle looks like when the netlist has no (valid) top: nothing occurs"""
    top = None
    inst, ports, pins, cables, wires = [], [], [], [], []

    def below(self, path, recursive):
        return []

    def items_in(self, path, kind):
        return []


def queries_after(f, label, n, ctx, held_roots, r):
    """The h-queries in the state an edit leaves behind: netlist, library, definition, instance, port, cable, pin, wire roots and the
    hierarchical-instance roots built before the edit (recursive on/off) against the occurrence oracle of the CURRENT netlist: nothing
    occurs when the netlist has no top instance or the top definition is outside the netlist, and a reference whose path is gone is the
    root of nothing.  States with a second netlist or with unjudged (cross-netlist) paths are skipped."""
    now = Now(ctx['netlists'])
    # an oracle-free relation that holds in every state, also the ones not judged below: the occurrences of an instance are the
    # references to it among all hierarchical instances of the netlist
    try:
        everything = list(sdn.get_hinstances(n, recursive=True))
    except Exception:
        everything = None
    if everything is not None:
        kids = [i for l in n.libraries for d in l.definitions for i in d.children if i is not n.top_instance]    # the root itself is not "below the top"
        r.shuffle(kids)
        for x in kids[:3]:
            site = 'get_hinstances(instance)==filter(get_hinstances(netlist))'
            res = f.guarded('C11.raises', site, lambda: list(sdn.get_hinstances(x)), edit=label)
            if res is None:
                continue
            want = sorted(ids(oracles.href_seq(h)) for h in everything if h.item is x)
            got = sorted(ids(oracles.href_seq(h)) for h in res)
            f.check(want == got, 'C11.consistency', site, 'after %s: get_hinstances(netlist, recursive=True) holds %d references to the instance, '
                    'get_hinstances(instance) returns %d' % (label, len(want), len(got)), edit=label)
    if len(ctx['netlists']) > 1 or any(now.ambiguous[k] for k in now.ambiguous):
        f.stats['queries_after_edit_skipped'] += 1
        return
    top = n.top_instance
    rootok = top is not None and now.status((top,)) is True
    occ = oracles.Occ(n) if rootok else _NoDesign()
    state = 'top-valid' if rootok else 'top-none' if top is None else 'top-invalid'
    f.stats['queries_after_edit:' + state] += 1
    defs = [d for l in n.libraries for d in l.definitions]

    def pick(lst, k, prefer=None):
        lst = list(lst)
        r.shuffle(lst)
        if prefer is not None:
            lst.sort(key=lambda x: 0 if prefer(x) else 1)      # stable: degenerate elements first
        return lst[:k]
    roots = [('netlist', n, None)]
    roots += [('library', l, l) for l in pick(n.libraries, 1)]
    roots += [('definition', d, d) for d in pick(defs, 2)]
    roots += [('instance' if i.reference is not None else 'instance-without-reference', i, i)
              for i in pick([i for d in defs for i in d.children], 2, lambda i: i.reference is None)]
    roots += [('port' if len(x.pins) else 'port-without-pins', x, x) for x in pick([p for d in defs for p in d.ports], 1, lambda x: len(x.pins) == 0)]
    roots += [('cable' if len(x.wires) else 'cable-without-wires', x, x) for x in pick([c for d in defs for c in d.cables], 1, lambda x: len(x.wires) == 0)]
    roots += [('inner-pin', x, x) for x in pick([q for d in defs for p in d.ports for q in p.pins], 1)]
    roots += [('wire', x, x) for x in pick([w for d in defs for c in d.cables for w in c.wires], 1)]
    for h, s in held_roots:
        roots.append(('href-instance' if now.status(s) is True else 'href-instance-stale', h, s))
    for label_kind, obj, key in roots:
        kind = label_kind.split('-with')[0].replace('-stale', '')
        for q, fn in Q.items():
            # both flags for the "within" roots, one (drawn) for the others: their answers do not depend on it (C11.roots)
            for rec in ((False, True) if kind in ('netlist', 'href-instance') else (r.random() < 0.5,)):
                if label_kind == 'href-instance-stale' or (kind == 'href-instance' and not rootok):
                    exp = []
                else:
                    exp = single_expected(occ, kind, key, q, rec)
                if exp is None:
                    continue
                site = 'get_%s(%s):%s' % (q, label_kind, state)
                res = f.guarded('C11.raises', site, lambda: list(fn(obj, recursive=rec)), edit=label, recursive=rec)
                if res is None:
                    continue
                got = [oracles.href_seq(h) for h in res]
                gi = [ids(s) for s in got]
                ei = {ids(s): s for s in exp}
                f.check(len(gi) == len(set(gi)), 'C11.dup', site, 'after %s, recursive=%s: %d results, %d distinct paths' % (label, rec, len(gi), len(set(gi))),
                        edit=label, recursive=rec)
                missing = [show(s) for k, s in ei.items() if k not in set(gi)]
                extra = [show(s) for k, s in zip(gi, got) if k not in ei]
                f.check(not missing and not extra, 'C11.enum-after-edit', site, 'after %s, recursive=%s: expected %d occurrences, got %d; missing %r extra %r%s' % (
                    label, rec, len(ei), len(set(gi)), missing[:3], extra[:3],
                    ' (returned references report is_valid=%s)' % sorted(set(h.is_valid for h, k in zip(res, gi) if k not in ei)) if extra else ''),
                        edit=label, recursive=rec)
                bad_v = [h for h, k in zip(res, gi) if k in ei and h.is_valid is not True]
                f.check(not bad_v, 'C11.valid', 'after-edit:' + q, 'after %s: %d returned references of existing paths report invalid' % (label, len(bad_v)), edit=label)


HELD_ROOTS = 3


def edit_case(ad, f, r, seq):
    """Build, hold a reference to every occurrence, then apply the steps of seq; after every step every held reference (and a sample
    of references freshly built for the paths that exist now) must agree with the oracle."""
    n = designs.build_api(ad)
    held = collect(n)
    occ0 = oracles.Occ(n)
    below = list(occ0.inst[1:])
    r.shuffle(below)
    held_roots = [(HRef.from_sequence(list(p)), p) for p in [occ0.inst[0]] + below[:HELD_ROOTS - 1]]
    ctx = {'netlists': [n]}
    label = ''
    for step in seq:
        label = (label + '+' + step) if label else step
        try:
            apply_edit(step, n, r, ctx)
        except NotApplicable:
            f.stats['edit_not_applicable'] += 1
            return
        except Exception as e:
            f.stats['edit_refused'] += 1
            f.stats['edit_refused:%s:%s' % (step, type(e).__name__)] += 1
            return
        f.stats['edits'] += 1
        uniq_check(f, label, held, ctx['netlists'], r)
        queries_after(f, label, n, ctx, held_roots, r)


def _reaches(a, b):
    """definition a instantiates (transitively) definition b, or a is b"""
    stack, seen = [a], set()
    while stack:
        d = stack.pop()
        if d is b:
            return True
        if id(d) in seen:
            continue
        seen.add(id(d))
        stack += [i.reference for i in d.children if i.reference is not None]
    return False


def case(ad, f):
    seed = int(designs.ad_hash(ad), 16) % (2 ** 31)
    r = random.Random(seed)
    enumeration_case(ad, f, r, random.Random(seed + 7919))
    micro = 'micro' in (ad.get('meta') or {})
    for k, seq in enumerate(EDIT_SEQS):
        if micro and seq[0] in ('top_other', 'move_child', 'remove_pin'):
            continue
        edit_case(ad, f, random.Random(seed + 1 + k), seq)
    f.stats['note:roots: single roots of 14 kinds (netlist, hierarchical instance, library, definition, instance, port, inner pin, outer pin, '
            'cable, wire, hierarchical port/pin/cable/wire), pool <= ~45 per design, recursive on and off; %d collections of 2-4 (+1 repeated) roots '
            'of mixed kinds per query and flag, given as list or tuple' % MIXED_PER_QUERY] = 1
    f.stats['note:edits: %d sequences per design (%s); held = every reference enumerated before the first step + <= %d per kind built from the '
            'oracle paths after every step; after every step the five queries from the netlist and %d hierarchical-instance roots built before the edit '
            '(recursive on and off) and from 1 library, <= 2 definitions, <= 2 instances, 1 port, 1 cable, 1 pin, 1 wire (degenerate ones first; flag drawn)'
            % (len(EDIT_SEQS), '; '.join('+'.join(s) for s in EDIT_SEQS), FRESH_PER_KIND, HELD_ROOTS)] = 1


def profile_for(seed):
    return ('wild', 'named', 'plain')[seed % 3]


def nontrivial(ad, feats):
    return feats['shared_nonleaf_paths'] >= 1 and feats['depth'] >= 2


if __name__ == '__main__':
    bcommon.main(case, profile_for, nontrivial)
