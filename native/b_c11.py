"""Bounded stand-in for C11: get_hinstances / get_hports / get_hpins / get_hcables / get_hwires and HRef on generated
designs versus the independent occurrence enumeration oracles.Occ.

  C11.raises        a query raised                                                              site: query(root) : exception @ function
  C11.enum          "within" queries from a netlist / hierarchical-instance root, recursive on/off   site: query(rootkind,recursive=..)
  C11.occurrences   occurrences of a given element (same kind)                                   site: query(element kind)
  C11.assoc         containment queries across kinds (items inside all occurrences of a definition/instance/library; bundle<->member;
                    enclosing instance)                                                          site: query(rootkind[,recursive])
  C11.dup           a result lists the same path twice                                           site: as above
  C11.valid         a returned reference reports is_valid False                                  site: item kind
  C11.name          HRef.name != slash-joined instance names below the top + item name + [index] site: item kind
  C11.canonical     two references to one path are different objects / unequal / unequal hash    site: how obtained
  C11.is_valid      is_valid after an edit disagrees with the current netlist                    site: item kind : expected value
  C11.is_unique     is_unique disagrees with "valid and the only occurrence of its item"         site: item kind : expected value
"""
import random
import spydrnet as sdn
from spydrnet.util.hierarchical_reference import HRef
from spydrnet.ir import Instance, Port, Cable, Wire, InnerPin, OuterPin
import designs, oracles, irlib, bcommon
from oracles import _ids as ids

Q = {'hinstances': sdn.get_hinstances, 'hports': sdn.get_hports, 'hpins': sdn.get_hpins, 'hcables': sdn.get_hcables, 'hwires': sdn.get_hwires}
ITEMS = {'hports': 'ports', 'hpins': 'pins', 'hcables': 'cables', 'hwires': 'wires'}


def show(seq):
    return '/'.join((x.name if getattr(x, 'name', None) is not None else type(x).__name__[0].lower() + '?') if not isinstance(x, (Wire, InnerPin)) else
                    ('[%s]' % (oracles.pos_of(list(x.cable.wires), x) if isinstance(x, Wire) and x.cable is not None else
                               oracles.pos_of(list(x.port.pins), x) if isinstance(x, InnerPin) and x.port is not None else '?')) for x in seq)


def ask(f, check, site, fn, expected):
    res = f.guarded('C11.raises', site, lambda: list(fn()))
    if res is None:
        return None
    got = [oracles.href_seq(h) for h in res]
    gi = [ids(s) for s in got]
    ei = {ids(s): s for s in expected}
    f.check(len(gi) == len(set(gi)), 'C11.dup', site, '%d results, %d distinct paths' % (len(gi), len(set(gi))))
    missing = [show(s) for k, s in ei.items() if k not in set(gi)]
    extra = [show(s) for k, s in zip(gi, got) if k not in ei]
    f.check(not missing and not extra, check, site, 'expected %d occurrences, got %d; missing %r extra %r' % (len(ei), len(set(gi)), missing[:3], extra[:3]))
    return res


def expected_within(occ, path, q, recursive):
    """items of kind q inside occurrence path (and, when recursive, inside everything below it)."""
    if q == 'hinstances':
        return occ.below(path, recursive)
    out = list(occ.items_in(path, ITEMS[q]))
    if recursive:
        for p in occ.below(path, True):
            out += occ.items_in(p, ITEMS[q])
    return out


def kind_of_seq(s):
    x = s[-1]
    return 'instance' if isinstance(x, Instance) else 'port' if isinstance(x, Port) else 'cable' if isinstance(x, Cable) else \
        'wire' if isinstance(x, Wire) else 'pin'


def all_paths(occ):
    return {'instance': occ.inst, 'port': occ.ports, 'pin': occ.pins, 'cable': occ.cables, 'wire': occ.wires}


def enumeration_case(ad, f, r):
    n = designs.build_api(ad)
    occ = oracles.Occ(n)
    top = (n.top_instance,)
    keep = []     # hold every reference alive: canonicity is only promised while one is alive
    # ---- A. netlist root
    for q, fn in Q.items():
        for rec in (False, True):
            res = ask(f, 'C11.enum', 'get_%s(netlist,recursive=%s)' % (q, rec), lambda: fn(n, recursive=rec), expected_within(occ, top, q, rec))
            keep.append(res)
    # ---- B. hierarchical-instance roots
    roots = list(occ.inst)
    r.shuffle(roots)
    for path in roots[:10]:
        h = HRef.from_sequence(list(path))
        keep.append(h)
        for q, fn in Q.items():
            for rec in (False, True):
                ask(f, 'C11.enum', 'get_%s(href-instance,recursive=%s)' % (q, rec), lambda: fn(h, recursive=rec), expected_within(occ, path, q, rec))
    # ---- C. occurrences of a given element
    defs = [d for l in n.libraries for d in l.definitions]

    def pick(lst, k=4):
        lst = list(lst)
        r.shuffle(lst)
        return lst[:k]
    for i in pick([i for d in defs for i in d.children] + [n.top_instance], 5):
        ask(f, 'C11.occurrences', 'get_hinstances(instance)', lambda: sdn.get_hinstances(i), [p for p in occ.inst if p[-1] is i])
    for d in pick(defs, 5):
        ask(f, 'C11.occurrences', 'get_hinstances(definition)', lambda: sdn.get_hinstances(d), [p for p in occ.inst if p[-1].reference is d])
    for l in n.libraries:
        ask(f, 'C11.occurrences', 'get_hinstances(library)', lambda: sdn.get_hinstances(l),
            [p for p in occ.inst if any(p[-1].reference is d for d in l.definitions)])
    for x in pick([p for d in defs for p in d.ports]):
        ask(f, 'C11.occurrences', 'get_hports(port)', lambda: sdn.get_hports(x), [p for p in occ.ports if p[-1] is x])
        ask(f, 'C11.assoc', 'get_hpins(port)', lambda: sdn.get_hpins(x), [p for p in occ.pins if p[-2] is x])
        ask(f, 'C11.assoc', 'get_hinstances(port)', lambda: sdn.get_hinstances(x), [p for p in occ.inst if p[-1].reference is x.definition])
    for x in pick([q for d in defs for p in d.ports for q in p.pins]):
        ask(f, 'C11.occurrences', 'get_hpins(inner-pin)', lambda: sdn.get_hpins(x), [p for p in occ.pins if p[-1] is x])
        ask(f, 'C11.assoc', 'get_hports(inner-pin)', lambda: sdn.get_hports(x), [p for p in occ.ports if p[-1] is x.port])
    for x in pick([o for d in defs for i in d.children for o in i.pins]):
        ask(f, 'C11.occurrences', 'get_hpins(outer-pin)', lambda: sdn.get_hpins(x),
            [p for p in occ.pins if p[-1] is x.inner_pin and p[-3] is x.instance])
    for x in pick([c for d in defs for c in d.cables]):
        ask(f, 'C11.occurrences', 'get_hcables(cable)', lambda: sdn.get_hcables(x), [p for p in occ.cables if p[-1] is x])
        ask(f, 'C11.assoc', 'get_hwires(cable)', lambda: sdn.get_hwires(x), [p for p in occ.wires if p[-2] is x])
    for x in pick([w for d in defs for c in d.cables for w in c.wires]):
        ask(f, 'C11.occurrences', 'get_hwires(wire)', lambda: sdn.get_hwires(x), [p for p in occ.wires if p[-1] is x])
        ask(f, 'C11.assoc', 'get_hcables(wire)', lambda: sdn.get_hcables(x), [p for p in occ.cables if p[-1] is x.cable])
    # ---- D. containment across kinds: items inside all occurrences of a definition / instance / library
    for q in ('hports', 'hpins', 'hcables', 'hwires'):
        for rec in (False, True):
            for d in pick(defs, 3):
                exp = []
                for p in occ.inst:
                    if p[-1].reference is d:
                        exp += expected_within(occ, p, q, rec)
                ask(f, 'C11.assoc', 'get_%s(definition,recursive=%s)' % (q, rec), lambda: Q[q](d, recursive=rec), _dedupe(exp))
            for i in pick([i for d in defs for i in d.children], 3):
                exp = []
                for p in occ.inst:
                    if p[-1] is i:
                        exp += expected_within(occ, p, q, rec)
                ask(f, 'C11.assoc', 'get_%s(instance,recursive=%s)' % (q, rec), lambda: Q[q](i, recursive=rec), _dedupe(exp))
        for l in pick(list(n.libraries), 2):
            exp = []
            for p in occ.inst:
                if any(p[-1].reference is d for d in l.definitions):
                    exp += expected_within(occ, p, q, False)
            ask(f, 'C11.assoc', 'get_%s(library)' % q, lambda: Q[q](l), _dedupe(exp))
    # bundle <-> member, enclosing instance (hierarchical roots)
    for s in pick(occ.ports, 3):
        h = HRef.from_sequence(list(s)); keep.append(h)
        ask(f, 'C11.assoc', 'get_hpins(href-port)', lambda: sdn.get_hpins(h), [p for p in occ.pins if ids(p[:-1]) == ids(s)])
        ask(f, 'C11.assoc', 'get_hports(href-port)', lambda: sdn.get_hports(h), [s])
        ask(f, 'C11.assoc', 'get_hinstances(href-port)', lambda: sdn.get_hinstances(h), [s[:-1]])
    for s in pick(occ.pins, 3):
        h = HRef.from_sequence(list(s)); keep.append(h)
        ask(f, 'C11.assoc', 'get_hports(href-pin)', lambda: sdn.get_hports(h), [s[:-1]])
        ask(f, 'C11.assoc', 'get_hpins(href-pin)', lambda: sdn.get_hpins(h), [s])
        ask(f, 'C11.assoc', 'get_hinstances(href-pin)', lambda: sdn.get_hinstances(h), [s[:-2]])
    for s in pick(occ.cables, 3):
        h = HRef.from_sequence(list(s)); keep.append(h)
        ask(f, 'C11.assoc', 'get_hwires(href-cable)', lambda: sdn.get_hwires(h), [p for p in occ.wires if ids(p[:-1]) == ids(s)])
        ask(f, 'C11.assoc', 'get_hcables(href-cable)', lambda: sdn.get_hcables(h), [s])
        ask(f, 'C11.assoc', 'get_hinstances(href-cable)', lambda: sdn.get_hinstances(h), [s[:-1]])
    for s in pick(occ.wires, 3):
        h = HRef.from_sequence(list(s)); keep.append(h)
        ask(f, 'C11.assoc', 'get_hcables(href-wire)', lambda: sdn.get_hcables(h), [s[:-1]])
        ask(f, 'C11.assoc', 'get_hwires(href-wire)', lambda: sdn.get_hwires(h), [s])
        ask(f, 'C11.assoc', 'get_hinstances(href-wire)', lambda: sdn.get_hinstances(h), [s[:-2]])
    # ---- E. validity and names of everything enumerated from the netlist
    everything = collect(n)
    for kind, hs in everything.items():
        bad_v = [h for h in hs if h.is_valid is not True]
        f.check(not bad_v, 'C11.valid', kind, '%d of %d references report invalid, e.g. %s' % (len(bad_v), len(hs), show(oracles.href_seq(bad_v[0])) if bad_v else ''))
        bad_n = [(h.name, oracles.expected_name(oracles.href_seq(h))) for h in hs if h.name != oracles.expected_name(oracles.href_seq(h))]
        f.check(not bad_n, 'C11.name', kind, '%d names differ, e.g. HRef.name %r, expected %r' % (len(bad_n), bad_n[0][0] if bad_n else '', bad_n[0][1] if bad_n else ''))
    # ---- F. canonical objects
    again = collect(n)
    for kind in everything:
        a = {ids(oracles.href_seq(h)): h for h in everything[kind]}
        b = {ids(oracles.href_seq(h)): h for h in again[kind]}
        same = all(a[k] is b[k] for k in a if k in b)
        f.check(same, 'C11.canonical', 'query-twice:' + kind, 'the same path came back as two different objects')
        eq = all(a[k] == b[k] and hash(a[k]) == hash(b[k]) for k in a if k in b)
        f.check(eq, 'C11.canonical', 'eq-hash:' + kind, 'references to one path are unequal or hash differently')
        hs = everything[kind][:40]
        f.check(all(HRef.from_sequence(list(oracles.href_seq(h))) is h for h in hs), 'C11.canonical', 'from_sequence:' + kind,
                'HRef.from_sequence(path) is not the reference the query returned')
        f.check(all(HRef.from_parent_and_item(h.parent, h.item) is h for h in hs), 'C11.canonical', 'from_parent_and_item:' + kind,
                'HRef.from_parent_and_item(parent, item) is not the reference the query returned')
    # distinct paths are distinct references
    allh = [h for hs in everything.values() for h in hs]
    f.check(len(set(id(h) for h in allh)) == len(set(ids(oracles.href_seq(h)) for h in allh)), 'C11.canonical', 'distinct-paths',
            'two different paths share one reference object')
    uniq_check(f, 'no-edit', everything, oracles.Occ(n))


def _dedupe(seqs):
    seen, out = set(), []
    for s in seqs:
        k = ids(s)
        if k not in seen:
            seen.add(k)
            out.append(s)
    return out


def collect(n):
    out = {}
    out['instance'] = [HRef.from_parent_and_item(None, n.top_instance)] + list(sdn.get_hinstances(n, recursive=True))
    out['port'] = list(sdn.get_hports(n, recursive=True))
    out['pin'] = list(sdn.get_hpins(n, recursive=True))
    out['cable'] = list(sdn.get_hcables(n, recursive=True))
    out['wire'] = list(sdn.get_hwires(n, recursive=True))
    return out


def uniq_check(f, edit, held, occ_now):
    """is_valid / is_unique of held references against the current netlist."""
    paths = all_paths(occ_now)
    for kind, hs in held.items():
        now = set(ids(p) for p in paths[kind])
        count = {}
        for p in paths[kind]:
            count[id(p[-1])] = count.get(id(p[-1]), 0) + 1
        for want in (True, False):
            bad = []
            n_eval = 0
            for h in hs:
                s = oracles.href_seq(h)
                v = ids(s) in now
                if v != want:
                    continue
                n_eval += 1
                if h.is_valid is not v:
                    bad.append(s)
            if n_eval:
                f.check(not bad, 'C11.is_valid', '%s:expected-%s' % (kind, want),
                        'after %s: %d of %d references report is_valid=%s, the path %s in the netlist, e.g. %s' % (
                            edit, len(bad), n_eval, not want, 'exists' if want else 'no longer exists', show(bad[0]) if bad else ''),
                        edit=edit)
        for want in (True, False):
            bad = []
            n_eval = 0
            for h in hs:
                s = oracles.href_seq(h)
                u = ids(s) in now and count.get(id(s[-1]), 0) == 1
                if u != want:
                    continue
                n_eval += 1
                got = f.guarded('C11.raises', 'is_unique', lambda: h.is_unique)
                if got is not u:
                    bad.append((s, count.get(id(s[-1]), 0)))
            if n_eval:
                f.check(not bad, 'C11.is_unique', '%s:expected-%s' % (kind, want),
                        'after %s: %d of %d references report is_unique=%s, e.g. %s whose item occurs %s time(s)' % (
                            edit, len(bad), n_eval, not want, show(bad[0][0]) if bad else '', bad[0][1] if bad else ''),
                        edit=edit)


EDITS = ('remove_child', 'remove_cable', 'remove_wire', 'remove_port', 'remove_pin', 'dereference', 'top_none', 'top_other', 'add_instance', 'move_child')


def edit_case(ad, f, r, edit):
    n = designs.build_api(ad)
    held = collect(n)
    occ0 = oracles.Occ(n)
    reach_defs = _dedupe([(p[-1].reference,) for p in occ0.inst if p[-1].reference is not None])
    reach_defs = [d[0] for d in reach_defs]
    r.shuffle(reach_defs)
    done = False
    try:
        if edit == 'remove_child':
            for d in reach_defs:
                if d.children:
                    d.remove_child(r.choice(list(d.children))); done = True; break
        elif edit == 'remove_cable':
            for d in reach_defs:
                if d.cables:
                    d.remove_cable(r.choice(list(d.cables))); done = True; break
        elif edit == 'remove_wire':
            for d in reach_defs:
                cs = [c for c in d.cables if len(c.wires) > 0]
                if cs:
                    c = r.choice(cs); c.remove_wire(r.choice(list(c.wires))); done = True; break
        elif edit == 'remove_port':
            for d in reach_defs:
                if d.ports:
                    d.remove_port(r.choice(list(d.ports))); done = True; break
        elif edit == 'remove_pin':
            for d in reach_defs:
                ps = [p for p in d.ports if len(p.pins) > 1]
                if ps:
                    p = r.choice(ps); p.remove_pin(r.choice(list(p.pins))); done = True; break
        elif edit == 'dereference':
            for d in reach_defs:
                if d.children:
                    r.choice(list(d.children)).reference = None; done = True; break
        elif edit == 'top_none':
            n.top_instance = None; done = True
        elif edit == 'top_other':
            cands = [p[-1] for p in occ0.inst[1:]]
            if cands:
                n.top_instance = r.choice(cands); done = True
        elif edit == 'add_instance':
            for d in reach_defs:
                targets = [x for x in reach_defs if x is not d and not _reaches(x, d)]
                if targets:
                    d.create_child('c11_extra', reference=r.choice(targets)); done = True; break
        elif edit == 'move_child':
            for d in reach_defs:
                if d.children:
                    i = r.choice(list(d.children))
                    others = [x for x in reach_defs if x is not d and (i.reference is None or not _reaches(i.reference, x)) and x is not i.reference]
                    if others:
                        d.remove_child(i)
                        i.name = 'c11_moved'
                        r.choice(others).add_child(i); done = True; break
    except Exception as e:
        f.stats['edit_refused'] += 1
        return
    if not done:
        f.stats['edit_not_applicable'] += 1
        return
    f.stats['edits'] += 1
    uniq_check(f, edit, held, oracles.Occ(n))


def _reaches(a, b):
    """definition a instantiates (transitively) definition b, or a is b"""
    stack, seen = [a], set()
    while stack:
        d = stack.pop()
        if d is b:
            return True
        if id(d) in seen:
            continue
        seen.add(id(d))
        stack += [i.reference for i in d.children if i.reference is not None]
    return False


def case(ad, f):
    seed = int(designs.ad_hash(ad), 16) % (2 ** 31)
    r = random.Random(seed)
    enumeration_case(ad, f, r)
    micro = 'micro' in (ad.get('meta') or {})
    for e in EDITS:
        if micro and e in ('top_other', 'move_child', 'remove_pin'):
            continue
        edit_case(ad, f, random.Random(seed + 1 + EDITS.index(e)), e)


def profile_for(seed):
    return ('wild', 'named', 'plain')[seed % 3]


def nontrivial(ad, feats):
    return feats['shared_nonleaf_paths'] >= 1 and feats['depth'] >= 2


if __name__ == '__main__':
    bcommon.main(case, profile_for, nontrivial)
