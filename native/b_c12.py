"""Bounded stand-in for C12: get_hwires / get_hcables / get_hpins with a selection, from every hierarchical start point,
versus the equivalence classes of the independent union-find over hierarchical wires (oracles.Occ.nets).

  C12.raises     a query raised                                                                  site: query : exception @ function
  C12.all        selection=ALL from a hierarchical wire / cable / pin / port is not exactly the electrically connected net
                                                                                                  site: get_hwires(href-<kind>) | get_hcables(href-<kind>)
  C12.inside     selection=INSIDE from a hierarchical pin (port: union over its pins) is not exactly the wire attached inside
  C12.outside    selection=OUTSIDE ... not exactly the wire attached outside                      site: as above
  C12.pins       get_hpins(hierarchical wire) is not exactly the port pins and sub-instance pins attached to it   site: get_hpins(href-wire)
  C12.dup        a result lists the same path twice                                               site: as above
Sites carry the suffix [top-instance-is-a-child] when the netlist's top instance is itself a child of another definition
(nothing above the top instance belongs to the hierarchical design, so nothing is expected from there).
"""
import random
import spydrnet as sdn
from spydrnet.util.hierarchical_reference import HRef
from spydrnet.util.selection import Selection
from spydrnet.ir import OuterPin
import designs, oracles, bcommon
from oracles import _ids as ids
from b_c11 import show


TOP_IS_CHILD = [False]


def ask(f, check, site, fn, expected, **params):
    if TOP_IS_CHILD[0]:
        site += '[top-instance-is-a-child]'
    res = f.guarded('C12.raises', site, lambda: list(fn()))
    if res is None:
        return
    got = [oracles.href_seq(h) for h in res]
    gi = [ids(s) for s in got]
    ei = {ids(s): s for s in expected}
    f.check(len(gi) == len(set(gi)), 'C12.dup', site, '%d results, %d distinct paths' % (len(gi), len(set(gi))))
    missing = [show(s) for k, s in ei.items() if k not in set(gi)]
    extra = [show(s) for k, s in zip(gi, got) if k not in ei]
    f.check(not missing and not extra, check, site, '%s: expected %d, got %d; missing %r extra %r' % (
        params.get('start', ''), len(ei), len(set(gi)), missing[:3], extra[:3]))


def case(ad, f):
    seed = int(designs.ad_hash(ad), 16) % (2 ** 31)
    r = random.Random(seed)
    n = designs.build_api(ad)
    occ = oracles.Occ(n)
    TOP_IS_CHILD[0] = n.top_instance is not None and n.top_instance.parent is not None
    uf, inside, outside = occ.nets()
    classes = {}
    for hw in occ.wires:
        classes.setdefault(uf.find(ids(hw)), []).append(hw)

    def cls(hw):
        return classes[uf.find(ids(hw))] if hw is not None else []

    def union(lists):
        seen, out = set(), []
        for l in lists:
            for s in l:
                if ids(s) not in seen:
                    seen.add(ids(s))
                    out.append(s)
        return out

    def cables(hws):
        return union([[s[:-1] for s in hws]])
    f.stats['hwires'] += len(occ.wires)
    f.stats['nets_multi_level'] += sum(1 for c in classes.values() if len(set(len(s) for s in c)) > 1)
    keep = []

    def pick(lst, k):
        lst = list(lst)
        r.shuffle(lst)
        return lst[:k]
    K = 40
    # ---- hierarchical wires
    for s in pick(occ.wires, K):
        h = HRef.from_sequence(list(s)); keep.append(h)
        st = show(s)
        ask(f, 'C12.all', 'get_hwires(href-wire)', lambda: sdn.get_hwires(h, selection=Selection.ALL), cls(s), start=st)
        ask(f, 'C12.all', 'get_hcables(href-wire)', lambda: sdn.get_hcables(h, selection=Selection.ALL), cables(cls(s)), start=st)
        exp = []
        for pin in s[-1].pins:
            if isinstance(pin, OuterPin):
                exp.append(s[:-2] + (pin.instance, pin.inner_pin.port, pin.inner_pin))
            else:
                exp.append(s[:-2] + (pin.port, pin))
        ask(f, 'C12.pins', 'get_hpins(href-wire)', lambda: sdn.get_hpins(h), exp, start=st)
    # ---- hierarchical pins
    for s in pick(occ.pins, K):
        h = HRef.from_sequence(list(s)); keep.append(h)
        st = show(s)
        hin, hout = inside[ids(s)], outside[ids(s)]
        ask(f, 'C12.all', 'get_hwires(href-pin)', lambda: sdn.get_hwires(h, selection=Selection.ALL), union([cls(hin), cls(hout)]), start=st)
        ask(f, 'C12.all', 'get_hcables(href-pin)', lambda: sdn.get_hcables(h, selection=Selection.ALL), cables(union([cls(hin), cls(hout)])), start=st)
        ask(f, 'C12.inside', 'get_hwires(href-pin)', lambda: sdn.get_hwires(h, selection=Selection.INSIDE), [hin] if hin else [], start=st)
        ask(f, 'C12.outside', 'get_hwires(href-pin)', lambda: sdn.get_hwires(h, selection=Selection.OUTSIDE), [hout] if hout else [], start=st)
        ask(f, 'C12.inside', 'get_hcables(href-pin)', lambda: sdn.get_hcables(h, selection=Selection.INSIDE), [hin[:-1]] if hin else [], start=st)
        ask(f, 'C12.outside', 'get_hcables(href-pin)', lambda: sdn.get_hcables(h, selection=Selection.OUTSIDE), [hout[:-1]] if hout else [], start=st)
    # ---- hierarchical cables
    for s in pick(occ.cables, K // 2):
        h = HRef.from_sequence(list(s)); keep.append(h)
        st = show(s)
        ws = [s + (w,) for w in s[-1].wires]
        ask(f, 'C12.all', 'get_hwires(href-cable)', lambda: sdn.get_hwires(h, selection=Selection.ALL), union([cls(w) for w in ws]), start=st)
        ask(f, 'C12.all', 'get_hcables(href-cable)', lambda: sdn.get_hcables(h, selection=Selection.ALL), cables(union([cls(w) for w in ws])), start=st)
    # ---- hierarchical ports
    for s in pick(occ.ports, K // 2):
        h = HRef.from_sequence(list(s)); keep.append(h)
        st = show(s)
        ps = [s + (q,) for q in s[-1].pins]
        allw = union([cls(inside[ids(p)]) for p in ps] + [cls(outside[ids(p)]) for p in ps])
        ask(f, 'C12.all', 'get_hwires(href-port)', lambda: sdn.get_hwires(h, selection=Selection.ALL), allw, start=st)
        ask(f, 'C12.all', 'get_hcables(href-port)', lambda: sdn.get_hcables(h, selection=Selection.ALL), cables(allw), start=st)
        ins = union([[inside[ids(p)]] for p in ps if inside[ids(p)]])
        outs = union([[outside[ids(p)]] for p in ps if outside[ids(p)]])
        ask(f, 'C12.inside', 'get_hwires(href-port)', lambda: sdn.get_hwires(h, selection=Selection.INSIDE), ins, start=st)
        ask(f, 'C12.outside', 'get_hwires(href-port)', lambda: sdn.get_hwires(h, selection=Selection.OUTSIDE), outs, start=st)


def profile_for(seed):
    return ('named', 'plain', 'wild')[seed % 3]


def nontrivial(ad, feats):
    return feats['crossing'] >= 1 and feats['depth'] >= 2


if __name__ == '__main__':
    bcommon.main(case, profile_for, nontrivial)
