"""Bounded stand-in for C20: spydrnet.compare Comparer(n, copy).compare() on generated, fully named designs.

  C20.accept   compare() raised for a faithful copy                      site: clone | independent-build | write-read-edif | write-read-verilog
               (+ ':' exception type @ raising function)
  C20.reject   compare() returned normally for a copy with exactly one structural mutation      site: mutation name
Faithful copies: Netlist.clone(); a second build of the same abstract design; write-then-read of a netlist in its own format
(the netlist is first read from that format: n1 = parse(compose(build)), n2 = parse(compose(n1)), compare(n1, n2)); a
write-then-read pair whose independent canon (order-free, connectivity and shapes) differs is not a faithful copy and is
skipped and counted (that is C03/C04's subject, not the comparer's).
Mutated copies are built from a mutated abstract design, so every mutation is well-formed and is the only difference.
"""
import os, sys, copy, random, shutil, signal, tempfile, atexit
import spydrnet as sdn
from spydrnet.compare.compare_netlists import Comparer
import designs, oracles, bcommon

TMP = [None]


def tmpdir():
    if TMP[0] is None:
        TMP[0] = tempfile.mkdtemp(prefix='verif_c20_')
        atexit.register(lambda: shutil.rmtree(TMP[0], ignore_errors=True))
    return TMP[0]


class Timeout(Exception):
    pass


def _alarm(*a):
    raise Timeout()


def compare(a, b):
    """None if compare() returns, else 'ExceptionType@function: message'."""
    devnull = open(os.devnull, 'w')
    old = sys.stdout
    sys.stdout = devnull            # the comparer prints warnings for unnamed elements
    try:
        Comparer(a, b).compare()
        return None
    except BaseException as e:
        if isinstance(e, (KeyboardInterrupt, SystemExit, Timeout)):
            raise
        import traceback
        tb = traceback.extract_tb(sys.exc_info()[2])
        fn = '?'
        for fr in reversed(tb):
            if '/spydrnet/' in fr.filename:
                fn = fr.name
                break
        return '%s@%s: %s' % (type(e).__name__, fn, str(e)[:120])
    finally:
        sys.stdout = old
        devnull.close()


# ------------------------------------------------------------------------------------------------ mutations of an AD
def _defs(ad):
    return [(L, d) for L in ad['libraries'] for d in L['definitions']]


def _used_pins(d):
    return set(tuple(ep) for n in d['nets'] for ep in n['endpoints'])


def _inst_pin_bits(ad, d):
    db = designs.defs_by_name(ad)
    out = []
    for i in d['instances']:
        for p in db[tuple(i['ref'])]['ports']:
            for k in range(p['width']):
                out.append(('inst', i['name'], p['name'], p['base'] + k))
    return out


def _port_pin_bits(d):
    return [('port', p['name'], p['base'] + k) for p in d['ports'] for k in range(p['width'])]


def _drop_endpoints(ad, pred_own, dkey=None, pred_parent=None):
    """remove endpoints: pred_own(ep) in definition dkey, pred_parent(inst, ep) in every definition for instance endpoints"""
    for L, d in _defs(ad):
        for n in d['nets']:
            keep = []
            for ep in n['endpoints']:
                if dkey == (L['name'], d['name']) and pred_own is not None and pred_own(ep):
                    continue
                if pred_parent is not None and ep[0] == 'inst':
                    inst = [i for i in d['instances'] if i['name'] == ep[1]][0]
                    if pred_parent(inst, ep):
                        continue
                keep.append(ep)
            n['endpoints'] = keep
        d['nets'] = [n for n in d['nets'] if n['endpoints']]


def mutate(ad0, kind, r):
    """Returns a mutated deep copy, or None when the design offers no place for this mutation."""
    ad = copy.deepcopy(ad0)
    ds = _defs(ad)
    r.shuffle(ds)
    db = designs.defs_by_name(ad)
    if kind == 'port-direction':
        for L, d in ds:
            if d['ports']:
                p = r.choice(d['ports'])
                p['direction'] = r.choice([x for x in designs.DIRS + ('UNDEFINED',) if x != p['direction']])
                return ad
    elif kind == 'port-width-plus':
        for L, d in ds:
            if d['ports']:
                p = r.choice(d['ports'])
                p['width'] += 1
                return ad
    elif kind == 'port-width-minus':
        for L, d in ds:
            ps = [p for p in d['ports'] if p['width'] > 2]       # stays an array: only the width changes
            if ps:
                p = r.choice(ps)
                p['width'] -= 1
                gone = p['base'] + p['width']
                _drop_endpoints(ad, lambda ep: ep[0] == 'port' and ep[1] == p['name'] and ep[2] == gone, (L['name'], d['name']),
                                lambda inst, ep: inst['ref'] == [L['name'], d['name']] and ep[2] == p['name'] and ep[3] == gone)
                return ad
    elif kind == 'port-arrayness':
        for L, d in ds:
            ps = [p for p in d['ports'] if p['width'] == 1]
            if ps:
                p = r.choice(ps)
                if p.get('array'):
                    p.pop('array')
                    if p['base'] != 0:
                        old = p['base']
                        p['base'] = 0
                        for L2, d2 in _defs(ad):
                            for n in d2['nets']:
                                for ep in n['endpoints']:
                                    if d2 is d and ep[0] == 'port' and ep[1] == p['name']:
                                        ep[2] = 0
                                    if ep[0] == 'inst' and [i for i in d2['instances'] if i['name'] == ep[1]][0]['ref'] == [L['name'], d['name']] and ep[2] == p['name']:
                                        ep[3] = 0
                else:
                    p['array'] = True
                return ad
    elif kind == 'cable-width-plus':
        for L, d in ds:
            if d['cables']:
                c = r.choice(d['cables'])
                c['width'] += 1
                return ad
    elif kind == 'cable-width-minus':
        for L, d in ds:
            cs = [c for c in d['cables'] if c['width'] > 2]
            if cs:
                c = r.choice(cs)
                c['width'] -= 1
                gone = c['base'] + c['width']
                d['nets'] = [n for n in d['nets'] if not (n['cable'] == c['name'] and n['bit'] == gone)]
                return ad
    elif kind in ('move-inst-pin-to-other-instance', 'move-inst-pin-to-other-port', 'move-inst-pin-to-other-bit',
                  'move-port-pin-to-other-port', 'move-port-pin-to-other-bit'):
        for L, d in ds:
            used = _used_pins(d)
            cands = []
            allpins = _inst_pin_bits(ad, d) + _port_pin_bits(d)
            for n in d['nets']:
                for k, ep in enumerate(n['endpoints']):
                    ep = tuple(ep)
                    for q in allpins:
                        if q in used or q[0] != ep[0]:
                            continue
                        if ep[0] == 'inst':
                            same_def = [i for i in d['instances'] if i['name'] == ep[1]][0]['ref'] == [i for i in d['instances'] if i['name'] == q[1]][0]['ref']
                            if kind == 'move-inst-pin-to-other-instance' and q[1] != ep[1] and q[2:] == ep[2:] and same_def:
                                cands.append((n, k, q))
                            if kind == 'move-inst-pin-to-other-port' and q[1] == ep[1] and q[2] != ep[2]:
                                cands.append((n, k, q))
                            if kind == 'move-inst-pin-to-other-bit' and q[1] == ep[1] and q[2] == ep[2] and q[3] != ep[3]:
                                cands.append((n, k, q))
                        else:
                            if kind == 'move-port-pin-to-other-port' and q[1] != ep[1]:
                                cands.append((n, k, q))
                            if kind == 'move-port-pin-to-other-bit' and q[1] == ep[1] and q[2] != ep[2]:
                                cands.append((n, k, q))
            if cands:
                n, k, q = r.choice(cands)
                n['endpoints'][k] = list(q)
                return ad
    elif kind == 'move-endpoint-to-other-wire':
        for L, d in ds:
            wires = [(c['name'], c['base'] + k) for c in d['cables'] for k in range(c['width'])]
            if d['nets'] and len(wires) > 1:
                n = r.choice(d['nets'])
                ep = n['endpoints'].pop(r.randrange(len(n['endpoints'])))
                w = r.choice([w for w in wires if w != (n['cable'], n['bit'])])
                tgt = [m for m in d['nets'] if (m['cable'], m['bit']) == w]
                if tgt:
                    tgt[0]['endpoints'].append(ep)
                else:
                    d['nets'].append({'cable': w[0], 'bit': w[1], 'endpoints': [ep]})
                d['nets'] = [m for m in d['nets'] if m['endpoints']]
                return ad
    elif kind == 'drop-connection':
        for L, d in ds:
            if d['nets']:
                n = r.choice(d['nets'])
                n['endpoints'].pop(r.randrange(len(n['endpoints'])))
                d['nets'] = [m for m in d['nets'] if m['endpoints']]
                return ad
    elif kind == 'add-connection':
        for L, d in ds:
            free = [q for q in _inst_pin_bits(ad, d) + _port_pin_bits(d) if q not in _used_pins(d)]
            wires = [(c['name'], c['base'] + k) for c in d['cables'] for k in range(c['width'])]
            if free and wires:
                q = r.choice(free)
                w = r.choice(wires)
                tgt = [m for m in d['nets'] if (m['cable'], m['bit']) == w]
                if tgt:
                    tgt[0]['endpoints'].append(list(q))
                else:
                    d['nets'].append({'cable': w[0], 'bit': w[1], 'endpoints': [list(q)]})
                return ad
    elif kind == 'repoint-instance':
        for L, d in ds:
            for i in d['instances']:
                src = db[tuple(i['ref'])]
                twins = [(L2['name'], d2['name']) for L2, d2 in _defs(ad) if d2 is not src and d2 is not d and
                         [(p['name'], p['width'], p['base']) for p in d2['ports']] == [(p['name'], p['width'], p['base']) for p in src['ports']] and
                         designs.is_leaf_def(d2) == designs.is_leaf_def(src) and designs.is_leaf_def(d2)]
                if twins:
                    i['ref'] = list(r.choice(twins))
                    return ad
    elif kind in ('property-value', 'property-removed', 'property-added-to-copy', 'properties-dropped'):
        for L, d in ds:
            with_p = [i for i in d['instances'] if i['properties'].get('EDIF.properties')]
            if kind == 'property-added-to-copy':
                if with_p:
                    r.choice(with_p)['properties']['EDIF.properties'].append({'identifier': 'ADDED', 'value': 'x'})
                    return ad
            elif with_p:
                i = r.choice(with_p)
                if kind == 'property-value':
                    i['properties']['EDIF.properties'][0]['value'] = 'changed'
                elif kind == 'property-removed':
                    i['properties']['EDIF.properties'].pop()
                    if not i['properties']['EDIF.properties']:
                        return _retry_nonempty(ad0, r)
                else:
                    del i['properties']['EDIF.properties']
                return ad
    elif kind == 'properties-added-to-copy-where-none':
        for L, d in ds:
            without = [i for i in d['instances'] if not i['properties'].get('EDIF.properties')]
            if without:
                r.choice(without)['properties']['EDIF.properties'] = [{'identifier': 'ADDED', 'value': 'x'}]
                return ad
    elif kind == 'library-added':
        ad['libraries'].append({'name': 'extra_lib', 'definitions': []})
        return ad
    elif kind == 'library-dropped':
        used = set(i['ref'][0] for L, d in ds for i in d['instances']) | {ad['top'][0]}
        for L in ad['libraries']:
            if L['name'] not in used:
                ad['libraries'].remove(L)
                return ad
    elif kind == 'definition-added':
        L = r.choice(ad['libraries'])
        L['definitions'].append({'name': 'extra_def', 'ports': [], 'cables': [], 'instances': [], 'nets': []})
        return ad
    elif kind == 'definition-dropped':
        used = set(tuple(i['ref']) for L, d in ds for i in d['instances']) | {tuple(ad['top'])}
        if ad.get('top_child'):
            used.add(tuple(ad['top_child'][:2]))
        for L, d in ds:
            if (L['name'], d['name']) not in used:
                L['definitions'].remove(d)
                return ad
    elif kind == 'port-added':
        L, d = ds[0]
        d['ports'].append({'name': 'extra_port', 'direction': 'IN', 'width': 1, 'base': 0, 'downto': True})
        return ad
    elif kind == 'port-dropped':
        for L, d in ds:
            if d['ports']:
                p = r.choice(d['ports'])
                d['ports'].remove(p)
                _drop_endpoints(ad, lambda ep: ep[0] == 'port' and ep[1] == p['name'], (L['name'], d['name']),
                                lambda inst, ep: inst['ref'] == [L['name'], d['name']] and ep[2] == p['name'])
                return ad
    elif kind == 'cable-added':
        for L, d in ds:
            if not designs.is_leaf_def(d):
                d['cables'].append({'name': 'extra_cable', 'width': 1, 'base': 0})
                return ad
    elif kind == 'cable-added-to-leaf':
        for L, d in ds:
            if designs.is_leaf_def(d):
                d['cables'].append({'name': 'extra_cable', 'width': 1, 'base': 0})
                return ad
    elif kind == 'instance-added-to-leaf':
        leaves = [(L2['name'], d2['name'], d2) for L2, d2 in _defs(ad) if designs.is_leaf_def(d2)]
        if len(leaves) >= 2:
            (l1, n1, d1), (l2, n2, d2) = leaves[0], leaves[1]
            d2['instances'].append({'name': 'extra_inst', 'ref': [l1, n1], 'properties': {}})
            return ad
    elif kind == 'cable-dropped':
        for L, d in ds:
            if len(d['cables']) > 1 or (d['cables'] and d['instances']):
                c = r.choice(d['cables'])
                d['cables'].remove(c)
                d['nets'] = [n for n in d['nets'] if n['cable'] != c['name']]
                return ad
    elif kind == 'instance-added':
        leaves = [(L2['name'], d2['name']) for L2, d2 in _defs(ad) if designs.is_leaf_def(d2)]
        for L, d in ds:
            if not designs.is_leaf_def(d) and leaves:
                d['instances'].append({'name': 'extra_inst', 'ref': list(r.choice(leaves)), 'properties': {}})
                return ad
    elif kind == 'instance-dropped':
        for L, d in ds:
            if ad.get('top_child') and ad['top_child'][:2] == [L['name'], d['name']]:
                continue
            if len(d['instances']) > 1 or (d['instances'] and d['cables']):
                i = r.choice(d['instances'])
                d['instances'].remove(i)
                for n in d['nets']:
                    n['endpoints'] = [ep for ep in n['endpoints'] if not (ep[0] == 'inst' and ep[1] == i['name'])]
                d['nets'] = [n for n in d['nets'] if n['endpoints']]
                return ad
    return None


def _retry_nonempty(ad0, r):
    """property-removed on an instance with several properties (so that the key stays and only one entry goes)"""
    ad = copy.deepcopy(ad0)
    for L, d in _defs(ad):
        for i in d['instances']:
            ps = i['properties'].get('EDIF.properties')
            if ps and len(ps) > 1:
                ps.pop()
                return ad
    return None


MUTATIONS = ('port-direction', 'port-width-plus', 'port-width-minus', 'port-arrayness', 'cable-width-plus', 'cable-width-minus',
             'move-inst-pin-to-other-instance', 'move-inst-pin-to-other-port', 'move-inst-pin-to-other-bit',
             'move-port-pin-to-other-port', 'move-port-pin-to-other-bit', 'move-endpoint-to-other-wire', 'drop-connection', 'add-connection',
             'repoint-instance', 'property-value', 'property-removed', 'properties-dropped', 'property-added-to-copy', 'properties-added-to-copy-where-none',
             'library-added', 'library-dropped', 'definition-added', 'definition-dropped', 'port-added', 'port-dropped',
             'cable-added', 'cable-dropped', 'instance-added', 'instance-dropped', 'cable-added-to-leaf', 'instance-added-to-leaf')


# ------------------------------------------------------------------------------------------------ the case
def wtr(ad, f, ext, label):
    d = tmpdir()
    signal.signal(signal.SIGALRM, _alarm)
    src = designs.verilog_friendly(ad) if ext == '.v' else ad
    try:
        signal.alarm(20)
        try:
            n0 = designs.build_api(src)
            f1 = os.path.join(d, 'a' + ext)
            sdn.compose(n0, f1)
            n1 = sdn.parse(f1)
            f2 = os.path.join(d, 'b' + ext)
            sdn.compose(n1, f2)
            n2 = sdn.parse(f2)
        except Timeout:
            f.stats['wtr_skipped_timeout:' + label] += 1
            return
        except Exception as e:
            f.stats['wtr_skipped_writer_or_reader_raised:' + label] += 1
            return
        finally:
            signal.alarm(0)
    finally:
        signal.alarm(0)
    c1 = oracles.unordered(oracles.canon(n1, data=False))
    c2 = oracles.unordered(oracles.canon(n2, data=False))
    if c1 != c2:
        f.stats['wtr_skipped_unfaithful_roundtrip:' + label] += 1
        f.stats['note:' + label + ' ' + str(oracles.diff(c1, c2))[:80]] += 1
        return
    res = compare(n1, n2)
    f.stats['wtr_compared:' + label] += 1
    f.check(res is None, 'C20.accept', 'write-read-%s%s' % (label, (':' + res.split(':')[0]) if res else ''),
            'compare(parse(file), parse(compose(parse(file)))) raised %s although both have the same canon' % res, fmt=label)


def case(ad, f):
    seed = int(designs.ad_hash(ad), 16) % (2 ** 31)
    n = designs.build_api(ad)
    # ---- accept
    c = None
    try:
        c = n.clone()
    except Exception as e:
        f.stats['clone_raised'] += 1
    if c is not None:
        res = compare(n, c)
        f.check(res is None, 'C20.accept', 'clone' + ((':' + res.split(':')[0]) if res else ''), 'Comparer(n, n.clone()).compare() raised %s' % res)
    twin = designs.build_api(ad)
    res = compare(n, twin)
    base_ok = f.check(res is None, 'C20.accept', 'independent-build' + ((':' + res.split(':')[0]) if res else ''),
                      'Comparer(build(AD), build(AD)).compare() raised %s' % res)
    if (ad.get('meta') or {}).get('lib_dag') and 'micro' not in ad['meta']:
        wtr(ad, f, '.edf', 'edif')
        wtr(ad, f, '.v', 'verilog')
    # ---- reject
    if not base_ok:
        return
    for k, m in enumerate(MUTATIONS):
        ad2 = mutate(ad, m, random.Random(seed * 31 + k))
        if ad2 is None:
            f.stats['mutation_not_applicable'] += 1
            continue
        errs = designs.validate_ad(ad2)
        if errs:
            f.fail('HARNESS', 'mutation:' + m, 'mutated AD is not well-formed: %r' % errs[:2])
            continue
        if designs.ad_hash(dict(ad2, meta=None)) == designs.ad_hash(dict(ad, meta=None)):
            f.fail('HARNESS', 'mutation:' + m, 'mutation did not change the AD')
            continue
        try:
            n2 = designs.build_api(ad2)
        except Exception as e:
            f.fail('HARNESS', 'mutation-build:' + m, '%s: %s' % (type(e).__name__, e))
            continue
        res = compare(n, n2)
        f.stats['mutations'] += 1
        f.check(res is not None, 'C20.reject', m, 'compare() accepted a copy that differs by: %s' % m, mutation=m, mutation_seed=seed * 31 + k)
        res = compare(n2, n)        # the difference must be seen from either side
        f.stats['mutations'] += 1
        f.check(res is not None, 'C20.reject', m + ':reversed', 'compare() accepted (copy as first argument) a copy that differs by: %s' % m, mutation=m, mutation_seed=seed * 31 + k)


def profile_for(seed):
    return 'plain'


def nontrivial(ad, feats):
    has_props = any(i['properties'].get('EDIF.properties') for L in ad['libraries'] for d in L['definitions'] for i in d['instances'])
    return feats['depth'] >= 2 and has_props


if __name__ == '__main__':
    bcommon.main(case, profile_for, nontrivial)
