"""Bounded stand-in for C03: EDIF write-then-read returns the same netlist.

stdin : {"seeds":[...], "styles": k, "files":[bundled .edf archives]}  or {"replay": {...}}
Cases   api    : netlist built through the public API from a seeded abstract design (libraries / cells created in a
                 shuffled order), sdn.compose -> .edf -> sdn.parse, canonical structures equal
        reader : netlist produced by the EDIF reader from text of the independent writer, compose -> parse, equal
        file   : parse(compose(parse(f))) == parse(f) for a bundled archive
In all cases the written file must be accepted by the reader, be a balanced s-expression that defines every cell before it
is referenced (independent s-expression reading), and the re-read netlist must satisfy Inv.
"""
import sys, json, os, copy, random
import rtcommon as R
import render_edif as E

PID = 'C03'


def sexpr(text):
    """minimal independent s-expression reader: nested lists of atoms; strings kept as one atom"""
    stack, cur, i, n = [], [], 0, len(text)
    while i < n:
        ch = text[i]
        if ch == '(':
            stack.append(cur); cur = []; i += 1
        elif ch == ')':
            if not stack:
                raise ValueError('unbalanced )')
            done = cur; cur = stack.pop(); cur.append(done); i += 1
        elif ch == '"':
            j = text.index('"', i + 1)
            cur.append(text[i:j + 1]); i = j + 1
        elif ch.isspace():
            i += 1
        else:
            j = i
            while j < n and not text[j].isspace() and text[j] not in '()"':
                j += 1
            cur.append(text[i:j]); i = j
    if stack:
        raise ValueError('unbalanced (')
    return cur


def ident_of(x):
    return (x[1] if isinstance(x, list) and x and str(x[0]).lower() == 'rename' else x)


def check_written(path):
    """structure of the written file, read without spydrnet"""
    try:
        tree = sexpr(open(path).read())
    except ValueError as e:
        return [(PID + '.file-syntax', 'unbalanced', str(e))]
    if len(tree) != 1 or str(tree[0][0]).lower() != 'edif':
        return [(PID + '.file-syntax', 'not-one-edif-form', 'top level has %d forms' % len(tree))]
    defined, fails = set(), []
    for form in tree[0][1:]:
        if isinstance(form, list) and str(form[0]).lower() in ('library', 'external'):
            lib = str(ident_of(form[1])).lower()
            for cell in form[2:]:
                if isinstance(cell, list) and str(cell[0]).lower() == 'cell':
                    cname = str(ident_of(cell[1])).lower()

                    def walk(x):
                        if isinstance(x, list):
                            if x and str(x[0]).lower() == 'cellref':
                                l2 = lib
                                for y in x[2:]:
                                    if isinstance(y, list) and str(y[0]).lower() == 'libraryref':
                                        l2 = str(y[1]).lower()
                                if (l2, str(x[1]).lower()) not in defined:
                                    fails.append((PID + '.file-order', 'cellRef-before-definition', 'cell %s references %s/%s before its definition' % (cname, l2, x[1])))
                            for y in x:
                                walk(y)
                    walk(cell)
                    defined.add((lib, cname))
    return fails[:1]


def roundtrip(run, n, label, tags=()):
    c0 = R.net_canon_edif(n, ids=False, ordered=True)
    path = run.path('.edf')
    f = R.try_compose(n, path, PID)
    if f:
        return [f]
    fails = check_written(path)
    m, f = R.try_parse(path, PID, 'written-file-rejected')
    if f:
        if tags:
            f = (f[0], f[1] + ':' + '+'.join(tags), f[2])
        return fails + [f]
    try:
        c1 = R.net_canon_edif(m, ids=False, ordered=True)
    except Exception as e:
        return fails + [(PID + '.malformed', type(e).__name__, 'the re-read netlist cannot be walked: %r' % e)]
    fails += R.failures_from_diff(PID, R.diff(c0, c1), exp=c0, got=c1)
    fails += R.wellformed(m, PID)
    return fails


def leaf_into_user_library(ad, r):
    """one leaf cell that is used from another library moves into the library of one of its users (a cell and the black boxes it
    instantiates in one library, in whatever order they were created) -- None when the design offers no such move"""
    a = copy.deepcopy(ad)
    where = {(L['name'], d['name']): (L, d) for L in a['libraries'] for d in L['definitions']}
    is_leaf = lambda d: not d['instances'] and not d.get('nets')
    users = [(L, i) for L in a['libraries'] for d in L['definitions'] for i in d['instances']
             if tuple(i['ref']) in where and is_leaf(where[tuple(i['ref'])][1]) and i['ref'][0] != L['name'] and list(i['ref']) != list(a['top'])]
    if not users:
        return None
    target, inst = r.choice(users)
    src, leaf = where[tuple(inst['ref'])]
    if any(d['name'].lower() == leaf['name'].lower() for d in target['definitions']):
        return None
    old = [src['name'], leaf['name']]
    src['definitions'].remove(leaf)
    target['definitions'].append(leaf)
    for L in a['libraries']:
        for d in L['definitions']:
            for i in d['instances']:
                if list(i['ref']) == old:
                    i['ref'] = [target['name'], leaf['name']]
    # EDIF can only express libraries whose cross references are acyclic (a library is one contiguous block, cells are defined before
    # use): the move must not create a cycle between libraries
    edges = {}
    for L in a['libraries']:
        for d in L['definitions']:
            for i in d['instances']:
                if i['ref'][0] != L['name']:
                    edges.setdefault(L['name'], set()).add(i['ref'][0])
    seen, stack = set(), set()
    def cyclic(u):
        if u in stack: return True
        if u in seen: return False
        seen.add(u); stack.add(u)
        bad = any(cyclic(v) for v in edges.get(u, ()))
        stack.discard(u)
        return bad
    if any(cyclic(L['name']) for L in a['libraries']):
        return None
    return a


def case_api(run, ad, order_seed):
    r0 = random.Random('leafmove:%s' % order_seed)
    if r0.random() < 0.35:
        moved = leaf_into_user_library(ad, r0)
        if moved is not None and not designs_errors(moved):
            ad = moved
    a2 = copy.deepcopy(ad)
    r = random.Random('order:%s' % order_seed)
    r.shuffle(a2['libraries'])
    for l in a2['libraries']:
        r.shuffle(l['definitions'])
    n = R.build_api(a2)
    c0 = R.net_canon_edif(n, ids=False)
    d = R.diff(R.ad_canon_api(ad), c0)
    if d:
        return [('HARNESS', 'build_api', 'builder and abstract design disagree: %r' % (d[:2],))]
    return roundtrip(run, n, 'api', R.ad_name_tags(ad))


def case_reader(run, ad, style):
    text, plan = E.render(ad, style)
    path = run.path('.edf')
    with open(path, 'w') as f:
        f.write(text)
    n, f = R.try_parse(path, PID)
    if f:
        return []            # the reader's refusal of generated text is C05's business, not a round-trip case
    return roundtrip(run, n, 'reader')


def case_file(run, z):
    n, f = R.try_parse(z, PID, 'bundled-rejected')
    if f:
        return [f]
    return roundtrip(run, n, 'file')


def designs_errors(ad):
    try:
        import designs
        return designs.validate_ad(ad)
    except Exception as e:
        return [repr(e)]


def nontrivial(ad):
    f = R.ad_features(ad)
    return f['insts'] >= 1 and f['nets'] >= 1 and (f['bus_nets'] >= 1 or f['bus_ports'] >= 1)


def main():
    cfg = json.load(sys.stdin)
    run = R.Runner(PID, limit=cfg.get('limit', 20), all_failures=bool(cfg.get('all_failures')))
    if 'replay' in cfg:
        rp = cfg['replay']
        if rp['kind'] == 'edif-file':
            run.case(R.jhash(rp['file']), True, None, lambda: case_file(run, rp['file']), rp, limit=240)
        elif rp['kind'] == 'edif-api':
            run.case(R.jhash(rp['ad']), True, None, lambda: case_api(run, rp['ad'], rp['order_seed']), rp)
        else:
            run.case(R.jhash(rp['ad'], rp['style']), True, None, lambda: case_reader(run, rp['ad'], rp['style']), rp)
        return run.finish()
    for seed in cfg.get('seeds', []):
        ad = R.gen_hier(seed, 'edif')
        run.case(R.jhash('api', ad, seed), nontrivial(ad), {'seed': seed, 'kind': 'api', 'features': R.ad_features(ad)},
                 lambda: case_api(run, ad, seed), {'kind': 'edif-api', 'seed': seed, 'order_seed': seed, 'ad': ad})
        for v in range(cfg.get('styles', 1)):
            style = E.make_style(seed, v)
            run.case(R.jhash('reader', ad, style), nontrivial(ad), None,
                     lambda: case_reader(run, ad, style), {'kind': 'edif-reader', 'seed': seed, 'ad': ad, 'style': style})
    if cfg.get('corners'):
        for name, ad in R.corner_ads('edif'):
            run.case(R.jhash('corner-api', name), True, None, lambda: case_api(run, ad, 0), {'kind': 'edif-api', 'corner': name, 'order_seed': 0, 'ad': ad})
            for v in range(2):
                style = E.make_style('corner', v)
                run.case(R.jhash('corner-reader', name, style), True, None, lambda: case_reader(run, ad, style),
                         {'kind': 'edif-reader', 'corner': name, 'ad': ad, 'style': style})
    for z in cfg.get('files', []):
        run.case(R.jhash(os.path.basename(z)), True, {'file': os.path.basename(z)}, lambda: case_file(run, z),
                 {'kind': 'edif-file', 'file': z}, limit=cfg.get('file_limit', 60))
    run.finish()


if __name__ == '__main__':
    main()
