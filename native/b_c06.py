"""Bounded stand-in for C06: the Verilog reader builds exactly the design the source describes.

stdin : {"seeds":[...], "styles": k, "files":[bundled .v archives]}  or {"replay": {...}}
A case = (abstract design, style): text of the independent writer (render_verilog.py) -> sdn.parse -> canonical structure equals
what the text describes (modules, libraries, ports dir/width/base, one cable per declared or implied net, bit-level joins of every
connection expression, black boxes, assigns, constants, parameters, attributes, top); Inv + self-containment.  Bundled .v: parse + Inv.
Attributes: the styles write the attribute set of a module / instantiation / wire declaration as one (* *) group or cut into several
groups in front of the same construct (all of them expected on the element, "Multiple sets of constraints can exist before constructs
... combined into a single set"), optionally with an earlier group whose value for one name is overridden (last value expected,
IEEE 1364-2001 2.8), and put groups in front of body port declarations (nothing expected of them but that they do not end up elsewhere).
"alias_shapes" (off unless given in the payload; props/C06.py does not give it): exploration knob that applies
render_verilog.alias_shapes, i.e. header aliases onto vector nets, which the support page documents as not supported.
"""
import sys, json, os, random
import rtcommon as R
import render_verilog as V

PID = 'C06'


def check_generated(run, ad, style):
    text, plan = V.render(ad, style)
    path = run.path('.v')
    with open(path, 'w') as f:
        f.write(text)
    n, fail = R.try_parse(path, PID)
    if fail:
        return [fail]
    exp = V.ad_canon(ad, plan)
    try:
        got = R.net_canon_verilog(n)
    except Exception as e:
        return [(PID + '.malformed', type(e).__name__, 'the returned netlist cannot be walked: %r' % e)]
    fails = R.failures_from_diff(PID, R.diff(exp, got), exp=None, got=None)
    fails += R.wellformed(n, PID)
    return fails


def check_file(run, z):
    n, fail = R.try_parse(z, PID, 'bundled-rejected')
    if fail:
        return [fail]
    return R.wellformed(n, PID)


def nontrivial(ad):
    f = R.ad_features(ad)
    return f['insts'] >= 2 and f['nets'] >= 2 and (f['bus_nets'] >= 1 or f['bus_ports'] >= 1)


def main():
    cfg = json.load(sys.stdin)
    run = R.Runner(PID, limit=cfg.get('limit', 20), all_failures=bool(cfg.get('all_failures')))
    if 'replay' in cfg:
        rp = cfg['replay']
        if rp.get('file'):
            run.case(R.jhash(rp['file']), True, None, lambda: check_file(run, rp['file']), rp, limit=240)
        else:
            run.case(R.jhash(rp['ad'], rp['style']), True, None, lambda: check_generated(run, rp['ad'], rp['style']), rp)
            if cfg.get('show'):
                run.out['text'] = V.render(rp['ad'], rp['style'])[0]
        return run.finish()
    for seed in cfg.get('seeds', []):
        ad = R.gen_hier(seed, 'verilog')
        if cfg.get('alias_shapes'):
            V.alias_shapes(ad, random.Random('c06-alias:%s' % seed), **cfg['alias_shapes'])
        for v in range(cfg.get('styles', 2)):
            style = V.make_style(seed, v)
            style.update(cfg.get('style_override') or {})
            run.case(R.jhash(ad, style), nontrivial(ad), {'seed': seed, 'style': style, 'features': R.ad_features(ad)},
                     lambda: check_generated(run, ad, style), {'kind': 'verilog-read', 'seed': seed, 'ad': ad, 'style': style})
    if cfg.get('corners'):
        for name, ad in R.corner_ads('verilog'):
            for v in range(4):
                style = V.make_style('corner', v)
                run.case(R.jhash('corner', name, style), True, None, lambda: check_generated(run, ad, style),
                         {'kind': 'verilog-read', 'corner': name, 'ad': ad, 'style': style})
    for z in cfg.get('files', []):
        run.case(R.jhash(os.path.basename(z)), True, {'file': os.path.basename(z)}, lambda: check_file(run, z),
                 {'kind': 'verilog-file', 'file': z}, limit=cfg.get('file_limit', 60))
    run.finish()


if __name__ == '__main__':
    main()
