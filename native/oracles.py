"""Independent oracles for the bounded tier: canon(netlist), elab(netlist), and the hierarchical enumerations used by
C11/C12 (DESIGN.md section 4).

They walk PUBLIC READ ATTRIBUTES only (.libraries .definitions .ports .pins .cables .wires .children .reference
.references .wire .cable .port .instance .inner_pin .parent .definition .library .netlist .top_instance .name .data
.direction .lower_index .is_downto .is_array) and never call get_*, HRef, clone or Comparer code of spydrnet.
Elements without a name are keyed by '#<position among their siblings>'.
"""
from spydrnet.ir import OuterPin


# ------------------------------------------------------------------------------------------------ small helpers
def pos_of(seq, x):
    """Position of x in seq by identity (OuterPin defines structural ==, lists must not be searched with it)."""
    for k, y in enumerate(seq):
        if y is x:
            return k
    return None


def key_of(e, siblings):
    n = e.name
    return n if n is not None else '#%d' % pos_of(siblings, e)


def norm_data(data, skip=('.NAME',)):
    """JSON-able, order-free rendering of an element's data dictionary."""
    def r(v):
        if isinstance(v, dict):
            return ['dict'] + sorted([[str(k), r(x)] for k, x in v.items()], key=repr)
        if isinstance(v, (list, tuple)):
            return [type(v).__name__] + [r(x) for x in v]
        return [type(v).__name__, repr(v)]
    return sorted([[str(k), r(v)] for k, v in data.items() if k not in skip], key=repr)


def _def_key(d):
    lib = d.library
    if lib is None:
        return [None, d.name]
    nl = lib.netlist
    lk = key_of(lib, list(nl.libraries)) if nl is not None else lib.name
    return [lk, key_of(d, list(lib.definitions))]


def _endpoint(pin, d):
    """('port', port key, bit) / ('inst', instance key, port key, bit); bit includes the port's base index."""
    if isinstance(pin, OuterPin):
        inst, ip = pin.instance, pin.inner_pin
        port = ip.port if ip is not None else None
        if inst is None or port is None:
            return ['dangling-outer']
        rd = port.definition
        ik = key_of(inst, list(d.children)) if pos_of(list(d.children), inst) is not None else ['foreign', inst.name]
        return ['inst', ik, key_of(port, list(rd.ports)) if rd is not None else port.name, port.lower_index + pos_of(list(port.pins), ip)]
    port = pin.port
    if port is None:
        return ['dangling-inner']
    pk = key_of(port, list(d.ports)) if pos_of(list(d.ports), port) is not None else ['foreign', port.name]
    return ['port', pk, port.lower_index + pos_of(list(port.pins), pin)]


def canon_definition(d, data=True):
    ports = list(d.ports)
    cables = list(d.cables)
    children = list(d.children)
    out = {'data': norm_data(d.data) if data else None, 'ports': [], 'cables': [], 'instances': [], 'nets': []}
    for p in ports:
        out['ports'].append([key_of(p, ports), p.direction.name, len(p.pins), p.lower_index, bool(p.is_array), bool(p.is_downto),
                             norm_data(p.data) if data else None])
    for c in cables:
        out['cables'].append([key_of(c, cables), len(c.wires), c.lower_index, bool(c.is_array), bool(c.is_downto),
                              norm_data(c.data) if data else None])
        for k, w in enumerate(c.wires):
            eps = [_endpoint(p, d) for p in w.pins]
            if eps:
                out['nets'].append([key_of(c, cables), c.lower_index + k, eps])
    for i in children:
        r = i.reference
        out['instances'].append([key_of(i, children), _def_key(r) if r is not None else None, norm_data(i.data) if data else None])
    return out


def canon_library(lib, data=True):
    defs = list(lib.definitions)
    return {'data': norm_data(lib.data) if data else None,
            'definitions': [[key_of(d, defs), canon_definition(d, data)] for d in defs]}


def canon(n, data=True):
    """Name-keyed canonical structure, sibling order kept (lists of [key, value])."""
    libs = list(n.libraries)
    out = {'name': n.name, 'data': norm_data(n.data) if data else None, 'top': None,
           'libraries': [[key_of(l, libs), canon_library(l, data)] for l in libs]}
    ti = n.top_instance
    if ti is not None:
        r = ti.reference
        par = ti.parent
        out['top'] = {'name': ti.name, 'ref': _def_key(r) if r is not None else None,
                      'child_of': (_def_key(par) + [key_of(ti, list(par.children))]) if par is not None else None,
                      'data': norm_data(ti.data) if data else None}
    return out


def unordered(c):
    """canon with sibling order forgotten (for producers that do not keep declaration order)."""
    if isinstance(c, dict):
        # the endpoint order inside one net is the wire order and is kept; the list of nets is sorted
        return {k: (unordered(v) if k != 'nets' else sorted([[x[0], x[1], x[2]] for x in v], key=repr)) for k, v in c.items()}
    if isinstance(c, list):
        inner = [unordered(x) for x in c]
        if inner and all(isinstance(x, list) and len(x) >= 1 for x in inner):
            return sorted(inner, key=repr)
        return inner
    return c


def diff(a, b, path=''):
    """First difference between two canon values, as text (None if equal)."""
    if a == b:
        return None
    if isinstance(a, dict) and isinstance(b, dict):
        for k in sorted(set(a) | set(b), key=repr):
            if k not in a or k not in b:
                return '%s/%s only on one side' % (path, k)
            d = diff(a[k], b[k], path + '/' + str(k))
            if d:
                return d
    if isinstance(a, list) and isinstance(b, list):
        if len(a) != len(b):
            return '%s: %d vs %d entries (%s | %s)' % (path, len(a), len(b), repr(a)[:90], repr(b)[:90])
        for k, (x, y) in enumerate(zip(a, b)):
            d = diff(x, y, '%s[%s]' % (path, x[0] if isinstance(x, list) and x and isinstance(x[0], str) else k))
            if d:
                return d
    return '%s: %r != %r' % (path, repr(a)[:120], repr(b)[:120])


# ------------------------------------------------------------------------------------------------ elaboration
class UF:
    def __init__(self):
        self.p = {}

    def find(self, x):
        p = self.p
        p.setdefault(x, x)
        root = x
        while p[root] != root:
            root = p[root]
        while p[x] != root:
            p[x], x = root, p[x]
        return root

    def union(self, a, b):
        ra, rb = self.find(a), self.find(b)
        if ra != rb:
            self.p[ra] = rb


def is_leaf_definition(d):
    return len(d.children) == 0 and len(d.cables) == 0


def elab(n):
    """{'hier': sorted instance paths below the top, 'leaves': {path: [library key, definition key]},
        'nets': sorted partition of the endpoints ('pin', leaf path, port key, position) and ('top', port key, position)}.
    Paths are tuples of instance keys. Wires are nodes; a hierarchical pin (path, port, position) is one node joined to the
    wire on its outside (in the parent) and to the wire on its inside, which is how the two sides of a port boundary meet."""
    top = n.top_instance
    if top is None or top.reference is None:
        return None
    uf = UF()
    hier, leaves, endpoints = [], {}, []

    def walk(d, path):
        ports = list(d.ports)
        children = list(d.children)
        for ci, c in enumerate(d.cables):
            for wi, w in enumerate(c.wires):
                node = ('w', path, ci, wi)
                for pin in w.pins:
                    if isinstance(pin, OuterPin):
                        inst, ip = pin.instance, pin.inner_pin
                        port = ip.port
                        rports = list(inst.reference.ports)
                        key = ('pin', path + (key_of(inst, children),), key_of(port, rports), pos_of(list(port.pins), ip))
                    else:
                        port = pin.port
                        k = pos_of(list(port.pins), pin)
                        key = ('pin', path, key_of(port, ports), k) if path else ('top', key_of(port, ports), k)
                    uf.union(node, key)
        for ch in children:
            r = ch.reference
            if r is None:
                continue
            sub = path + (key_of(ch, children),)
            hier.append(sub)
            if is_leaf_definition(r):
                leaves[sub] = _def_key(r)
                rports = list(r.ports)
                for p in rports:
                    for k in range(len(p.pins)):
                        endpoints.append(('pin', sub, key_of(p, rports), k))
            else:
                walk(r, sub)
    tports = list(top.reference.ports)
    for p in tports:
        for k in range(len(p.pins)):
            endpoints.append(('top', key_of(p, tports), k))
    walk(top.reference, ())
    groups = {}
    for e in endpoints:
        groups.setdefault(uf.find(e), []).append(e)
    return {'hier': sorted(hier), 'leaves': leaves, 'nets': sorted(sorted(g) for g in groups.values())}


def flat_read(n):
    """Direct reading of a flattened top definition: {'instances': {name: ([lib, def], data, reference object)},
    'nets': partition over ('pin', instance name, port key, position) and ('top', port key, position)}."""
    d = n.top_instance.reference
    insts = {}
    endpoints = []
    names = []
    for ch in d.children:
        r = ch.reference
        names.append(ch.name)
        insts[ch.name] = (_def_key(r), norm_data(ch.data), r)
        rports = list(r.ports)
        for p in rports:
            for k in range(len(p.pins)):
                endpoints.append(('pin', ch.name, key_of(p, rports), k))
    ports = list(d.ports)
    for p in ports:
        for k in range(len(p.pins)):
            endpoints.append(('top', key_of(p, ports), k))
    owner = {}
    for ci, c in enumerate(d.cables):
        for wi, w in enumerate(c.wires):
            for pin in w.pins:
                if isinstance(pin, OuterPin):
                    port = pin.inner_pin.port
                    key = ('pin', pin.instance.name, key_of(port, list(pin.instance.reference.ports)), pos_of(list(port.pins), pin.inner_pin))
                else:
                    key = ('top', key_of(pin.port, ports), pos_of(list(pin.port.pins), pin))
                owner.setdefault(key, []).append((ci, wi))
    groups, single = {}, []
    for e in endpoints:
        ws = owner.get(e, [])
        if len(ws) == 1:
            groups.setdefault(ws[0], []).append(e)
        elif not ws:
            single.append([e])
        else:
            groups.setdefault(('multi',) + tuple(ws), []).append(e)
    return {'names': names, 'instances': insts, 'nets': sorted([sorted(g) for g in groups.values()] + single)}


# ------------------------------------------------------------------------------------------------ occurrences (C11 / C12)
class Occ:
    """Independent enumeration of every occurrence in the elaborated design. A hierarchical item is the tuple of objects
    (top instance, child instance, ..., [port | cable], [pin | wire])."""

    def __init__(self, n):
        self.netlist = n
        self.top = n.top_instance
        self.inst = []       # instance occurrences, top first: tuples of Instance objects
        self.ports, self.pins, self.cables, self.wires = [], [], [], []
        self.children_of = {}    # path -> [child paths]
        if self.top is None:
            return
        self._walk((self.top,))

    def _walk(self, path):
        self.inst.append(path)
        self.children_of[path] = []
        r = path[-1].reference
        if r is None:
            return
        for p in r.ports:
            self.ports.append(path + (p,))
            for q in p.pins:
                self.pins.append(path + (p, q))
        for c in r.cables:
            self.cables.append(path + (c,))
            for w in c.wires:
                self.wires.append(path + (c, w))
        for ch in r.children:
            sub = path + (ch,)
            self.children_of[path].append(sub)
            self._walk(sub)

    def below(self, path, recursive):
        """instance occurrences strictly below path (children only when not recursive)"""
        out = []
        stack = list(self.children_of.get(path, []))
        while stack:
            p = stack.pop()
            out.append(p)
            if recursive:
                stack += self.children_of[p]
        return out

    def items_in(self, path, kind):
        """ports / pins / cables / wires directly inside the occurrence path"""
        r = path[-1].reference
        if r is None:
            return []
        if kind == 'ports':
            return [path + (p,) for p in r.ports]
        if kind == 'pins':
            return [path + (p, q) for p in r.ports for q in p.pins]
        if kind == 'cables':
            return [path + (c,) for c in r.cables]
        return [path + (c, w) for c in r.cables for w in c.wires]

    def nets(self):
        """Union-find over hierarchical wires, joined across every instance-port boundary. Returns (uf, wire_of_pin_inside,
        wire_of_pin_outside) where the maps send a hierarchical pin to the hierarchical wire on that side (or None)."""
        uf = UF()
        inside, outside = {}, {}
        for hw in self.wires:
            uf.find(_ids(hw))
        for hp in self.pins:
            path, port, pin = hp[:-2], hp[-2], hp[-1]
            w_in = pin.wire
            hin = path + (w_in.cable, w_in) if w_in is not None else None
            hout = None
            if len(path) > 1:
                op = None
                for ip, o in _outer_pairs(path[-1]):
                    if ip is pin:
                        op = o
                w_out = op.wire if op is not None else None
                if w_out is not None:
                    hout = path[:-1] + (w_out.cable, w_out)
            inside[_ids(hp)] = hin
            outside[_ids(hp)] = hout
            if hin is not None and hout is not None:
                uf.union(_ids(hin), _ids(hout))
        return uf, inside, outside


def _outer_pairs(inst):
    """(inner pin, outer pin) pairs of an instance through the public view: iterating instance.pins gives the outer pins."""
    return [(o.inner_pin, o) for o in inst.pins]


def _ids(seq):
    return tuple(id(x) for x in seq)


def href_seq(h):
    """The object sequence of a spydrnet HRef (root first). Reads .parent/.item only."""
    out = []
    while h is not None:
        out.append(h.item)
        h = h.parent
    return tuple(reversed(out))


def expected_name(seq):
    """Slash-joined names of the instances below the top, then the bundle name, then [index] for array bundles."""
    from spydrnet.ir import Instance, Port, Cable, Wire, InnerPin
    names, idx = [], ''
    for x in seq[1:]:
        if isinstance(x, (Wire,)):
            c = x.cable
            if c.is_array:
                idx = '[%d]' % (c.lower_index + pos_of(list(c.wires), x))
        elif isinstance(x, InnerPin):
            p = x.port
            if p.is_array:
                idx = '[%d]' % (p.lower_index + pos_of(list(p.pins), x))
        else:
            names.append(x.name if x.name is not None else '')
    return '/'.join(names) + idx
