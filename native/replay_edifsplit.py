"""Replays a solver model for EdifParser.separate_name_and_index against the real function: stdin {"name": ..., "sep": ...};
prints @@JSON@@ {"got": ..., "want": ..., "agrees": bool}.  The oracle is specs/edifsplit.oracle (the contract as a regular expression)."""
import sys, json, re
from spydrnet.parsers.edif.parser import EdifParser


def oracle(name, sep):
    if sep == '[':
        esc_ok = (not name.startswith('\\')) or (name.count(' ') == 1 and not name.endswith(' '))
        m = re.fullmatch(r'(?s)(.*)\[([0-9]+)\]', name)
        if m and esc_ok: return [int(m.group(2)), m.group(1)]
        return [None, name]
    m = re.fullmatch(r'(?s)(.*)_([0-9]+)_', name)
    if m: return [int(m.group(2)), m.group(1)]
    return [None, name]


def one(name, sep):
    try:
        got = list(EdifParser().separate_name_and_index(name, sep))
        got = [got[0] if got[0] is None else str(got[0]), got[1]]
    except Exception as e:
        got = 'raised %s: %s' % (type(e).__name__, str(e)[:100])
    want = oracle(name, sep)
    want = [want[0] if want[0] is None else str(want[0]), want[1]]
    return got, want


cfg = json.load(sys.stdin)
sys.set_int_max_str_digits(0)
if cfg.get('search'):
    # no usable model from the solver: a small native search for a disagreeing name (fixed battery + seeded random names)
    import random
    rnd = random.Random(5)
    sep = cfg['sep']
    battery = ['a[0]', 'a[12]', 'ab_3_', 'a_b_12_', '\\a[3]', '\\a [3]', '\\a[3] ', '\\a[3] b[4]', 'a[b]', 'x_', '_1_', 'a[1][2]', 'a_1__2_', 'a[]', '[3]', '_3_', 'a[3',
               'a3]', 'a_3', 'a', '_', '[', ']', '__', 'a__', 'a_1_2', 'a[1]2', 'a[ 1]', 'a b[1]', 'a_x_', 'a[x1]', 'a[1x]', 'a_1x_', 'a_x1_', '1_2_', '1[2]', 'a[007]', 'a_007_']
    alpha = 'ab1 2[]__\\x'
    for _ in range(20000):
        battery.append(''.join(rnd.choice(alpha) for _ in range(rnd.randint(1, 8))))
    for name in battery:
        got, want = one(name, sep)
        if got != want:
            sys.stdout.write('\n@@JSON@@\n' + json.dumps({'name': name, 'got': got, 'want': want, 'agrees': False})); sys.exit(0)
    sys.stdout.write('\n@@JSON@@\n' + json.dumps({'agrees': True, 'searched': len(battery)})); sys.exit(0)
try:
    got = list(EdifParser().separate_name_and_index(cfg['name'], cfg['sep']))
except Exception as e:
    got = 'raised %s: %s' % (type(e).__name__, str(e)[:100])
want = oracle(cfg['name'], cfg['sep'])
out = {'got': got if isinstance(got, str) else [got[0] if got[0] is None else str(got[0]), got[1]],
       'want': [want[0] if want[0] is None else str(want[0]), want[1]]}
out['agrees'] = out['got'] == out['want']
sys.stdout.write('\n@@JSON@@\n' + json.dumps(out))
