"""Tier B for C17 - EDIF export gives every object a legal, case-insensitively unique identifier and the file reads
back with the original names.

One case = one sibling set S of adversarial names (letters in both cases, digits, _ - [ ] / \\ space $ & . : and other
printable characters; lengths 1..300; names differing only by case or only in characters illegal in EDIF;
pre-existing names x_sdn_N_; optionally a pre-existing legal identifier on a sibling), placed in *every* naming scope of
a hand-built netlist: libraries of the netlist, cells of a library, ports / nets / instances of a cell.
The netlist is composed with sdn.compose(netlist, *.edf) and then

  C17.identifier   (a) every element of every scope carries an EDIF.identifier that is legal
                       (&[0-9A-Za-z_]{1,255} | [A-Za-z][0-9A-Za-z_]{0,254}) and differs, ignoring case, from the
                       identifiers of its siblings; EDIF.rename is recorded when identifier != name
  C17.reparse      (b) the file parses back (sdn.parse) and, scope by scope, the element carrying identifier X shows
                       the original name of the element that was given X
  C17.compose      compose itself raises for a netlist that only has unusual names

stdin : {"seeds":[...], "tier":...} | {"replay": {...}}
"""
import sys, json, os, re, random, hashlib, tempfile, shutil, traceback, io, contextlib, string
import spydrnet as sdn
from spydrnet.plugins import namespace_manager as NM

LEGAL = re.compile(r'\A(?:&[0-9A-Za-z_]{1,255}|[A-Za-z][0-9A-Za-z_]{0,254})\Z')
PUNCT = "_-[]/\\ $&.:()+*#@!',<>=~^|{};?"
ALPHA = string.ascii_letters + string.digits + PUNCT
RISKY = '"%'            # printable too; kept apart so that their effect has its own site
SCOPES = ['libraries', 'cells', 'ports', 'nets', 'instances']


def legal(s):
    return isinstance(s, str) and LEGAL.match(s) is not None


def sanitize(s):
    return re.sub(r'[^0-9A-Za-z]', '_', s).lower()


# ------------------------------------------------------------------ adversarial sibling sets
def rand_name(r, lo=1, hi=12, alpha=ALPHA):
    n = r.randint(lo, hi)
    return ''.join(r.choice(alpha) for _ in range(n))


def word(r, lo=1, hi=8):
    return r.choice(string.ascii_letters) + ''.join(r.choice(string.ascii_letters + string.digits + '_') for _ in range(r.randint(lo, hi) - 1))


def sibling_set(r, tier):
    styles = ['random', 'case', 'illegal', 'sdn', 'long', 'long-sdn', 'leading', 'minus', 'buslike']
    if tier == 'thorough' or r.random() < 0.15:
        styles.append('risky')
    S = []
    for style in r.sample(styles, r.choice([1, 1, 2])):
        if style == 'random':
            S += [rand_name(r) for _ in range(r.randint(2, 4))]
        elif style == 'case':
            b = word(r, 2, 6) + r.choice(['', '1', '_x'])
            S += r.sample(sorted(set([b, b.upper(), b.lower(), b.capitalize(), b.swapcase()])), r.randint(2, 3)) if len(set([b, b.upper(), b.lower(), b.capitalize(), b.swapcase()])) >= 3 else [b, b.swapcase()]
        elif style == 'illegal':
            a, b = word(r, 1, 4), word(r, 1, 4)
            S += [a + c + b for c in r.sample(['_', '-', '+', ' ', '.', '[', '/', '$', ':', '\\'], r.randint(2, 4))]
        elif style == 'minus':
            a, b = word(r, 1, 4), word(r, 1, 4)
            S += [a + '-' + b] + ([a + '_' + b] if r.random() < 0.5 else [])
        elif style == 'sdn':
            b = word(r, 1, 5)
            k = r.choice([1, 1, 2, 9, 99])
            S += [b, b.swapcase() if b.swapcase() != b else b + 'X', '%s_sdn_%d_' % (b.lower(), k)]
            if r.random() < 0.5:
                S.append('%s_sdn_%d_' % (b.lower(), k + 1))
            if r.random() < 0.3:
                S.append('%s_SDN_%d_' % (b.upper(), k))
        elif style == 'long':
            n = r.choice([254, 255, 256, 257, 280, 300])
            pre = r.choice(['', '', '&', '1', '_', '['])
            base = word(r, 3, 6)
            body = (base * 60)[:n - len(pre) - 1]
            S += [pre + body + c for c in r.sample('abAB12_-', r.randint(1, 3))]
        elif style == 'long-sdn':
            digits = r.choice([1, 3, 40, 250, 260, 290])
            total = r.choice([255, 256, 257, 297, 300])
            suffix = '_sdn_' + '7' * digits + '_'
            if len(suffix) >= total:
                total = len(suffix) + 1
                if total > 300:
                    suffix = '_sdn_' + '7' * 290 + '_'; total = 300
            S += [('x' * 300)[:total - len(suffix)] + suffix]
            if r.random() < 0.5:
                S.append(('X' * 300)[:total - len(suffix)] + suffix)
        elif style == 'leading':
            b = word(r, 1, 5)
            S += [c + b for c in r.sample(['1', '_', '&', '-', ' ', '$', '[', '9_', '&&'], r.randint(1, 3))] + ([b] if r.random() < 0.5 else [])
        elif style == 'buslike':
            b = word(r, 1, 4)
            S += r.sample([b + '[3]', b + '[3:0]', b + '[0]', b + '(1)', b + '<2>', b + '[', b + ']', b + '[x]', b + '_3_', b], r.randint(2, 4))
        elif style == 'risky':
            b = word(r, 1, 4)
            S += [b + r.choice(RISKY) + word(r, 1, 3)]
    out = []
    for s in S:
        s = s[:300]
        if s and s not in out:
            out.append(s)
    return out[:8]


def name_class(s, S):
    others = [o for o in S if o != s]
    if '"' in s: return 'quote'
    if '%' in s: return 'percent'
    if '[' in s or ']' in s: return 'brackets'
    if re.search(r'_sdn_[0-9]+_$', s, re.I) and len(s) >= 255: return 'long-sdn-suffix'
    if len(s) >= 256 or (len(s) == 255 and not (s[0].isalpha())): return 'long'
    if any(o.lower() == s.lower() for o in others): return 'case-only'
    if re.search(r'_sdn_[0-9]+_$', s, re.I) or any(re.match(re.escape(s) + r'_sdn_[0-9]+_$', o, re.I) for o in others): return 'sdn-suffix'
    if any(sanitize(o) == sanitize(s) for o in others): return 'sanitised-collision'
    if '-' in s: return 'minus'
    if not s[0].isalpha(): return 'leading-nonalpha'
    if not re.match(r'^[0-9A-Za-z_]+$', s): return 'illegal-chars'
    return 'plain'


# ------------------------------------------------------------------ netlist with S in every scope
def build(S, pre, scopes=SCOPES):
    """pre: optional (index of sibling, identifier) - a legal identifier already present on one sibling in every scope."""
    NM.default = 'DEFAULT'
    n = sdn.Netlist('c17_design')
    prims = n.create_library('zprims')
    leaf = prims.create_definition('zleaf')
    leaf.create_port('i', direction=sdn.IN, pins=1)
    work = n.create_library('zwork')
    top = work.create_definition('ztop')
    n.top_instance = sdn.Instance('ztop_i')
    n.top_instance.reference = top
    reg = {}
    def mark(scope, elems):
        reg[scope] = elems
        if pre is not None and 0 <= pre[0] < len(elems):
            # as the EDIF reader (or an earlier compose) would have left it: identifier plus the rename flag
            elems[pre[0]]['EDIF.identifier'] = pre[1]
            if pre[1] != elems[pre[0]].name:
                elems[pre[0]]['EDIF.rename'] = True
    if 'libraries' in scopes:
        mark('libraries', [n.create_library(s) for s in S])
    if 'cells' in scopes:
        cells = []
        for s in S:
            d = work.create_definition(s); d.create_port('p', direction=sdn.IN, pins=1); cells.append(d)
        mark('cells', cells)
    if 'ports' in scopes:
        mark('ports', [top.create_port(s, direction=sdn.IN, pins=1) for s in S])
    if 'nets' in scopes:
        mark('nets', [top.create_cable(s, wires=1) for s in S])
    if 'instances' in scopes:
        mark('instances', [top.create_child(s, reference=leaf) for s in S])
    return n, reg


def siblings_of(scope, e):
    if scope == 'libraries': return list(e.netlist.libraries)
    if scope == 'cells': return list(e.library.definitions)
    if scope == 'ports': return list(e.definition.ports)
    if scope == 'nets': return list(e.definition.cables)
    return list(e.parent.children)


def check_identifiers(S, reg, pre=None):
    """(a) -> [(scope, relation, name, detail)]; a collision is reported on the element whose identifier compose chose,
    not on the sibling whose identifier existed before."""
    out = []
    pre_elem = {sc: el[pre[0]] for sc, el in reg.items() if pre is not None and 0 <= pre[0] < len(el)} if pre is not None else None
    for scope, elems in reg.items():
        if not elems:
            continue
        sibs = siblings_of(scope, elems[0])
        ids = {}
        for e in sibs:
            if 'EDIF.identifier' in e:
                ids.setdefault(str(e['EDIF.identifier']).lower(), []).append(e)
        for e in elems:
            if 'EDIF.identifier' not in e:
                out.append((scope, 'no-identifier', e.name, 'no EDIF.identifier was recorded')); continue
            x = e['EDIF.identifier']
            if not legal(x):
                why = 'length %d' % len(x) if isinstance(x, str) and len(x) > 255 + x.startswith('&') else 'characters'
                out.append((scope, 'illegal-' + why.split()[0], e.name, 'identifier %r (%d chars) is not a legal EDIF identifier' % (x[:40], len(x))))
            if len(ids.get(str(x).lower(), [])) > 1 and not (pre_elem is not None and e is pre_elem.get(scope)):
                other = [o for o in ids[str(x).lower()] if o is not e][0]
                a, b = e.name, other.name or ''
                raw = lambda t: re.sub(r'[^0-9A-Za-z]', '_', t)
                why = ('preexisting-identifier' if pre_elem is not None and other is pre_elem.get(scope) else
                       'case-only' if a.lower() == b.lower() else
                       'long' if max(len(a), len(b)) >= 255 else
                       'sdn-suffix' if re.search(r'_sdn_[0-9]+_$', a + ' ' + b, re.I) or re.search(r'_sdn_[0-9]+_ ', a + ' ' + b + ' ', re.I) else
                       'sanitised-same' if raw(a) == raw(b) else 'sanitised-case' if raw(a).lower() == raw(b).lower() else 'other')
                out.append((scope, 'not-unique:' + why, e.name, 'identifier %r equals, ignoring case, the identifier %r of sibling %r' % (x[:40], other['EDIF.identifier'][:40], (other.name or '')[:40])))
            if x != e.name and not e.get('EDIF.rename', False):
                out.append((scope, 'rename-not-recorded', e.name, 'identifier %r differs from the name but EDIF.rename is not set' % (x[:40],)))
    return out


def find_scope(m, scope):
    """The re-read siblings for a scope: located through the fixed, plain helper names."""
    if scope == 'libraries':
        return list(m.libraries)
    work = [l for l in m.libraries if l.name == 'zwork']
    if not work:
        return None
    if scope == 'cells':
        return list(work[0].definitions)
    top = [d for d in work[0].definitions if d.name == 'ztop']
    if not top:
        return None
    return list({'ports': top[0].ports, 'nets': top[0].cables, 'instances': top[0].children}[scope])


def check_names(S, reg, m):
    """(b) -> [(scope, relation, name, detail)]"""
    out = []
    for scope, elems in reg.items():
        back = find_scope(m, scope)
        if back is None:
            out.append((scope, 'scope-lost', elems[0].name if elems else '', 'the helper library / cell is missing in the re-read netlist')); continue
        by_id = {}
        for b in back:
            if 'EDIF.identifier' in b:
                by_id.setdefault(b['EDIF.identifier'].lower(), []).append(b)
        for e in elems:
            x = str(e.get('EDIF.identifier', '')).lower()
            got = by_id.get(x, [])
            if len(got) != 1:
                out.append((scope, 'element-lost', e.name, 'no unique re-read element with identifier %r (%d found)' % (x[:40], len(got)))); continue
            if got[0].name != e.name:
                out.append((scope, 'name-changed', e.name, 'original name %r comes back as %r' % (e.name[:40], (got[0].name or '')[:40])))
    return out


def run_case(S, pre, tmp, scopes=SCOPES):
    n, reg = build(S, pre, scopes)
    path = os.path.join(tmp, 'c17.edf')
    if os.path.exists(path):
        os.remove(path)
    res = {'compose': None, 'ident': [], 'parse': None, 'names': []}
    try:
        with contextlib.redirect_stdout(io.StringIO()):
            sdn.compose(n, path)
    except Exception as e:
        res['compose'] = '%s: %s' % (type(e).__name__, str(e)[:100])
        return res
    res['ident'] = check_identifiers(S, reg, pre)
    try:
        with contextlib.redirect_stdout(io.StringIO()):
            m = sdn.parse(path)
    except Exception as e:
        res['parse'] = (type(e).__name__, str(e)[:100])
        return res
    finally:
        NM.default = 'DEFAULT'
    if not any(r[1].startswith('not-unique') or r[1] == 'no-identifier' for r in res['ident']):
        res['names'] = check_names(S, reg, m)
    forget(n); forget(m)
    return res


def forget(n):
    """Harness hygiene only: the namespace manager keeps every netlist alive (its WeakKeyDictionary values refer back to
    the keys); drop the tables of a netlist that is no longer used so that long runs stay linear."""
    try:
        for l in list(n.libraries):
            for d in list(l.definitions):
                NM.namespaces.pop(d, None)
            NM.namespaces.pop(l, None)
        NM.namespaces.pop(n, None)
    except Exception:
        pass


def evaluate(S, pre, tmp, out, cfg, seen, seed):
    def fail(check, site, detail, extra=None):
        sig = (check, site)
        if sig in seen and not cfg.get('all_failures'):
            return
        seen.add(sig)
        out['failures'].append({'check': check, 'site': site, 'detail': detail,
                                'replay': dict({'script': 'b_c17.py', 'seed': seed, 'names': S, 'pre': pre}, **(extra or {}))})
    res = run_case(S, pre, tmp)
    out['evaluations'] += 1
    if res['compose']:
        # localise: which single name makes compose raise?
        culprit = next((s for s in S if run_case([s], None, tmp)['compose']), None)
        fail('C17.compose', 'raises:%s:%s' % (res['compose'].split(':')[0], name_class(culprit, S) if culprit else 'combination'),
             'compose raised %s for sibling names %r' % (res['compose'], [s[:24] for s in S]))
        return
    out['evaluations'] += len(SCOPES)
    for scope, rel, name, detail in res['ident']:
        fail('C17.identifier', rel if rel.startswith('not-unique') else '%s:%s' % (rel, name_class(name, S)),
             '%s scope, name %r (%d chars) among %r: %s' % (scope, name[:40], len(name), [s[:24] for s in S], detail))
    out['evaluations'] += 1
    if res['parse']:
        if res['ident']:
            fail('C17.reparse', 'raises:%s:identifiers-invalid' % res['parse'][0],
                 'the exported file is rejected by the reader (%s: %s); identifiers were already found invalid' % res['parse'])
        else:
            where = []
            # most suspicious first: quotes / percent, then brackets, then the rest; bundles before the other scopes
            order = sorted(S, key=lambda s: (0 if ('"' in s or '%' in s) else 1 if ('[' in s or ']' in s) else 2, S.index(s)))
            for sc in ['nets', 'ports', 'libraries', 'cells', 'instances']:
                for s in order:
                    r1 = run_case([s], None, tmp, scopes=[sc])
                    if r1['parse'] and not r1['ident']:
                        where.append((sc, s))
                        break
                if where:
                    break
            sc, s = where[0] if where else ('combination', S[0])
            fail('C17.reparse', 'raises:%s:%s' % (res['parse'][0], name_class(s, S) if where else 'combination'),
                 'identifiers are legal and unique, yet the exported file is rejected by the reader (%s: %s); e.g. %s named %r' % (res['parse'] + (sc, s[:40])))
    for scope, rel, name, detail in res['names']:
        # classified by cause: in a bundle scope (ports, nets) a sibling that looks like a bus bit (x[3]) makes the reader's bus inference
        # fold elements, which can cost ANOTHER sibling its name or identifier; such failures are filed under 'brackets' whatever the class
        # of the name they hit
        bundle = scope in ('ports', 'nets')
        cls = 'brackets' if bundle and any(re.search(r'\[\d+\]$', s_) for s_ in S) else name_class(name, S)
        fail('C17.reparse', '%s:%s:%s' % (rel, cls, 'bundle' if bundle else 'other'), '%s scope, name %r (%d chars): %s' % (scope, name[:40], len(name), detail))


def case_of(seed, tier):
    r = random.Random('c17/%s' % seed)
    S = sibling_set(r, tier)
    pre = None
    if r.random() < 0.2 and len(S) >= 2:
        i, j = r.sample(range(len(S)), 2)
        cand = re.sub(r'[^0-9A-Za-z_]', '_', S[j])[:200]
        if not cand[0].isalpha():
            cand = '&' + cand
        if r.random() < 0.5:
            cand = cand.swapcase()
        if legal(cand):
            pre = [i, cand]
    return S, pre


def nontrivial(S):
    low = [s.lower() for s in S]
    san = [sanitize(s) for s in S]
    return (len(set(low)) < len(S) or len(set(san)) < len(S) or any(len(s) >= 255 for s in S)
            or any(re.search(r'_sdn_[0-9]+_$', s, re.I) for s in S) or any(not re.match(r'^[A-Za-z][0-9A-Za-z_]*$', s) for s in S))


def main():
    cfg = json.load(sys.stdin)
    out = {'evaluations': 0, 'hashes': [], 'samples': [], 'failures': []}
    tmp = tempfile.mkdtemp(prefix='verif_c17_')
    seen = set()
    try:
        if cfg.get('replay'):
            rp = cfg['replay']
            evaluate(rp['names'], rp.get('pre'), tmp, out, cfg, seen, rp.get('seed'))
        else:
            tier = cfg.get('tier', 'quick')
            for seed in cfg.get('seeds', [0]):
                S, pre = case_of(seed, tier)
                try:
                    evaluate(S, pre, tmp, out, cfg, seen, seed)
                except Exception:
                    out['failures'].append({'check': 'HARNESS', 'site': 'case', 'detail': traceback.format_exc()[-900:], 'replay': {'seed': seed, 'names': S, 'pre': pre}})
                    continue
                if nontrivial(S):
                    out['hashes'].append(hashlib.sha1(repr((sorted(S), pre)).encode()).hexdigest()[:16])
                if len(out['samples']) < 3:
                    out['samples'].append({'names': [s if len(s) < 40 else s[:30] + '...(%d chars)' % len(s) for s in S], 'preexisting_identifier': pre})
    finally:
        NM.default = 'DEFAULT'
        shutil.rmtree(tmp, ignore_errors=True)
    out['hashes'] = sorted(set(out['hashes']))
    sys.stdout.write('\n@@JSON@@\n' + json.dumps(out, default=str))


if __name__ == '__main__':
    main()
