"""Bounded stand-in for C08: contract on the real spydrnet.uniquify.uniquify(netlist) over generated designs.

  C08.raises        uniquify raised                                                   site: exception type at spydrnet location
  C08.sole-ref      a non-leaf instance reachable from the top shares its definition  site: 'reachable-nonleaf'
  C08.elab          the elaborated design changed                                     site: hier | leaves | nets
  C08.inv           Inv (I1-I4) fails afterwards                                      site: clause
  C08.fresh-names   a new definition is not in its original's library / name or EDIF identifier not fresh/unique   site: which clause
  C08.idempotent    a second uniquify changed canon                                   site: 'canon'

Input space.  Every abstract design (AD) that bcommon hands over is checked as it is (natural construction order, DEFAULT naming
policy, uniquify's module counter at 0) and, when uniquify has something to do on it, in derived *variants* (variants()).  A
variant is again a complete AD (so a replay file holds everything) with three more optional keys:

  ad['c08'] = {'policy': 'DEFAULT' | 'EDIF',     naming policy (spydrnet.plugins.namespace_manager.default) the netlist is built under
               'warmup': c,                      state of uniquify's module-level counter: reset to 0 (= a fresh process), then c clones
                                                 are made by uniquify calls on another netlist ("after earlier uniquify calls")
               'variant': label, 'verilog': source text (parsed instead of built; the fixed sources of VERILOG_CORNERS)}
  definition['hist'] = {'pre': [op...], 'post': [op...]}   construction history of the definition's port list through the public API;
                                                 'pre' runs before any instance exists, 'post' after the early instances exist:
        ['port', name, pins_now, position|None]  Port(...); add_port(port, position) / create_port (append); create_pins(pins_now)
        ['pins', name, count, 'end'|'front'|'rotate']   create_pins | add_pin(pin, 0) | create_pins + port.pins = rotated (Verilog parser idiom)
        ['order', [names]]                       definition.ports = [...]
        ['pinperm', name, [indices]]             port.pins = [...]
        ['readd', name, position|None]           remove_port(port); add_port(port, position)
  instance['hist'] = {'late': bool, 'mode': 'create'|'assign'|'add'}   created after the 'post' steps / create_child(reference=) |
                                                 create_child() then .reference = | Instance(); .reference =; add_child
Whatever the history, the finished netlist is the one build_api builds from the same AD (checked: HARNESS failure otherwise); what
differs is state the public read API does not show, e.g. the order of an instance's pin dictionary relative to the port order.
Naming variants give netlist, libraries and definitions an EDIF.identifier (equal to the name, case-swapped, or renamed) and add
'left-over' definitions named <X>_sdn_unique_<k> (identifier <identifier of X>_sdn_unique_<k>) for reachable non-leaf X and k at /
just above the counter value, i.e. what a netlist looks like that was uniquified before (written, read back, edited).
The class 'identifier-taken' adds definitions whose *identifier* (compared ignoring case, as EDIF does) is <identifier of
X>_sdn_unique_<k> while their name is not <name of X>_sdn_unique_<k>; failures on such inputs carry the tag [identifier-taken] in
the site (decided from the input netlist, before uniquify runs).
"""
import copy, os, random, re, tempfile, traceback
import spydrnet as sdn
import spydrnet.uniquify as U
from spydrnet.plugins import namespace_manager as NM
import designs, oracles, irlib, bcommon

SUFFIX = re.compile(r'_sdn_unique_\d+$')
SFX = '_sdn_unique_%d'


def reachable_instances(n):
    """Instance objects reachable from the top instance (public attributes only), each once."""
    out, seen, stack = [], set(), [n.top_instance]
    while stack:
        i = stack.pop()
        r = i.reference
        if r is None:
            continue
        for ch in r.children:
            if id(ch) not in seen:
                seen.add(id(ch))
                out.append(ch)
                stack.append(ch)
    return out


# ------------------------------------------------------------------------------------------------ builder with construction history
def build_hist(ad):
    """designs.build_api plus the optional 'hist' keys (module docstring). Public API only."""
    DIR = {'IN': sdn.IN, 'OUT': sdn.OUT, 'INOUT': sdn.INOUT, 'UNDEFINED': sdn.UNDEFINED}
    ix = {}

    def nm(e):
        return None if e.get('unnamed') else e['name']

    def put(obj, e):
        for k, v in (e.get('data') or {}).items():
            obj[k] = copy.deepcopy(v)

    def run_ops(L, d, ops):
        dd = ix[('def', L['name'], d['name'])]
        pd = {p['name']: p for p in d['ports']}
        for op in ops:
            if op[0] == 'port':
                p = pd[op[1]]
                if op[3] is None:
                    pp = dd.create_port(name=nm(p), direction=DIR[p['direction']], lower_index=p['base'], is_downto=p['downto'])
                else:
                    pp = sdn.Port(name=nm(p), direction=DIR[p['direction']], lower_index=p['base'], is_downto=p['downto'])
                    dd.add_port(pp, op[3])
                if op[2]:
                    pp.create_pins(op[2])
                if p.get('array'):
                    pp.is_scalar = False
                put(pp, p)
                ix[('port', L['name'], d['name'], p['name'])] = pp
            elif op[0] == 'pins':
                pp = ix[('port', L['name'], d['name'], op[1])]
                if op[3] == 'front':
                    for _ in range(op[2]):
                        pp.add_pin(sdn.InnerPin(), 0)
                else:
                    have = len(pp.pins)
                    pp.create_pins(op[2])
                    if op[3] == 'rotate':
                        pp.pins = pp.pins[have:] + pp.pins[:have]
            elif op[0] == 'order':
                dd.ports = [ix[('port', L['name'], d['name'], x)] for x in op[1]]
            elif op[0] == 'pinperm':
                pp = ix[('port', L['name'], d['name'], op[1])]
                pins = list(pp.pins)
                pp.pins = [pins[k] for k in op[2]]
            elif op[0] == 'readd':
                pp = ix[('port', L['name'], d['name'], op[1])]
                dd.remove_port(pp)
                if op[2] is None:
                    dd.add_port(pp)
                else:
                    dd.add_port(pp, op[2])
            else:
                raise ValueError('unknown history step %r' % (op,))

    def natural(d):
        return [['port', p['name'], p['width'], None] for p in d['ports']]

    def make_instances(late):
        for L in ad['libraries']:
            for d in L['definitions']:
                dd = ix[('def', L['name'], d['name'])]
                for i in d['instances']:
                    h = i.get('hist') or {}
                    if bool(h.get('late')) != late:
                        continue
                    ref = ix[('def', i['ref'][0], i['ref'][1])]
                    mode = h.get('mode', 'create')
                    if mode == 'create':
                        ii = dd.create_child(name=nm(i), reference=ref)
                    elif mode == 'assign':
                        ii = dd.create_child(name=nm(i))
                        ii.reference = ref
                    else:
                        ii = sdn.Instance(name=nm(i))
                        ii.reference = ref
                        dd.add_child(ii)
                    for k, v in (i.get('properties') or {}).items():
                        ii[k] = copy.deepcopy(v)
                    put(ii, i)
                    ix[('inst', L['name'], d['name'], i['name'])] = ii

    n = sdn.Netlist(name=nm(ad))
    put(n, ad)
    for L in ad['libraries']:
        lib = n.create_library(name=nm(L))
        put(lib, L)
        ix[('lib', L['name'])] = lib
        for d in L['definitions']:
            dd = lib.create_definition(name=nm(d))
            put(dd, d)
            ix[('def', L['name'], d['name'])] = dd
            run_ops(L, d, d['hist']['pre'] if d.get('hist') else natural(d))
            for c in d['cables']:
                cc = dd.create_cable(name=nm(c), wires=c['width'], lower_index=c['base'])
                if 'downto' in c:
                    cc.is_downto = c['downto']
                if c.get('array'):
                    cc.is_scalar = False
                put(cc, c)
                ix[('cable', L['name'], d['name'], c['name'])] = cc
    make_instances(False)
    for L in ad['libraries']:
        for d in L['definitions']:
            if d.get('hist'):
                run_ops(L, d, d['hist']['post'])
    make_instances(True)
    for L in ad['libraries']:         # children in AD order whatever their creation time
        for d in L['definitions']:
            if any((i.get('hist') or {}).get('late') for i in d['instances']):
                ix[('def', L['name'], d['name'])].children = [ix[('inst', L['name'], d['name'], i['name'])] for i in d['instances']]
    for L in ad['libraries']:
        for d in L['definitions']:
            insts = {i['name']: i for i in d['instances']}
            for net in d['nets']:
                c = ix[('cable', L['name'], d['name'], net['cable'])]
                w = c.wires[net['bit'] - c.lower_index]
                for ep in net['endpoints']:
                    if ep[0] == 'port':
                        p = ix[('port', L['name'], d['name'], ep[1])]
                        pin = p.pins[ep[2] - p.lower_index]
                    else:
                        ii = ix[('inst', L['name'], d['name'], ep[1])]
                        rp = ix[('port',) + tuple(insts[ep[1]]['ref']) + (ep[2],)]
                        pin = ii.pins[rp.pins[ep[3] - rp.lower_index]]
                    w.connect_pin(pin)
    if ad.get('top_child'):
        top = ix[('inst',) + tuple(ad['top_child'])]
    else:
        top = sdn.Instance(name=ad.get('top_instance_name'))
        top.reference = ix[('def',) + tuple(ad['top'])]
    n.top_instance = top
    return n


def has_history(ad):
    return any(d.get('hist') or any(i.get('hist') for i in d['instances']) for L in ad['libraries'] for d in L['definitions'])


# ------------------------------------------------------------------------------------------------ variant generator (AD -> ADs)
def gen_port_history(r, d):
    """A random route to the port list of d: creation order, early/late ports, late pins, insertion at a position or appending
    followed by a reorder, pin reorders, a port taken out and put back."""
    names = [p['name'] for p in d['ports']]
    width = {p['name']: p['width'] for p in d['ports']}
    if not names:
        return None
    late_pins = {}
    for x in names:
        if width[x] > 1 and r.random() < 0.4:
            late_pins[x] = [r.randint(1, width[x] - 1), r.choice(['end', 'front', 'rotate'])]
    late = [x for x in names if r.random() < 0.3]
    early = [x for x in names if x not in late]
    method = r.choice(['position', 'reorder'])
    present, pre, post = [], [], []

    def place(ops, x):
        now = width[x] - (late_pins[x][0] if x in late_pins else 0)
        if method == 'position':
            pos = sum(1 for y in present if names.index(y) < names.index(x))
            ops.append(['port', x, now, pos])
            present.insert(pos, x)
        else:
            ops.append(['port', x, now, None])
            present.append(x)
    if r.random() < 0.7:
        r.shuffle(early)
    for x in early:
        place(pre, x)
    want = [x for x in names if x in present]
    if present != want and r.random() < 0.4:
        pre.append(['order', want])
        present[:] = want
    r.shuffle(late)
    for x in late:
        place(post, x)
    for x in names:
        if x in late_pins:
            post.append(['pins', x, late_pins[x][0], late_pins[x][1]])
    multi = [x for x in names if width[x] > 1]
    if multi and r.random() < 0.2:
        x = r.choice(multi)
        perm = list(range(width[x]))
        r.shuffle(perm)
        post.append(['pinperm', x, perm])
    if r.random() < 0.15:
        x = r.choice(names)
        if method == 'position':
            post.append(['readd', x, names.index(x)])
        else:
            post.append(['readd', x, None])
            present.remove(x)
            present.append(x)
    if present != names:
        post.append(['order', names])
    return {'pre': pre, 'post': post}


def add_history(r, ad):
    for L in ad['libraries']:
        for d in L['definitions']:
            if r.random() < 0.85:
                h = gen_port_history(r, d)
                if h:
                    d['hist'] = h
            for i in d['instances']:
                if r.random() < 0.5:
                    i['hist'] = {'late': r.random() < 0.35, 'mode': r.choice(['create', 'assign', 'add'])}


def legal(name):
    s = re.sub(r'[^0-9A-Za-z_]', '_', name)
    return s if s[:1].isalpha() else 'id_' + s


def add_identifiers(r, ad):
    """EDIF.identifier on the netlist, the libraries and the definitions: legal under the EDIF policy and pairwise different
    (ignoring case) among siblings."""
    ad.setdefault('data', {})['EDIF.identifier'] = legal(ad['name'])
    used = set()
    for L in ad['libraries']:
        ident = legal(L['name'])
        while ident.lower() in used:
            ident += '_l'
        used.add(ident.lower())
        L.setdefault('data', {})['EDIF.identifier'] = ident
        du = set()
        for d in L['definitions']:
            base = legal(d['name'])
            ident = r.choice([base, base, base, base.swapcase(), 'c_' + base])
            while ident.lower() in du:
                ident += '_d'
            du.add(ident.lower())
            d.setdefault('data', {})['EDIF.identifier'] = ident


def clone_targets(ad):
    """(library dict, definition dict) of the non-leaf definitions below the top: the ones uniquify may have to copy."""
    db = designs.defs_by_name(ad)
    lib_of = {(L['name'], d['name']): L for L in ad['libraries'] for d in L['definitions']}
    seen, order = set(), []

    def walk(k):
        for i in db[k]['instances']:
            rk = tuple(i['ref'])
            if not designs.is_leaf_def(db[rk]):
                if rk not in seen:
                    seen.add(rk)
                    order.append(rk)
                walk(rk)
    walk(tuple(ad['top']))
    return [(lib_of[k], db[k]) for k in order]


def add_leftovers(r, ad, counter, mode, kind):
    """Definitions that look like the product of an earlier uniquify run.
    kind 'name':       named <X>_sdn_unique_<k>, identifier <identifier of X>_sdn_unique_<k> when X has one
    kind 'identifier': the identifier (in some letter case) is <identifier of X>_sdn_unique_<k>, the name is something else
    mode 'first': k = counter for every X (the first suffix handed out is taken, whichever X is copied first);
    mode 'random': up to 5 random (X, k) with k in counter .. counter+3."""
    targets = clone_targets(ad)
    if not targets:
        return 0
    if mode == 'first':
        picks = [(t, counter) for t in targets[:5]]
    else:
        picks = []
        for _ in range(r.randint(1, 5)):
            p = (r.choice(targets), counter + r.randrange(0, 4))
            if p not in picks:
                picks.append(p)
    top = designs.defs_by_name(ad)[tuple(ad['top'])]
    made = 0
    for (L, X), k in picks:
        names = set(d['name'] for d in L['definitions'])
        idents = set((d.get('data') or {}).get('EDIF.identifier', '').lower() for d in L['definitions'])
        xid = (X.get('data') or {}).get('EDIF.identifier')
        if kind == 'name':
            name = X['name'] + SFX % k
            ident = xid + SFX % k if xid is not None else None
        else:
            if xid is None:
                continue
            name = 'spare%d' % made if r.random() < 0.6 else X['name'].swapcase() + SFX % k
            if name == X['name'] + SFX % k:
                name = 'spare%d' % made
            ident = xid + SFX % k
            ident = r.choice([ident, ident.swapcase(), ident.upper()])
        if name in names or (ident is not None and ident.lower() in idents):
            continue
        if r.random() < 0.7:          # a copy of X, as uniquify leaves it behind
            D = copy.deepcopy(X)
            D.pop('hist', None)
            for i in D['instances']:
                i.pop('hist', None)
        else:                         # something unrelated that happens to carry the name
            D = {'ports': [], 'cables': [{'name': 'n', 'width': 1, 'base': 0}], 'instances': [], 'nets': []}
        D['name'] = name
        D['data'] = dict(D.get('data') or {})
        D['data'].pop('EDIF.identifier', None)
        if ident is not None:
            D['data']['EDIF.identifier'] = ident
        if not D['data']:
            del D['data']
        at = L['definitions'].index(X) + 1 if r.random() < 0.6 else len(L['definitions'])
        L['definitions'].insert(at, D)
        made += 1
        if r.random() < 0.5 and not ad.get('top_child'):      # still in use, pins left unconnected
            iname = 'old%d' % made
            while iname in set(i['name'] for i in top['instances']):
                iname += '_'
            top['instances'].append({'name': iname, 'ref': [L['name'], name], 'properties': {}})
            if r.random() < 0.3:                               # ... twice: the left-over is itself shared
                top['instances'].append({'name': iname + 'b', 'ref': [L['name'], name], 'properties': {}})
    return made


def variants(ad, feats):
    """The derived designs of one base AD (deterministic in the AD)."""
    if feats['shared_nonleaf_static'] < 1 or ad.get('c08') or has_history(ad):
        return []
    r = random.Random('c08/' + designs.ad_hash(ad))
    micro = 'micro' in (ad.get('meta') or {})
    named = not any(e.get('unnamed') for L in ad['libraries'] for d in L['definitions'] for e in [L, d])
    out = []

    def new(label, policy, warmup):
        v = copy.deepcopy(ad)
        v['c08'] = {'variant': label, 'policy': policy, 'warmup': warmup}
        out.append(v)
        return v
    # 1. construction history only
    v = new('history', 'DEFAULT', 0)
    add_history(r, v)
    if not named:
        return out
    # 2./3. a netlist that was uniquified before, under either policy, in a fresh process and after earlier calls
    pols = ['EDIF', 'DEFAULT']
    if micro:
        pols = [pols[ad['meta']['micro'] % 2]]
    for policy in pols:
        c = r.choice([0, 0, 1, 2, 5]) if policy == 'DEFAULT' or r.random() < 0.5 else 0
        v = new('leftover-names', policy, c)
        add_identifiers(r, v)
        add_leftovers(r, v, c, r.choice(['first', 'first', 'random']), 'name')
        if r.random() < 0.5:
            add_history(r, v)
    if micro:
        return out
    # 4. names taken, no identifiers anywhere
    c = r.choice([0, 3])
    v = new('leftover-names-plain', r.choice(['DEFAULT', 'EDIF']), c)
    add_leftovers(r, v, c, 'random', 'name')
    add_history(r, v)
    # 5. identifier taken under another name
    c = r.choice([0, 0, 2])
    v = new('leftover-identifiers', ('EDIF', 'DEFAULT')[r.randrange(2)], c)
    add_identifiers(r, v)
    if not add_leftovers(r, v, c, 'first', 'identifier'):
        out.pop()
    for v in out:
        assert not designs.validate_ad(v), designs.validate_ad(v)
    return out


# Verilog sources whose modules are used before they are declared, with the ports named / listed in another order than the
# module header has them (the parser creates the ports at first use and reorders them when it meets the declaration).
VERILOG_CORNERS = [
    ('use_before_declare_named', """\
module top (input [1:0] a, input b, output [1:0] y, output z);
  wire [1:0] m;
  wire n;
  pair p0 (.sel(b), .q(m), .d(a), .r(n));
  pair p1 (.r(z), .d(m), .sel(n), .q(y));
endmodule

module pair (input [1:0] d, input sel, output [1:0] q, output r);
  wire t;
  BUF2 b0 (.I(d), .O(q));
  inner i0 (.o(t), .i(sel));
  inner i1 (.o(r), .i(t));
endmodule

module inner (input i, output o);
  BUF1 b (.I(i), .O(o));
endmodule
"""),
    ('declared_first_named_out_of_order', """\
module inner (input i, output [1:0] o, input e);
  BUF1 b (.I(i), .O(o[0]));
  BUF1 c (.I(e), .O(o[1]));
endmodule

module top (input a, input b, output [3:0] y);
  inner u0 (.e(b), .o(y[1:0]), .i(a));
  inner u1 (.o(y[3:2]), .i(b), .e(a));
endmodule
"""),
]


def verilog_corner_ads():
    return [{'name': nm, 'libraries': [], 'top': None, 'meta': {'corner': 'verilog:' + nm},
             'c08': {'variant': 'verilog', 'policy': 'DEFAULT', 'warmup': 0, 'verilog': src}} for nm, src in VERILOG_CORNERS]


# ------------------------------------------------------------------------------------------------ one design
def warm_up(c):
    """Fresh-process state of uniquify's counter, then c clones made by uniquify on another netlist."""
    U.MOD_NAME_UID = 0
    if not c:
        return
    n = sdn.Netlist(name='warmup')
    lib = n.create_library(name='work')
    leaf = lib.create_definition(name='leaf')
    mid = lib.create_definition(name='mid')
    mid.create_child(name='l', reference=leaf)
    top = lib.create_definition(name='top')
    for k in range(c + 1):
        top.create_child(name='m%d' % k, reference=mid)
    ti = sdn.Instance(name='t')
    ti.reference = top
    n.top_instance = ti
    U.uniquify(n)
    assert U.MOD_NAME_UID == c, 'warm-up left the counter at %r, wanted %r' % (U.MOD_NAME_UID, c)


def ident_of(d):
    v = d['EDIF.identifier'] if 'EDIF.identifier' in d else None
    return v if isinstance(v, str) else None


def identifier_taken(n):
    """Input class: some definition's identifier is <identifier of X>_sdn_unique_<k> (ignoring case) for a definition X of the
    same library although its name is not <name of X>_sdn_unique_<k>."""
    for l in n.libraries:
        defs = list(l.definitions)
        for x in defs:
            xi = ident_of(x)
            if xi is None or x.name is None or oracles.is_leaf_definition(x):     # only non-leaf definitions are ever copied
                continue
            pat = re.compile(re.escape(xi.lower()) + r'_sdn_unique_(\d+)$')
            for y in defs:
                yi = ident_of(y)
                m = pat.match(yi.lower()) if (yi is not None and y is not x) else None
                if m and y.name != x.name + SFX % int(m.group(1)):
                    return True
    return False


def out_of_order_instances(n):
    """How many instances of shared non-leaf definitions below the top list their pins in another order than the ports do."""
    k = 0
    for i in reachable_instances(n):
        r = i.reference
        if oracles.is_leaf_definition(r) or len(r.references) < 2:
            continue
        want = [id(q) for p in r.ports for q in p.pins]
        have = [id(o.inner_pin) for o in i.pins]
        if want != have:
            k += 1
    return k


def one(ad, f):
    cfg = ad.get('c08') or {}
    policy = cfg.get('policy', 'DEFAULT')
    saved = NM.default
    NM.default = policy
    try:
        if cfg.get('verilog'):
            with tempfile.TemporaryDirectory() as td:
                path = os.path.join(td, 'design.v')
                with open(path, 'w') as fh:
                    fh.write(cfg['verilog'])
                n = sdn.parse(path)
        elif has_history(ad):
            n = build_hist(ad)
            ref = designs.build_api(ad)
            same = oracles.canon(n) == oracles.canon(ref) and oracles.elab(n) == oracles.elab(ref)
            assert same, 'build_hist and build_api disagree: %s' % (oracles.diff(oracles.canon(ref), oracles.canon(n)))
        else:
            n = designs.build_api(ad)
        warm_up(cfg.get('warmup', 0))
    finally:
        NM.default = saved
    f.stats['designs'] += 1
    f.stats['variant:%s/%s/counter%s' % (cfg.get('variant', 'base'), policy, '0' if not cfg.get('warmup') else '>0')] += 1
    tag = '[identifier-taken]' if identifier_taken(n) else ''
    ooo = out_of_order_instances(n)
    f.stats['instances_with_pins_out_of_port_order'] += ooo
    f.stats['designs_with_pins_out_of_port_order'] += 1 if ooo else 0
    counter0 = U.MOD_NAME_UID
    e0 = oracles.elab(n)
    before = {id(d): (l, d.name) for l in n.libraries for d in l.definitions}
    names_before = {id(l): [d.name for d in l.definitions] for l in n.libraries}
    idents_before = {id(l): [ident_of(d) for d in l.definitions] for l in n.libraries}
    ok = [False]

    def go():
        U.uniquify(n)
        ok[0] = True
    f.guarded('C08.raises', 'uniquify' + tag, go)
    if not ok[0]:
        return
    # every non-leaf instance reachable from the top is the only instance of its definition
    shared = [i for i in reachable_instances(n) if not oracles.is_leaf_definition(i.reference) and len(i.reference.references) != 1]
    f.check(not shared, 'C08.sole-ref', 'reachable-nonleaf',
            '%d reachable non-leaf instance(s) share a definition, e.g. %s of %s with %d references' % (
                len(shared), shared[0].name if shared else '', shared[0].reference.name if shared else '', len(shared[0].reference.references) if shared else 0))
    also = [i for i in reachable_instances(n) if not oracles.is_leaf_definition(i.reference) and
            sum(1 for x in i.reference.references if x is i) != 1]
    f.check(not also, 'C08.sole-ref', 'refset-membership', 'a reachable non-leaf instance is not the member of its definition\'s reference set')
    # the elaborated design is untouched
    e1 = oracles.elab(n)
    f.check(e0['hier'] == e1['hier'], 'C08.elab', 'hier', 'instance-path tree changed: %s' % oracles.diff(e0['hier'], e1['hier']))
    f.check(e0['leaves'] == e1['leaves'], 'C08.elab', 'leaves', 'leaf cell type changed: %s' % oracles.diff(e0['leaves'], e1['leaves']))
    f.check(e0['nets'] == e1['nets'], 'C08.elab', 'nets', 'net partition changed: %s' % oracles.diff(e0['nets'], e1['nets']))
    # well-formed
    inv = irlib.check_inv([n])
    for clause in sorted(set(e[0] for e in inv)):
        f.fail('C08.inv', clause, [e[1] for e in inv if e[0] == clause][0])
    f.ok(4)
    # new definitions: fresh unique names, in the library of the definition they copy
    new = [(l, d) for l in n.libraries for d in l.definitions if id(d) not in before]
    f.stats['new_definitions'] += len(new)
    f.stats['suffixes_skipped_because_taken'] += U.MOD_NAME_UID - counter0 - sum(1 for l, d in new if d.name is not None)
    for l, d in new:
        nm = d.name
        if nm is None:
            f.fail('C08.fresh-names', 'unnamed', 'a new definition has no name')
            continue
        base = SUFFIX.sub('', nm)
        f.check(base != nm, 'C08.fresh-names', 'documented-suffix', 'new definition %r does not carry the documented _sdn_unique_# suffix' % nm)
        origin_here = any(x.name == base for x in l.definitions)
        f.check(origin_here, 'C08.fresh-names', 'original-library', 'new definition %r is in library %r which holds no definition %r' % (nm, l.name, base))
        f.check(nm not in names_before[id(l)], 'C08.fresh-names', 'fresh', 'new definition took the existing name %r' % nm)
        f.check(sum(1 for x in l.definitions if x.name == nm) == 1, 'C08.fresh-names', 'unique', 'name %r occurs twice in library %r' % (nm, l.name))
        idn = ident_of(d)
        if idn is not None:           # the name an EDIF file is written with: as fresh as the name
            taken = [x for x in idents_before[id(l)] if x is not None and x.lower() == idn.lower()]
            f.check(not taken, 'C08.fresh-names', 'identifier-fresh' + tag,
                    'new definition %r took the EDIF identifier %r of an existing definition of library %r' % (nm, idn, l.name))
    for l in n.libraries:     # nothing old was renamed or dropped
        kept = [d.name for d in l.definitions if id(d) in before]
        f.check(kept == names_before[id(l)], 'C08.fresh-names', 'old-definitions-kept', 'pre-existing definitions of %r changed: %r -> %r' % (l.name, names_before[id(l)], kept))
        keptid = [ident_of(d) for d in l.definitions if id(d) in before]
        f.check(keptid == idents_before[id(l)], 'C08.fresh-names', 'old-identifiers-kept', 'EDIF identifiers of pre-existing definitions of %r changed: %r -> %r' % (l.name, idents_before[id(l)], keptid))
    for l in n.libraries:     # names and (ignoring case) EDIF identifiers are unique within each library, as they were
        for what, was, now, site in (('name', [x for x in names_before[id(l)] if x is not None], [d.name for d in l.definitions if d.name is not None], 'names-unique'),
                                     ('EDIF identifier', [x.lower() for x in idents_before[id(l)] if x is not None],
                                      [ident_of(d).lower() for d in l.definitions if ident_of(d) is not None], 'identifiers-unique' + tag)):
            if len(set(was)) != len(was):
                continue              # not unique to begin with: nothing is claimed
            dup = sorted(set(x for x in now if now.count(x) > 1))
            f.check(not dup, 'C08.fresh-names', site, 'library %r holds two definitions with the %s %r after uniquify' % (l.name, what, dup[0] if dup else ''))
    # idempotent
    c1 = oracles.canon(n)
    ok[0] = False
    f.guarded('C08.raises', 'uniquify-again', go)
    if ok[0]:
        c2 = oracles.canon(n)
        f.check(c1 == c2, 'C08.idempotent', 'canon', oracles.diff(c1, c2))


_verilog_done = [False]


def case(ad, f):
    """The design as it is, then its variants; a failure is recorded with the AD of the variant it happened on."""
    one(ad, f)
    if ad.get('c08') or has_history(ad):      # a replayed variant
        return
    todo = variants(ad, designs.ad_features(ad))
    if (ad.get('meta') or {}).get('corner') and not _verilog_done[0]:      # fixed parsed sources ride along with the corner designs
        _verilog_done[0] = True
        todo = todo + verilog_corner_ads()
    for v in todo:
        f.ad = v
        try:
            one(v, f)
        except Exception:
            f.fail('HARNESS', 'variant', traceback.format_exc()[-900:])
        finally:
            f.ad = ad


def profile_for(seed):
    return ('plain', 'named')[seed % 2]


def nontrivial(ad, feats):
    return feats['shared_nonleaf_static'] >= 1


if __name__ == '__main__':
    bcommon.main(case, profile_for, nontrivial)
