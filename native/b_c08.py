"""Bounded stand-in for C08: contract on the real spydrnet.uniquify.uniquify(netlist) over generated designs.

  C08.raises        uniquify raised                                                   site: exception type at spydrnet location
  C08.sole-ref      a non-leaf instance reachable from the top shares its definition  site: 'reachable-nonleaf'
  C08.elab          the elaborated design changed                                     site: hier | leaves | nets
  C08.inv           Inv (I1-I4) fails afterwards                                      site: clause
  C08.fresh-names   a new definition is not in its original's library / name not fresh/unique   site: which clause
  C08.idempotent    a second uniquify changed canon                                   site: 'canon'
Every case starts with the module counter of uniquify at 0 (= a fresh process), so a replay is exact.
"""
import re
import spydrnet as sdn
import spydrnet.uniquify as U
import designs, oracles, irlib, bcommon

SUFFIX = re.compile(r'_sdn_unique_\d+$')


def reachable_instances(n):
    """Instance objects reachable from the top instance (public attributes only), each once."""
    out, seen, stack = [], set(), [n.top_instance]
    while stack:
        i = stack.pop()
        r = i.reference
        if r is None:
            continue
        for ch in r.children:
            if id(ch) not in seen:
                seen.add(id(ch))
                out.append(ch)
                stack.append(ch)
    return out


def case(ad, f):
    n = designs.build_api(ad)
    U.MOD_NAME_UID = 0
    e0 = oracles.elab(n)
    before = {id(d): (l, d.name) for l in n.libraries for d in l.definitions}
    names_before = {id(l): [d.name for d in l.definitions] for l in n.libraries}
    ok = [False]

    def go():
        U.uniquify(n)
        ok[0] = True
    f.guarded('C08.raises', 'uniquify', go)
    if not ok[0]:
        return
    # every non-leaf instance reachable from the top is the only instance of its definition
    shared = [i for i in reachable_instances(n) if not oracles.is_leaf_definition(i.reference) and len(i.reference.references) != 1]
    f.check(not shared, 'C08.sole-ref', 'reachable-nonleaf',
            '%d reachable non-leaf instance(s) share a definition, e.g. %s of %s with %d references' % (
                len(shared), shared[0].name if shared else '', shared[0].reference.name if shared else '', len(shared[0].reference.references) if shared else 0))
    also = [i for i in reachable_instances(n) if not oracles.is_leaf_definition(i.reference) and
            sum(1 for x in i.reference.references if x is i) != 1]
    f.check(not also, 'C08.sole-ref', 'refset-membership', 'a reachable non-leaf instance is not the member of its definition\'s reference set')
    # the elaborated design is untouched
    e1 = oracles.elab(n)
    f.check(e0['hier'] == e1['hier'], 'C08.elab', 'hier', 'instance-path tree changed: %s' % oracles.diff(e0['hier'], e1['hier']))
    f.check(e0['leaves'] == e1['leaves'], 'C08.elab', 'leaves', 'leaf cell type changed: %s' % oracles.diff(e0['leaves'], e1['leaves']))
    f.check(e0['nets'] == e1['nets'], 'C08.elab', 'nets', 'net partition changed: %s' % oracles.diff(e0['nets'], e1['nets']))
    # well-formed
    inv = irlib.check_inv([n])
    for clause in sorted(set(e[0] for e in inv)):
        f.fail('C08.inv', clause, [e[1] for e in inv if e[0] == clause][0])
    f.ok(4)
    # new definitions: fresh unique names, in the library of the definition they copy
    new = [(l, d) for l in n.libraries for d in l.definitions if id(d) not in before]
    f.stats['new_definitions'] += len(new)
    for l, d in new:
        nm = d.name
        if nm is None:
            f.fail('C08.fresh-names', 'unnamed', 'a new definition has no name')
            continue
        base = SUFFIX.sub('', nm)
        f.check(base != nm, 'C08.fresh-names', 'documented-suffix', 'new definition %r does not carry the documented _sdn_unique_# suffix' % nm)
        origin_here = any(x.name == base for x in l.definitions)
        f.check(origin_here, 'C08.fresh-names', 'original-library', 'new definition %r is in library %r which holds no definition %r' % (nm, l.name, base))
        f.check(nm not in names_before[id(l)], 'C08.fresh-names', 'fresh', 'new definition took the existing name %r' % nm)
        f.check(sum(1 for x in l.definitions if x.name == nm) == 1, 'C08.fresh-names', 'unique', 'name %r occurs twice in library %r' % (nm, l.name))
    for l in n.libraries:     # nothing old was renamed or dropped
        kept = [d.name for d in l.definitions if id(d) in before]
        f.check(kept == names_before[id(l)], 'C08.fresh-names', 'old-definitions-kept', 'pre-existing definitions of %r changed: %r -> %r' % (l.name, names_before[id(l)], kept))
    # idempotent
    c1 = oracles.canon(n)
    ok[0] = False
    f.guarded('C08.raises', 'uniquify-again', go)
    if ok[0]:
        c2 = oracles.canon(n)
        f.check(c1 == c2, 'C08.idempotent', 'canon', oracles.diff(c1, c2))


def profile_for(seed):
    return ('plain', 'named')[seed % 2]


def nontrivial(ad, feats):
    return feats['shared_nonleaf_static'] >= 1


if __name__ == '__main__':
    bcommon.main(case, profile_for, nontrivial)
