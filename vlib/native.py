"""Run a script of /verif/native under the repository's interpreter (/venv/bin/python, PYTHONPATH=<repo>)
and exchange JSON with it.  The engine side (python3-vt) never imports spydrnet."""
import json, os, subprocess, sys, tempfile
from vlib.report import VERIF, REPO

VENV_PY = os.environ.get('VERIF_NATIVE_PY', '/venv/bin/python')

def run_native(script, payload=None, timeout=1800, args=()):
    env = dict(os.environ)
    env['PYTHONPATH'] = REPO + os.pathsep + os.path.join(VERIF, 'native')
    env['PYTHONDONTWRITEBYTECODE'] = '1'
    env['PYTHONHASHSEED'] = '0'
    env['VERIF_REPO'] = REPO
    # the plugin loader reads ./.spydrnet relative to the cwd -> run inside the repo like the test suite does
    p = subprocess.run([VENV_PY, '-B', os.path.join(VERIF, 'native', script), *args],
                       input=json.dumps(payload or {}), capture_output=True, text=True, timeout=timeout,
                       env=env, cwd=REPO)
    out = p.stdout
    marker = '\n@@JSON@@\n'
    if marker in out:
        out = out.split(marker, 1)[1]
    try:
        return json.loads(out)
    except Exception:
        return {'error': 'native script %s failed (rc=%s): %s | %s' % (script, p.returncode, p.stdout[-800:], p.stderr[-1500:])}
