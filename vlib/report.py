"""Verdict bookkeeping shared by every check: obligations (P = SMT-discharged, S = syntactic),
bounded cases (B), violations, known findings, evidence file, exit code.

Exit codes: 0 property held on everything explored (KNOWN-FINDING lines allowed);
            1 at least one VIOLATION line;  2 checker error / undecided only (never a VIOLATION line).
"""
import json, os, sys, time, hashlib

VERIF = os.path.dirname(os.path.dirname(os.path.abspath(__file__)))
REPO = os.environ.get('VERIF_REPO', '/repo')


def load_known():
    p = os.path.join(VERIF, 'known_findings.json')
    if not os.path.exists(p):
        return []
    return json.load(open(p)).get('findings', [])


class Report:
    def __init__(self, pid, tier, seed, level):
        self.pid, self.tier, self.seed, self.level = pid, tier, seed, level
        self.t0 = time.time()
        self.P = []          # dicts: name, status(discharged|failed|undecided), backend, time_s, function
        self.S = []          # dicts: name, ok, detail
        self.B = {'evaluations': 0, 'distinct': set(), 'rule': '', 'bounds': {}, 'samples': []}
        self.violations = []  # dicts: key, what, replay, nfi
        self.known_hit = []
        self.errors = []
        self.degraded = []
        self.functions = {}   # name -> sha of ast dump
        self.assumptions = []
        self.trusted = []
        self.explanation = ''
        self.extra = {}
        self.known = [k for k in load_known() if k.get('property') == pid and k.get('status', 'open') == 'open']

    # ---------------------------------------------------------------- recording
    def p(self, name, status, backend='z3', time_s=0.0, function=None, detail=None):
        self.P.append({'name': name, 'status': status, 'backend': backend, 'time_s': round(time_s, 4),
                       'function': function, **({'detail': detail} if detail else {})})

    def s(self, name, ok, detail=''):
        self.S.append({'name': name, 'ok': bool(ok), 'detail': detail})

    def b_case(self, signature, nontrivial=True, sample=None):
        self.B['evaluations'] += 1
        if nontrivial:
            self.B['distinct'].add(hashlib.sha1(repr(signature).encode()).hexdigest()[:16])
        if sample is not None and len(self.B['samples']) < 5:
            self.B['samples'].append(sample)

    def b_bulk(self, evaluations, distinct_hashes, samples=()):
        self.B['evaluations'] += evaluations
        self.B['distinct'].update(distinct_hashes)
        for s in samples:
            if len(self.B['samples']) < 5:
                self.B['samples'].append(s)

    def error(self, msg):
        self.errors.append(msg)

    def degrade(self, function, reason):
        self.degraded.append({'function': function, 'reason': reason})

    def violation(self, key, what, replay=None, nfi=False):
        """key: obligation name or bounded-case signature.  replay: JSON-able object written to a replay file."""
        import re as _re
        for k in self.known:
            if k.get('key') == key or (k.get('key_prefix') and key.startswith(k['key_prefix'])) or \
                    (k.get('key_regex') and _re.match(k['key_regex'], key)):
                if not any(h['what'] == k.get('what', what) for h in self.known_hit):
                    self.known_hit.append({'key': key, 'what': k.get('what', what)})
                return
        path = None
        if replay is not None or nfi:
            d = os.environ.get('VERIF_REPLAY_DIR') or os.path.join(VERIF, 'replays')
            os.makedirs(d, exist_ok=True)
            safe = ''.join(c if c.isalnum() or c in '._-' else '_' for c in key)[:120]
            path = os.path.join(d, '%s__%s.json' % (self.pid, safe))
            with open(path, 'w') as f:
                json.dump({'property': self.pid, 'key': key, 'what': what, 'no_failing_input_found': bool(nfi),
                           'replay': replay}, f, indent=1, default=str)
        self.violations.append({'key': key, 'what': what, 'replay': path, 'nfi': nfi})

    # ---------------------------------------------------------------- finishing
    def finish(self):
        nP = len(self.P)
        disc = sum(1 for o in self.P if o['status'] == 'discharged')
        sOK = sum(1 for o in self.S if o['ok'])
        wall = time.time() - self.t0
        by_backend = {}
        for o in self.P:
            if o['status'] == 'discharged':
                by_backend[o['backend']] = by_backend.get(o['backend'], 0) + 1
        cov = {
            'explanation': self.explanation,
            'obligations': nP + len(self.S),
            'discharged': disc + sOK,
            'smt_obligations': nP, 'smt_discharged': disc, 'smt_by_backend': by_backend,
            'smt_time_sum_s': round(sum(o['time_s'] for o in self.P), 2),
            'smt_time_max_s': round(max([o['time_s'] for o in self.P] or [0]), 2),
            'syntactic_obligations': len(self.S), 'syntactic_discharged': sOK,
            'checker_cmd': 'bin/check %s --tier %s' % (self.pid, self.tier),
            'trusted_base': self.trusted,
            'functions_under_contract': self.functions,
            'degraded': self.degraded,
            'bounded': {'label': 'bounded stand-in; never counted as proved',
                        'evaluations': self.B['evaluations'], 'distinct_nontrivial': len(self.B['distinct']),
                        'rule': self.B['rule'], 'bounds': self.B['bounds']},
            'evaluations': self.B['evaluations'],
            'distinct_nontrivial': len(self.B['distinct']),
            'rule': self.B['rule'],
            'samples': (self.B['samples'] + [o for o in self.P[:3]] + [o for o in self.S[:2]])[:8] or ['none'],
            'undischarged': [o for o in self.P if o['status'] != 'discharged'][:50],
            'syntactic_failed': [o for o in self.S if not o['ok']][:50],
            'known_findings_hit': self.known_hit,
            'errors': self.errors[:20],
        }
        cov.update(self.extra)
        level = self.level
        if level == 'proof' and (self.degraded or nP == 0):
            level = 'other'
        if level == 'exploration' and (cov['evaluations'] < 1 or cov['distinct_nontrivial'] < 2):
            self.errors.append('too few bounded evaluations for an exploration-level claim')
        ev = {'property_id': self.pid, 'tier': self.tier, 'seed': self.seed, 'level': level, 'coverage': cov,
              'assumptions': self.assumptions, 'wall_s': round(wall, 2), 'violations': len(self.violations)}
        evdir = os.environ.get('VERIF_EVIDENCE_DIR') or os.path.join(VERIF, 'evidence')   # (redirected only by the mutation-campaign tool)
        os.makedirs(evdir, exist_ok=True)
        with open(os.path.join(evdir, self.pid + '.json'), 'w') as f:
            json.dump(ev, f, indent=1, default=str)
        for k in self.known_hit:
            print('KNOWN-FINDING: property=%s %s' % (self.pid, k['what']))
        for d in self.degraded:
            print('DEGRADED function=%s reason=%s' % (d['function'], d['reason']))
        for v in self.violations:
            print('VIOLATION property=%s replay=%s%s' % (self.pid, v['replay'], ' no-failing-input-found' if v['nfi'] else ''))
            print('  what: %s' % v['what'])
        for e in self.errors:
            print('CHECKER-ERROR %s' % e)
        und = [o for o in self.P if o['status'] == 'undecided']
        for o in und[:10]:
            print('UNDECIDED %s (%s)' % (o['name'], o.get('detail', '')))
        print('SUMMARY property=%s tier=%s smt=%d/%d syntactic=%d/%d bounded=%d (distinct %d) wall=%.1fs' % (
            self.pid, self.tier, disc, nP, sOK, len(self.S), self.B['evaluations'], len(self.B['distinct']), wall))
        if self.violations:
            return 1
        if self.errors or und:
            return 2
        print('PASS property=%s' % self.pid)
        return 0
