"""Entry point: bin/check <ID> [--tier quick|thorough] [--replay PATH]"""
import sys, os, argparse, importlib, traceback
sys.path.insert(0, os.path.dirname(os.path.dirname(os.path.abspath(__file__))))
from vlib.report import Report

LEVELS = {}

def main():
    ap = argparse.ArgumentParser()
    ap.add_argument('pid')
    ap.add_argument('--tier', default=os.environ.get('VERIF_TIER', 'quick'), choices=['quick', 'thorough'])
    ap.add_argument('--replay', default=None)
    a = ap.parse_args()
    seed = int(os.environ.get('VERIF_SEED', '0') or 0)
    mod = importlib.import_module('props.' + a.pid)
    if a.replay:
        sys.exit(mod.replay(a.replay))
    rep = Report(a.pid, a.tier, seed, mod.LEVEL)
    try:
        mod.run(rep, a.tier, seed)
    except Exception:
        rep.error('engine exception: ' + traceback.format_exc()[-1500:])
    sys.exit(rep.finish())

if __name__ == '__main__':
    main()
