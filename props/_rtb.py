"""Shared driver of the bounded reader/writer tier (C03, C04, C05, C06, C18): seeds and bundled files are split over
16 native worker processes (native/b_cXX.py under /venv/bin/python with PYTHONPATH=<repo>), results are aggregated into
the Report.  Every bound is recorded in rep.B['bounds']; distinct_nontrivial is the measured number of distinct
(abstract design, style) hashes / bundled files that satisfy the rule in rep.B['rule']."""
import concurrent.futures as cf, glob, json, os
from vlib.native import run_native
from vlib.report import REPO

W = 16
SKIP = {'leon3mp.edf.zip', 'osfbm.edf.zip'}
SUB = {'edif': 'EDIF_netlists', 'verilog': 'verilog_netlists', 'eblif': 'eblif_netlists'}
HIER_BOUNDS = {'libraries': '2-4 (Verilog: hdi_primitives + work)', 'leaf_definitions': '1-3 with 1-3 ports of width 1-4', 'non_leaf_definitions': '1-5',
               'ports_per_definition': '0-3 of width 1-4, base 0-3 (Verilog: base 0, downto)', 'cables_per_definition': '0-5 of width 1-4, base 0-7 (+ port cables and \\<const0>/\\<const1> in Verilog)',
               'instances_per_definition': '0-4 (+ the ones added to give Verilog designs a single root)', 'hierarchy_depth': 'up to 6',
               'connection_probability_per_pin': 0.75, 'names': '25% from an adversarial alphabet (case-only siblings, non-alphabetic first character, brackets, dots, slashes, spaces, escaped identifiers)',
               'edif_properties': '0-3 per instance: string / integer / boolean, names that need a rename', 'verilog_data': 'instance parameters and attributes, module parameters and attributes, wire attributes, 0-2 assigns per module',
               'edif_same_cell_name_in_two_libraries': '20% of the designs (half of them the top cell, 60% of those in an unreferenced library of its own, 30% as a case variant)',
               'edif_source_styles': 'comments with 0-3 strings at every place the reader accepts one (each must come back as a tuple under EDIF.comments of its element), status absent / empty / several written / author / program, optional designator / property / status on cell, view, interface, port, net, ports without direction (read as UNDEFINED), design anywhere after its library with libraries / comments after it, comment inside keywordMap',
               'verilog_attribute_groups': 'attributes of one module / instance / wire cut into 2-3 separate (* *) groups (all must be merged), an earlier group giving one name another value (the later wins), groups before body port declarations',
               'verilog_header_aliases_onto_vector_nets': 'about 27% of the C04 cases: port pins on bits of its own net permuted / offset / sub-range / mixed with other nets, on a differently named vector net (contiguous or permuted, base 0/2/5), two ports on one net; a variant is used only when the reader returns it as the text says (the support page limits aliases)',
               'verilog_permuted_or_repeated_inner_bits': '25% of the designs that instantiate a port of >= 4 bits: that port fed from one cable, end bits in slice position'}
FLAT_BOUNDS = {'top_ports': '1-4 of width 1-3', 'black_box_models': '1-3 with 1-4 ports of width 1-3, 70% declared', 'nets': '3-8 scalar + 0-2 buses of width 2-4 + port nets',
               'instances': '2-7 (.subckt 5 : .gate 1 : .names 3 : .latch 2), 70% with .cname, 0-2 .attr, 0-2 .param', 'conn_statements': '0-2', 'wide_names': '12% of the designs get one extra .names with 11-13 inputs', 'names': '30% from an adversarial alphabet ($ . : ~ ^ \\\\)',
               'reserved_words_inside_net_names': '35% of the designs: 1-3 used nets renamed to names containing unconn / $true / $false / $undef / statement keywords / look-alike bit suffixes as prefix, suffix, infix or case variant'}


def bundled(kind, max_zip_bytes):
    out = []
    for z in sorted(glob.glob(os.path.join(REPO, 'example_netlists', SUB[kind], '*.zip'))):
        b = os.path.basename(z)
        if b in SKIP or os.path.getsize(z) == 0 or os.path.getsize(z) > max_zip_bytes:
            continue
        out.append(z)
    return out


def run(rep, pid, script, tier, seed, spec, rule, extra=None, gen_bounds=None):
    """spec[tier] = {'designs': n, 'styles': k, 'files': {kind: max_zip_bytes}, 'limit': s, 'file_limit': s}"""
    sp = spec[tier]
    seeds = [seed * 1000003 + i for i in range(sp['designs'])]
    files = []
    for kind, mx in sp.get('files', {}).items():
        files += bundled(kind, mx)
    # big files first so that they do not end up at the tail of one worker
    files.sort(key=lambda z: -os.path.getsize(z))
    payloads = []
    for i in range(W):
        p = {'seeds': seeds[i::W], 'files': files[i::W], 'styles': sp.get('styles', 1), 'tier': tier,
             'limit': sp.get('limit', 20), 'file_limit': sp.get('file_limit', 60)}
        p.update(extra or {})
        p['corners'] = (i == 0)          # the fixed corner designs of the generators run once per invocation, in the first worker
        if p['seeds'] or p['files'] or p['corners']:
            payloads.append(p)
    fails = []
    with cf.ThreadPoolExecutor(W) as ex:
        for out in ex.map(lambda a: run_native(script, a, timeout=sp.get('worker_timeout', 3000)), payloads):
            if 'error' in out:
                rep.error(out['error'][:700]); continue
            rep.b_bulk(out['evaluations'], out['hashes'], out['samples'][:1])
            fails += out['failures']
    rep.B['rule'] = rule
    rep.B['bounds'] = {'designs': sp['designs'], 'styles_per_design': sp.get('styles', 1), 'bundled_files': len(files),
                       'bundled_max_zip_bytes': sp.get('files', {}), 'per_case_time_limit_s': sp.get('limit', 20),
                       'per_file_time_limit_s': sp.get('file_limit', 60), 'workers': W, 'seed': seed,
                       'fixed_corner_designs': 'run on every invocation (rtcommon.corner_ads / render_eblif.corner_ads)',
                       'skipped_by_name': sorted(SKIP), 'generator': gen_bounds or {}, **(sp.get('note') or {})}
    report(rep, pid, fails)
    return fails


def report(rep, pid, fails):
    seen = set()
    for f in fails:
        if f['check'] == 'HARNESS':
            rep.error('bounded harness (%s): %s' % (f['site'], f['detail'][-400:])); continue
        key = 'B/%s/%s' % (f['check'], f['site'])
        if key in seen:
            continue
        seen.add(key)
        rep.violation(key, '%s [%s]: %s' % (f['check'], f['site'], f['detail'][:500]), replay=f['replay'])


def replay(path, pid, script):
    d = json.load(open(path))
    r = d.get('replay') or {}
    out = run_native(script, {'replay': r, 'all_failures': True})
    if out.get('error'):
        print('CHECKER-ERROR', out['error'][:500])
        return 2
    fs = [f for f in out.get('failures', []) if f['check'] != 'HARNESS']
    want = d.get('key', '')
    hit = [f for f in fs if 'B/%s/%s' % (f['check'], f['site']) == want] or fs
    if hit:
        f = hit[0]
        print('REPLAY reproduces: %s [%s] %s' % (f['check'], f['site'], f['detail'][:400]))
        print('VIOLATION property=%s replay=%s' % (pid, path))
        return 1
    print('REPLAY does not reproduce on this tree')
    return 0
