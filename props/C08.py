"""C08 (uniquify makes every non-leaf instance unique without changing the design): bounded stand-in on spydrnet.uniquify.uniquify."""
from props import _designb
LEVEL = 'exploration'
PID = 'C08'
RULE = ('distinct = distinct abstract design (hash of the AD); non-trivial = at least one non-leaf definition reachable from the top '
        'that is instanced more than once')


def run(rep, tier, seed):
    rep.explanation = 'bounded stand-in only: sole-reference of every reachable non-leaf instance, independent elaboration before/after, Inv, fresh names in the original library, idempotence'
    rep.assumptions = ['Tier B: everything outside the stated bounds is unexplored (DESIGN.md 8.12)',
                       'oracles (canon / elab / occurrence enumeration / Inv) read public attributes only and are calibrated against an AD-level elaborator']
    fails = _designb.run_designs(rep, PID, tier, seed, RULE, extra_bounds={'uniquify_counter': 'reset to 0 before every case (fresh-process semantics)'})
    _designb.report_failures(rep, PID, fails)


def replay(path):
    return _designb.replay(path, PID)
