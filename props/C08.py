"""C08 (uniquify makes every non-leaf instance unique without changing the design): contract on the decision step _is_unique (pyvc suite
'uniq') + bounded stand-in on spydrnet.uniquify.uniquify."""
from props import _designb, _pv
LEVEL = 'other'
PID = 'C08'
RULE = ('distinct = distinct abstract design (hash of the AD); non-trivial = at least one non-leaf definition reachable from the top '
        'that is instanced more than once')


def run(rep, tier, seed):
    failed = _pv.run_suite(rep, PID, 'uniq', tier)
    rep.explanation = ('helper level (P): uniquify._is_unique(instance) (and the public Instance.is_unique(), same specification) is True exactly when the instance\'s definition is instantiated once (cardinality of its reference set) or is a leaf '
                       '(no children, no cables), writes nothing and does not raise, for all heaps satisfying Inv -- the test that decides which instances the work-list leaves alone; '
                       '_make_instance_unique and the work-list itself: bounded stand-in: sole-reference of every reachable non-leaf instance, independent elaboration before/after, Inv, fresh names AND fresh '
                       'EDIF identifiers (ignoring case) in the original library, idempotence; designs are also rebuilt through construction histories that '
                       'leave instance pin dictionaries out of port order (late / inserted / permuted ports and pins, use-before-declaration Verilog) and '
                       'under both naming policies with left-over <name>_sdn_unique_<k> names / identifiers and several states of the suffix counter')
    rep.assumptions = ['Tier B: everything outside the stated bounds is unexplored (DESIGN.md 8.12)',
                       'oracles (canon / elab / occurrence enumeration / Inv) read public attributes only and are calibrated against an AD-level elaborator']
    fails = _designb.run_designs(rep, PID, tier, seed, RULE, extra_bounds={'uniquify_counter': 'reset to 0 before every case, then advanced to c in {0,1,2,3,5} by a real warm-up uniquify call in the naming variants', 'policies': ['DEFAULT', 'EDIF'], 'variants_per_design': 'history, naming, history+naming, left-over names, left-over identifiers'})
    _designb.report_failures(rep, PID, fails)
    _pv.report_failed(rep, failed)
    rep.trusted = list(getattr(rep, 'trusted', []) or []) + ['pyvc VC generator (DESIGN.md 3), z3/cvc5', 'IR heap model (reference sets as Bool arrays with a cardinality function) of pyvc/logic.py']
    rep.assumptions.append('helper contract: the instance has a definition (uniquify reaches instances through children lists of a well-formed netlist); the netlist satisfies Inv')


def replay(path):
    if _pv.replay_obligation(path): return 0
    return _designb.replay(path, PID)
