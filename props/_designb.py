"""Bounded stand-in tier for the design-quantified properties (C07, C08, C09, C11, C12, C20): contracts on the real entry
points evaluated natively (native/b_cXX.py) over seeded abstract designs (native/designs.py) against the independent oracles
(native/oracles.py).  The seeds are split over 16 worker processes."""
import concurrent.futures as cf, json, os
from vlib.native import run_native

DESIGNS = {'quick': 150, 'thorough': 3000}
WORKERS = 16
GENERATOR_BOUNDS = {
    'libraries': '2-3 (one primitives library, 1-2 design libraries)',
    'leaf_definitions': '1-4 (no cables, no children), 1-3 ports of width 1-4',
    'hierarchical_definitions': '2-5 below/at the top plus at most 1 outside the top hierarchy; kinds: normal, pass-through (port tied to port), wire-only',
    'ports_per_definition': '0-3, width 1-4, base 0-3 (scalars at 0), IN/OUT/INOUT, downto/to',
    'cables_per_definition': '1-4, width 1-4, base 0-3 (scalars at 0)',
    'instances_per_definition': '1-4, references to any earlier definition (sharing at several depths, across libraries)',
    'connection': 'every pin bit on at most one wire, connected with probability 0.78',
    'profiles': 'plain (named, library references form a DAG), named (any library order, case-variant sibling names, user data, one-element arrays), '
                'wild (named + unnamed ports/cables/instances/definitions)',
    'corner_designs': 'pass-through chain of depth 4, net crossing 3 levels with offset buses, ports unconnected inside/outside/both, diamond sharing '
                      'across libraries with an outside user, wire-only cells, a definition name that already ends in _sdn_unique_0, top instance '
                      'that is also a child, empty top, already flat',
}


def _chunk(args):
    script, payload = args
    return run_native(script, payload, timeout=3000)


def run_designs(rep, prop, tier, seed, rule, extra_bounds=None, corners=True, micro=True, designs=None):
    script = 'b_%s.py' % prop.lower()
    n = designs or DESIGNS[tier]
    seeds = [seed * 1000003 + i for i in range(n)]
    W = WORKERS
    payloads = []
    for i in range(W):
        p = {'seeds': seeds[i::W], 'tier': tier, 'corners': bool(corners and i == W - 1),
             'micro': [i, W] if (micro and tier == 'thorough') else None}
        if p['seeds'] or p['corners'] or p['micro']:
            payloads.append((script, p))
    fails, stats, cases = [], {}, 0
    with cf.ThreadPoolExecutor(W) as ex:
        for out in ex.map(_chunk, payloads):
            if 'error' in out:
                rep.error(out['error'][:600])
                continue
            rep.b_bulk(out['evaluations'], out['hashes'], out['samples'][:1])
            fails += out['failures']
            cases += out.get('cases', 0)
            for k, v in out.get('stats', {}).items():
                stats[k] = stats.get(k, 0) + v
    rep.B['rule'] = rule
    rep.B['bounds'] = dict({'seeded_designs': n, 'designs_evaluated_in_total': cases, 'corner_designs': 'fixed list (native/designs.py corner_designs)' if corners else 0,
                            'micro_scope': ('exhaustive, see native/designs.py MICRO_SCOPE' if (micro and tier == 'thorough') else 'not run in this tier'),
                            'seed': seed, 'workers': W, 'generator': GENERATOR_BOUNDS}, **(extra_bounds or {}))
    rep.extra['bounded_stats'] = {k: v for k, v in sorted(stats.items()) if not k.startswith('note:')}
    notes = {k: v for k, v in sorted(stats.items()) if k.startswith('note:')}
    if notes:
        rep.extra['bounded_notes'] = notes
    return fails


def report_failures(rep, prop, fails):
    seen = set()
    for f in fails:
        if f['check'] == 'HARNESS':
            rep.error('design harness (%s): %s' % (f['site'], f['detail'][-400:]))
            continue
        key = 'B/%s/%s' % (f['check'], f['site'])
        if key in seen:
            continue
        seen.add(key)
        r = dict(f['replay'])
        r['kind'] = 'design'
        r['script'] = 'b_%s.py' % prop.lower()
        rep.violation(key, '%s at %s: %s' % (f['check'], f['site'], f['detail']), replay=r)


def replay(path, prop):
    d = json.load(open(path))
    r = d.get('replay') or {}
    out = run_native(r.get('script', 'b_%s.py' % prop.lower()), {'replay': r}, timeout=1200)
    if 'error' in out:
        print('CHECKER-ERROR replay failed to run: %s' % out['error'][:400])
        return 2
    if out.get('failures'):
        f = out['failures'][0]
        print('REPLAY reproduces: %s at %s: %s' % (f['check'], f['site'], f['detail']))
        print('VIOLATION property=%s replay=%s' % (prop, path))
        return 1
    print('REPLAY does not reproduce on this tree (recorded: %s)' % d.get('key'))
    return 0
