"""C16: write-frame of the composer modules decided on the real AST (S obligations) + bounded stand-in (snapshot and byte comparison)."""
import sys
from props import _qb
from vlib.report import VERIF, REPO
LEVEL = 'other'
PID = 'C16'


def run(rep, tier, seed):
    sys.path.insert(0, VERIF)
    from pyvc import srules
    rep.explanation = ('"composing leaves the netlist as it was": frame obligation on the five composer modules -- every store, delete and mutating '
                       'call targets the composer object, a container it created, or is one of the documented EDIF effects (S obligations from the '
                       'real AST); repeatability, completeness of the output file and the frame itself are additionally observed by the bounded '
                       'stand-in (snapshot before/after, byte comparison of repeated output)')
    res = srules.rule_composer_frame(REPO)
    for name, ok, detail in res:
        rep.s(name, ok, detail)
        if not ok:
            rep.violation(name, 'composer write-frame: %s' % detail, replay={'kind': 'syntactic', 'rule': name, 'sites': detail})
    if not res: rep.error('zero obligations generated for C16')
    rep.trusted = ['pyvc/srules.py effect analysis (syntactic; receivers resolved to self / fresh locals / closure variables / fresh method results)']
    rep.assumptions = ['read accessors of the IR (properties, views, get_* queries) are pure -- they are (S/coverage, S/views-read-only of C01)',
                       'IR objects reach the composers only through parameters and attributes of the netlist (no global registry)',
                       'repeatability of the emitted text is NOT decided deductively (bounded tier only)']
    _qb.run(rep, PID, tier, seed)


def replay(path):
    return _qb.replay(path, PID)
