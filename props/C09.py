"""C09 (flatten removes all hierarchy and preserves leaf-level connectivity): bounded stand-in on spydrnet.flatten.flatten after uniquify."""
from props import _designb
LEVEL = 'exploration'
PID = 'C09'
RULE = ('distinct = distinct abstract design (hash of the AD); non-trivial = hierarchy depth >= 2 and at least one net crossing an '
        'instance-port boundary (hierarchical pin wired on both sides)')


def run(rep, tier, seed):
    rep.explanation = 'bounded stand-in only: only leaves remain, one per leaf path with slash-joined name, same definition object and data, partition of leaf pin bits and top port bits (elaboration before vs direct reading after), Inv'
    rep.assumptions = ['Tier B: everything outside the stated bounds is unexplored (DESIGN.md 8.12)',
                       'oracles (canon / elab / occurrence enumeration / Inv) read public attributes only and are calibrated against an AD-level elaborator']
    fails = _designb.run_designs(rep, PID, tier, seed, RULE, extra_bounds={'precondition': 'design made unique by uniquify(); cases where that fails are skipped and counted in bounded_stats'})
    _designb.report_failures(rep, PID, fails)


def replay(path):
    return _designb.replay(path, PID)
