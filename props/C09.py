"""C09 (flatten removes all hierarchy and preserves leaf-level connectivity): contract on the leaf test Definition.is_leaf (pyvc suite
'flat') + bounded stand-in on spydrnet.flatten.flatten after uniquify."""
from props import _designb, _pv
LEVEL = 'other'
PID = 'C09'
RULE = ('distinct = distinct abstract design (hash of the AD); non-trivial = hierarchy depth >= 2 and at least one net crossing an '
        'instance-port boundary (hierarchical pin wired on both sides)')


def run(rep, tier, seed):
    failed = _pv.run_suite(rep, PID, 'flat', tier)
    rep.explanation = 'helper level (P): Definition.is_leaf() (and the public Instance.is_leaf(): additionally False without a definition) is True exactly for a definition without children and without cables, writes nothing and does not raise, for all heaps satisfying Inv -- the test by which flatten keeps an instance as a primitive or dissolves it; _bring_to_top, _redo_connections and the work-list: bounded stand-in: only leaves remain, one per leaf path with slash-joined name, same definition object and data, partition of leaf pin bits and top port bits (elaboration before vs direct reading after), Inv'
    rep.assumptions = ['Tier B: everything outside the stated bounds is unexplored (DESIGN.md 8.12)',
                       'oracles (canon / elab / occurrence enumeration / Inv) read public attributes only and are calibrated against an AD-level elaborator']
    fails = _designb.run_designs(rep, PID, tier, seed, RULE, extra_bounds={'precondition': 'design made unique by uniquify(); cases where that fails are skipped and counted in bounded_stats'})
    _designb.report_failures(rep, PID, fails)
    _pv.report_failed(rep, failed)
    rep.trusted = list(getattr(rep, 'trusted', []) or []) + ['pyvc VC generator (DESIGN.md 3), z3/cvc5', 'IR heap model of pyvc/logic.py']
    rep.assumptions.append('helper contract: the netlist satisfies Inv')


def replay(path):
    if _pv.replay_obligation(path): return 0
    return _designb.replay(path, PID)
