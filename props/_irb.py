"""Bounded tier for C01/C02/C14/C19: random histories over the public IR API (native/ir_histories.py)."""
import concurrent.futures as cf, json, os
from vlib.native import run_native

BOUNDS = {'quick': (320, 40), 'thorough': (16000, 50)}


def _chunk(args):
    return run_native('ir_histories.py', args, timeout=3000)


def run_histories(rep, prop, tier, seed, focus=(), nseeds=None, steps=None, policy='mixed'):
    n, st = BOUNDS[tier]
    n = nseeds or n
    st = steps or st
    seeds = [seed * 1000003 + i for i in range(n)]
    W = 16
    chunks = [seeds[i::W] for i in range(W) if seeds[i::W]]
    payloads = [{'seeds': c, 'steps': st, 'checks': [prop], 'focus': list(focus), 'policy': policy, 'mirror_order': 'mixed'} for c in chunks]
    fails = []
    with cf.ThreadPoolExecutor(W) as ex:
        for out in ex.map(_chunk, payloads):
            if 'error' in out:
                if rep is not None: rep.error(out['error'][:600])
                continue
            if rep is not None: rep.b_bulk(out['runs'], out['hashes'], out['samples'][:1])
            fails += out['failures']
    if rep is None:
        return fails
    rep.B['rule'] = ('random histories over the public IR mutator alphabet (valid/invalid arguments, proxy outer pins, several '
                     'netlists, both naming policies); distinct = distinct call/outcome sequence; non-trivial = at least 5 accepted '
                     'and 1 refused call')
    rep.B['bounds'] = {'histories': n, 'calls_per_history': st, 'seed': seed}
    return fails


def report_failures(rep, prop, fails):
    for f in fails:
        if f['check'] == 'HARNESS':
            rep.error('history harness: ' + f['detail'][-300:]); continue
        if not f['check'].startswith(prop):
            continue
        key = 'B/%s/%s' % (f['check'], f['site'])
        rep.violation(key, '%s at %s: %s' % (f['check'], f['last_call'], f['detail']),
                      replay={'kind': 'ir-history', 'seed': f['seed'], 'records': f['history'], 'pretty': f['pretty'], 'check': f['check']})


def replay(path, prop):
    d = json.load(open(path))
    r = d.get('replay') or {}
    out = run_native('ir_histories.py', {'seeds': [r.get('seed', 0)], 'steps': 10 ** 6, 'records': r.get('records', []), 'checks': [prop]})
    if out.get('failures'):
        f = out['failures'][0]
        print('REPLAY reproduces: %s %s at %s' % (f['check'], f['detail'], f.get('last_call')))
        print('VIOLATION property=%s replay=%s' % (prop, path))
        return 1
    print('REPLAY does not reproduce on this tree', out.get('error', ''))
    return 0
