"""C01/C02/C14/C19: proof tier (pyvc over spydrnet/ir) + syntactic closed-world rules + bounded cross-check.

One symbolic execution of all IR mutators yields the four obligation families; the result is cached per source hash so
that the four checks, run back to back, pay for it once (the key covers every file the proof reads: /repo's ir, callback
and plugin sources, the engine and the spec files)."""
import glob, hashlib, json, os, sys, time
from vlib.report import VERIF, REPO
from vlib.native import run_native
from props import _irb

# which history operations exercise a function (for the replay search behind a failed obligation)
FOCUS = {
    'add_': ['add', 'add_cross', 'add_pin_instanced', 'cross_policy_add'], 'remove_': ['remove', 'remove_from', 'top_wired', 'connect_outer'], 'create_': ['create_port', 'create_cable',
    'create_child', 'create_pin', 'create_pins', 'create_wire', 'create_wires', 'create_library', 'create_definition', 'create_child_dup'],
    'connect_pin': ['connect'], 'disconnect_pin': ['disconnect', 'disconnect_from', 'connect_outer', 'connect', 'create_child', 'create_port', 'create_wire'], 'reference': ['reference', 'unreference', 'create_child'],
    'reference=': ['reference', 'repoint_compatible', 'connect_outer', 'create_port', 'create_pin', 'create_child', 'add'],
    'top_instance': ['top', 'set_top'], 'pins=': ['reorder', 'reorder_bad', 'wire_pins_proxy'], '=': ['reorder', 'reorder_bad', 'scalar', 'name'],
    '__setitem__': ['data'], '__delitem__': ['deldata'], 'pop': ['popdata'], 'name': ['name'], '__init__': ['new'],
}


def _source_key():
    h = hashlib.sha256()
    files = sorted(glob.glob(REPO + '/spydrnet/ir/**/*.py', recursive=True)) + sorted(glob.glob(REPO + '/spydrnet/global_state/*.py')) \
        + sorted(glob.glob(REPO + '/spydrnet/callback/*.py')) + sorted(glob.glob(REPO + '/spydrnet/plugins/**/*.py', recursive=True)) \
        + sorted(glob.glob(REPO + '/spydrnet_extension/**/*.py', recursive=True)) \
        + sorted(glob.glob(VERIF + '/pyvc/*.py')) + sorted(glob.glob(VERIF + '/specs/*.py'))
    for f in files:
        if '/tests/' in f: continue
        h.update(f.encode()); h.update(open(f, 'rb').read())
    return h.hexdigest()[:24]


def ir_proof(tier):
    """runs (or reuses) the symbolic execution + discharge of every IR function under contract"""
    sys.path.insert(0, VERIF)
    from pyvc import verify, srules
    from specs.ir_functions import FUNCTIONS
    key = _source_key()
    cache = os.path.join(VERIF, '.cache')
    os.makedirs(cache, exist_ok=True)
    path = os.path.join(cache, 'irproof_%s_%s.json' % (tier, key))
    if os.path.exists(path) and not os.environ.get('VERIF_NOCACHE'):
        try:
            d = json.load(open(path)); d['reused'] = True
            return d
        except Exception:
            pass
    t0 = time.time()
    opts = {'timeout_ms': 20000 if tier == 'quick' else 60000}
    res = verify.run_all(REPO, FUNCTIONS, opts=opts, per_function_timeout=400 if tier == 'quick' else 1500)
    srs = srules.all_ir_rules(REPO, FUNCTIONS)
    d = {'functions': res, 'srules': srs, 'wall_s': round(time.time() - t0, 1), 'key': key, 'reused': False}
    for old in glob.glob(os.path.join(cache, 'irproof_%s_*.json' % tier)):
        try: os.unlink(old)
        except OSError: pass
    json.dump(d, open(path, 'w'))
    return d


def _focus_for(fn):
    out = []
    for k, v in FOCUS.items():
        if k in fn: out += v
    return sorted(set(out))


def run(rep, pid, tier, seed, what):
    rep.explanation = what
    d = ir_proof(tier)
    rep.extra['proof_run'] = {'wall_s': d['wall_s'], 'reused_from_same_sources': d['reused'], 'source_key': d['key']}
    failed = []
    undecided = set()
    n_mine = 0
    for r in d['functions']:
        fn = r['function']
        rep.functions[fn] = r.get('sha', '?')
        if r.get('degraded'):
            rep.degrade(fn, r['degraded'])
        if r.get('error'):
            rep.error('%s: %s' % (fn, r['error'][-400:]))
        for o in r['results']:
            if not (o['name'].startswith(pid + '/') or o['name'].startswith('VACUITY/')):
                continue
            n_mine += 1
            rep.p(o['name'], o['status'], o.get('backend') or 'z3', o['time_s'], fn, o.get('detail'))
            if o['status'] == 'failed':
                failed.append((fn, o))
            elif o['status'] == 'undecided':
                undecided.add(fn)
    if n_mine == 0:
        rep.error('zero proof obligations generated for %s' % pid)
    for name, ok, detail in d['srules']:
        rep.s(name, ok, detail)
        if not ok:
            rep.violation(name, 'closed-world rule violated: %s %s' % (name, detail), replay={'kind': 'syntactic', 'rule': name, 'detail': detail})
    # bounded cross-check (never counted as proved); also the native replay search behind failed obligations
    fails = _irb.run_histories(rep, pid, tier, seed)
    _irb.report_failures(rep, pid, fails)
    # a function that left the supported subset is decided by the bounded tier alone: concentrate extra histories on it
    for dg in rep.degraded:
        extra = _irb.run_histories(None, pid, 'quick', seed + 7, focus=_focus_for(dg['function']), nseeds=960)
        rep.B['evaluations'] += 960
        _irb.report_failures(rep, pid, extra)
    # an obligation the back ends could not decide says nothing by itself (exit 2), but the function deserves the same concentrated
    # bounded search as a degraded one: a native witness found there is a violation with a failing input
    for fn in sorted(undecided):
        extra = _irb.run_histories(None, pid, 'quick', seed + 11, focus=_focus_for(fn), nseeds=960)
        rep.B['evaluations'] += 960
        _irb.report_failures(rep, pid, extra)
    for fn, o in failed:
        # look for a native witness of this obligation: histories concentrated on the function
        short = fn.split('.')[-1].replace(' del', '').rstrip('=')
        extra = _irb.run_histories(None, pid, 'quick', seed + 1, focus=_focus_for(fn), nseeds=640)
        wit = [f for f in (extra + fails) if f['check'].startswith(pid) and short in f.get('last_call', '')]
        if wit:
            f = wit[0]
            rep.violation(o['name'], 'obligation %s failed (%s); native witness: %s at %s: %s' % (o['name'], o.get('detail', ''), f['check'], f['last_call'], f['detail']),
                          replay={'kind': 'ir-history', 'obligation': o['name'], 'solver_output': o.get('detail'), 'seed': f['seed'],
                                  'records': f['history'], 'pretty': f['pretty'], 'check': f['check']})
        else:
            rep.violation(o['name'], 'obligation %s is no longer discharged (%s); no failing input found by the bounded search' % (o['name'], o.get('detail', '')),
                          replay={'kind': 'obligation', 'obligation': o['name'], 'function': fn, 'solver_output': o.get('detail')}, nfi=True)
    rep.trusted = ['pyvc VC generator and the lowering of the Python subset (DESIGN.md 3)', 'z3 5.1 / z3 4.8.12 / cvc5 1.0.3',
                   'builtin container contracts (list/set/dict/OrderedDict) as axiomatised in pyvc/logic.py and pyvc/se.py',
                   'hook contracts of the stock NamespaceManager listener as stated in specs/ir.py (callback): for the ten add/remove hooks and the three dictionary hooks (keys other than .NS) they are proved against the real code in suite ns (C10: raise nothing but ValueError, remove hooks never raise, nothing but the name tables written); the create_* hooks and policy switches are assumed']
    rep.assumptions = [
        'integers are mathematical; assert statements execute (no -O)',
        'single-threaded; listeners do not mutate IR structure or call back into mutators',
        'stock listener model: hooks refuse (ValueError) before writing; create/remove hooks never raise; data keys other than .NS',
        'position/count arguments are None or int; data keys are str; constructor `properties` argument is None (dict case: bounded tier only)',
        'OuterPin(instance, inner_pin): neither argument is itself an OuterPin (documented argument types)',
        'foreign (non-IR) objects carry none of the IR attribute names',
        'termination of loops and recursion is not proved',
        'users reach private state only through the public API (closed inside spydrnet/ by the S-rules)',
    ]


def replay(path, pid):
    d = json.load(open(path))
    r = d.get('replay') or {}
    if r.get('kind') in ('ir-history',):
        return _irb.replay(path, pid)
    print('replay file names obligation %s; solver output: %s' % (r.get('obligation') or r.get('rule'), r.get('solver_output') or r.get('detail')))
    print('re-run `bin/check %s` to re-generate and re-discharge it from the current tree' % pid)
    return 0
