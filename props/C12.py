"""C12 (cross-hierarchy tracing returns exactly the electrically connected net): bounded stand-in on get_hwires/get_hcables/get_hpins with selection."""
from props import _designb, _pv
LEVEL = 'other'
PID = 'C12'
RULE = ('distinct = distinct abstract design (hash of the AD); non-trivial = hierarchy depth >= 2 and at least one hierarchical pin wired '
        'on both sides')


def run(rep, tier, seed):
    expl_b = 'selection ALL from hierarchical wires, cables, pins and ports versus union-find classes over hierarchical wires; INSIDE/OUTSIDE from pins and ports; get_hpins of a hierarchical wire'
    rep.assumptions = ['Tier B: everything outside the stated bounds is unexplored (DESIGN.md 8.12)',
                       'oracles (canon / elab / occurrence enumeration / Inv) read public attributes only and are calibrated against an AD-level elaborator']
    failed = _pv.run_suite(rep, PID, 'hwires', tier)
    rep.explanation = ('adjacency steps (P): _get_inner_hwire_from_hpin / _get_outer_hwire_from_hpin return exactly the reference of the wire attached on the inside / '
                       'outside of a hierarchical pin (same instance path resp. the path of the parent instance, the wire\'s cable, the wire) and None exactly when there '
                       'is no such wire, never raising and writing nothing, for all heaps and all well-typed pin references -- the INSIDE / OUTSIDE answers of the '
                       'statement; the closure (selection ALL: a work-list over these steps through generators) and the pins of a wire: bounded stand-in: ' + expl_b)
    fails = _designb.run_designs(rep, PID, tier, seed, RULE, extra_bounds={'start_points_per_design': '<= 40 wires, <= 40 pins, <= 20 cables, <= 20 ports'})
    _designb.report_failures(rep, PID, fails)
    _pv.report_failed(rep, failed)
    rep.trusted = list(getattr(rep, 'trusted', []) or []) + ['pyvc VC generator (DESIGN.md 3), z3/cvc5', 'IR heap model; reference nodes as heap objects with a parent node and an item']
    rep.assumptions += ['HRef.from_parent_and_item(p, x) returns a node whose parent is p and whose item is x (contract of the flyweight factory; sharing is checked by the bounded tier of C11)',
                        'the argument is a hierarchical pin: nodes for an inner pin, its port and an instance']


def replay(path):
    if _pv.replay_obligation(path): return 0
    return _designb.replay(path, PID)
