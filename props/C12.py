"""C12 (cross-hierarchy tracing returns exactly the electrically connected net): bounded stand-in on get_hwires/get_hcables/get_hpins with selection."""
from props import _designb
LEVEL = 'exploration'
PID = 'C12'
RULE = ('distinct = distinct abstract design (hash of the AD); non-trivial = hierarchy depth >= 2 and at least one hierarchical pin wired '
        'on both sides')


def run(rep, tier, seed):
    rep.explanation = 'bounded stand-in only: selection ALL from hierarchical wires, cables, pins and ports versus union-find classes over hierarchical wires; INSIDE/OUTSIDE from pins and ports; get_hpins of a hierarchical wire'
    rep.assumptions = ['Tier B: everything outside the stated bounds is unexplored (DESIGN.md 8.12)',
                       'oracles (canon / elab / occurrence enumeration / Inv) read public attributes only and are calibrated against an AD-level elaborator']
    fails = _designb.run_designs(rep, PID, tier, seed, RULE, extra_bounds={'start_points_per_design': '<= 40 wires, <= 40 pins, <= 20 cables, <= 20 ports'})
    _designb.report_failures(rep, PID, fails)


def replay(path):
    return _designb.replay(path, PID)
