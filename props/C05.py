"""C05 (bounded stand-in): the EDIF reader builds exactly the design the file describes."""
from props import _rtb
LEVEL = 'exploration'
PID = 'C05'
SCRIPT = 'b_c05.py'
SPEC = {'quick': {'designs': 150, 'styles': 4, 'files': {'edif': 70000}, 'limit': 20, 'file_limit': 60},
        'thorough': {'designs': 2500, 'styles': 2, 'files': {'edif': 2400000}, 'limit': 20, 'file_limit': 400}}
RULE = ('case = (seeded abstract design, style) rendered by the independent EDIF writer (native/render_edif.py) and read by '
        'sdn.parse, or one bundled .edf archive; distinct = sha1 of AD+style / archive name; non-trivial = the design has at least one '
        'instance, one connected net and one bus (array port or multi-bit net); bundled archives count when they parse')


def run(rep, tier, seed):
    rep.explanation = ('bounded stand-in only: contract on sdn.parse(.edf) against an independent writer and canonicaliser '
                       '(libraries, cells, ports, instances with typed properties, per-bit joins, top, identifier + original name, every comment of the '
                       'source as a tuple of strings under its element), '
                       'Inv I1-I4 and self-containment of the result; bundled examples parse + Inv')
    rep.assumptions.append('tier B: everything outside the stated bounds is unexplored; array nets (net (array ..)) are not generated (outside the supported subset)')
    _rtb.run(rep, PID, SCRIPT, tier, seed, SPEC, RULE, gen_bounds=_rtb.HIER_BOUNDS)


def replay(path):
    return _rtb.replay(path, PID, SCRIPT)
