"""C05: string VCs generated from the real AST of EdifParser.separate_name_and_index (how a bit net is recognised and split) +
bounded stand-in for the reader as a whole."""
import json, sys
from props import _rtb, _pv
from vlib.report import VERIF, REPO
from vlib.native import run_native
LEVEL = 'other'
PID = 'C05'
SCRIPT = 'b_c05.py'
SPEC = {'quick': {'designs': 150, 'styles': 4, 'files': {'edif': 70000}, 'limit': 20, 'file_limit': 60},
        'thorough': {'designs': 2500, 'styles': 2, 'files': {'edif': 2400000}, 'limit': 20, 'file_limit': 400}}
RULE = ('case = (seeded abstract design, style) rendered by the independent EDIF writer (native/render_edif.py) and read by '
        'sdn.parse, or one bundled .edf archive; distinct = sha1 of AD+style / archive name; non-trivial = the design has at least one '
        'instance, one connected net and one bus (array port or multi-bit net); bundled archives count when they parse')


def _split_contract(rep):
    sys.path.insert(0, VERIF); sys.setrecursionlimit(20000)
    from specs import edifsplit
    res, shas, deg = edifsplit.run(REPO)
    rep.functions.update(shas)
    for fn, why in deg.items(): rep.degrade(fn, why)
    for name, status, t, detail, be in res:
        model = be if isinstance(be, dict) else None
        rep.p(name, status, be if isinstance(be, str) and be else 'z3', t, 'EdifParser.separate_name_and_index', detail if status != 'discharged' else None)
        if status != 'failed': continue
        sep = '[' if '/bracket/' in name else '_'
        if model and 'name' in model:
            out = run_native('replay_edifsplit.py', {'name': model['name'], 'sep': sep})
            if isinstance(out, dict) and out.get('agrees') is False:
                rep.violation(name, 'obligation %s refuted; counterexample replayed on the real code: separate_name_and_index(%r, %r) -> %s, the contract says %s' % (
                    name, model['name'][:40] + ('...' if len(model['name']) > 40 else ''), sep, str(out.get('got'))[:80], str(out.get('want'))[:80]),
                    replay={'kind': 'string-model', 'obligation': name, 'name': model['name'], 'sep': sep, 'native': out, 'solver_output': str(detail)[:600]})
                continue
        out = run_native('replay_edifsplit.py', {'search': True, 'sep': sep})
        if isinstance(out, dict) and out.get('agrees') is False:
            rep.violation(name, 'obligation %s is no longer discharged (%s); a native search behind it found: separate_name_and_index(%r, %r) -> %s, the contract says %s' % (
                name, str(detail)[:120], out['name'], sep, str(out.get('got'))[:80], str(out.get('want'))[:80]),
                replay={'kind': 'string-model', 'obligation': name, 'name': out['name'], 'sep': sep, 'native': out, 'solver_output': str(detail)[:600]})
            continue
        rep.violation(name, 'obligation %s is no longer discharged (%s)' % (name, str(detail)[:200]),
                      replay={'kind': 'obligation', 'obligation': name, 'solver_output': str(detail)[:1500]}, nfi=True)
    if not res and not deg: rep.error('zero obligations generated for C05')


def run(rep, tier, seed):
    _split_contract(rep)
    rep.assumptions += ['helper contract: names are printable ASCII strings (str.isdigit is the ASCII predicate), non-empty when split at "["; int() of a decimal numeral is an '
                        'uninterpreted function of its characters; integers mathematical; multibit_add_cable, which uses the two results to place the bit, is covered by the bounded tier only']
    rep.explanation = ('helper level (P, string VCs over the real AST): EdifParser.separate_name_and_index(X + "[" + D + "]", "[") == (int(D), X) and '
                       '(X + "_" + D + "_", "_") == (int(D), X) for every non-empty numeral D and ANY text X (brackets / underscores inside it included; '
                       'Verilog escaped names only in the form "\\text text"), (None, s) for every other string, never raising -- the recognition step under '
                       '"bit nets written as name[i] / id_i_ are merged into one cable"; everything else: bounded stand-in: contract on sdn.parse(.edf) against an independent writer and canonicaliser '
                       '(libraries, cells, ports, instances with typed properties, per-bit joins, top, identifier + original name, every comment of the '
                       'source as a tuple of strings under its element), '
                       'Inv I1-I4 and self-containment of the result; bundled examples parse + Inv')
    rep.assumptions.append('tier B: everything outside the stated bounds is unexplored; array nets (net (array ..)) are not generated (outside the supported subset)')
    _rtb.run(rep, PID, SCRIPT, tier, seed, SPEC, RULE, gen_bounds=_rtb.HIER_BOUNDS)
    rep.trusted = list(getattr(rep, 'trusted', []) or []) + ['pyvc/strvc.py (string VC generator: code-point arrays, CPython slice clamping, str.split by one character described by the '
                                                             'first two / last two separator positions, backwards range loops cut at an invariant, break), z3/cvc5']


def replay(path):
    d = json.load(open(path)); r = d.get('replay') or {}
    if r.get('kind') == 'string-model':
        out = run_native('replay_edifsplit.py', {'name': r['name'], 'sep': r['sep']})
        if isinstance(out, dict) and out.get('agrees') is False:
            print('REPLAY reproduces on the real code: separate_name_and_index -> %s, contract: %s' % (out.get('got'), out.get('want')))
            print('VIOLATION property=C05 replay=%s' % path); return 1
        print('REPLAY does not reproduce on this tree'); return 0
    if _pv.replay_obligation(path): return 0
    return _rtb.replay(path, PID, SCRIPT)
