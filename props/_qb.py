"""Bounded stand-in tier (tier B) for C10, C13, C15, C16, C17: contracts on the real entry points evaluated natively
over a bounded, seeded input space against independent oracles (native/b_c10.py ... b_c17.py).

Every script speaks the protocol of native/ir_histories.py: JSON config on stdin, '@@JSON@@' + JSON on stdout with
{evaluations, hashes (distinct non-trivial cases), samples, failures:[{check, site, detail, replay}]}.
Seeds are split over 16 worker processes (C15 forks its own 16 parser children instead, because there the child
process *is* the observation).  Nothing here is ever counted as proved.
"""
import concurrent.futures as cf, json, os
from vlib.native import run_native

W = 16

C16_EXAMPLES = ['EDIF_netlists/inverter.edf.zip', 'EDIF_netlists/AND_gate.edf.zip', 'EDIF_netlists/toggle.edf.zip',
                'EDIF_netlists/unused_blackbox.edf.zip', 'EDIF_netlists/ports_diff_modules.edf.zip', 'EDIF_netlists/multi_port.edf.zip',
                'EDIF_netlists/namespace.edf.zip', 'EDIF_netlists/hierarchical_luts.edf.zip', 'EDIF_netlists/TMR_hierarchy.edf.zip',
                'EDIF_netlists/carrychain.edf.zip', 'EDIF_netlists/passthrough_test.edf.zip', 'EDIF_netlists/n_bit_counter.edf.zip',
                'verilog_netlists/namespace.v.zip', 'verilog_netlists/inverter.v.zip', 'verilog_netlists/unused_blackbox.v.zip',
                'verilog_netlists/ports_diff_modules.v.zip', 'verilog_netlists/three_layer_hierarchy.v.zip', 'verilog_netlists/TMR_hierarchy.v.zip',
                'verilog_netlists/passthrough_test.v.zip', 'verilog_netlists/port_test.v.zip',
                'eblif_netlists/toggle.eblif.zip', 'eblif_netlists/synchronouscounter.eblif.zip', 'eblif_netlists/jfsmMealyWithOverlap.eblif.zip',
                'eblif_netlists/synchronouscounter_nocarry.eblif.zip', 'eblif_netlists/jAsynchronousCounter.eblif.zip',
                'eblif_netlists/juniversalShiftRegister.eblif.zip']

SPEC = {
    'C10': {
        'script': 'b_c10.py', 'split': True,
        'quick': {'seeds': 1200, 'cfg': {'steps': 40, 'policies': ['DEFAULT', 'EDIF']}},
        'thorough': {'seeds': 24000, 'cfg': {'steps': 40, 'policies': ['DEFAULT', 'EDIF']}},
        'rule': ('one case = one history (policy, call sequence, outcomes); non-trivial = at least 5 accepted calls, at least one call '
                 'refused with ValueError and at least one accepted remove / rename / un-name / identifier edit'),
        'bounds': {'calls_per_history': 40, 'policies': ['DEFAULT', 'EDIF'], 'policy_switch_inside_history': False,
                   'name_alphabet': ['a', 'A', 'b', 'a_b', 'A_b', 'B'], 'identifier_values': 17, 'lookup_probes_per_scope_and_key': '<= 40',
                   'operations': 'create_*, new+add_*, remove_*, rename (.name / [".NAME"]), EDIF.identifier set / del / pop, name del / pop, '
                                 'clone of netlist / library / definition / port / cable / instance, one parse of a bundled example per history',
                   'parsed_examples': ['namespace.edf', 'inverter.edf', 'namespace.v', 'toggle.eblif']},
    },
    'C13': {
        'script': 'b_c13.py', 'split': True,
        'quick': {'seeds': 160, 'cfg': {'policies': ['DEFAULT', 'EDIF'], 'roots_per_function': 6}},
        'thorough': {'seeds': 960, 'cfg': {'policies': ['DEFAULT', 'EDIF'], 'roots_per_function': 6}},
        'rule': ('one case = (netlist, function, root kind, key, pattern kind), each evaluated under every selection / recursive setting, with '
                 'is_case True / False and with the fast lookup registered / deregistered; non-trivial = for at least one of these settings the '
                 'unfiltered result has >= 2 elements and the matcher keeps a non-empty proper subset'),
        'bounds': {'netlist': '2-3 libraries, 2-3 primitive cells, 1-2 mid cells (1-3 instances), one top cell (2-4 instances), ports / cables of width 1-3',
                   'functions': 13, 'root_kinds': 'Netlist, Library, Definition, Instance, Port, Cable, InnerPin, OuterPin, Wire, HRef to instance / port / pin / cable / wire',
                   'roots_per_function_and_netlist': {'quick': '6 of the 14 kinds', 'thorough': 'one of each of the 14 kinds'}, 'keys': ['.NAME', 'EDIF.identifier', 'user'],
                   'patterns_per_key': 'from <= 3 present values: exact, case-swapped, prefix*, *suffix, single ?, re.escape (is_re), pairs / duplicates / mixed lists',
                   'is_case': [True, False], 'fast_lookup': ['registered', 'deregistered'],
                   'edit_history': '60 % of the netlists: 1-6 identifier / name changes, identifier deletes and pops on elements in place before querying; up to 3 retired values queried as well', 'filter_callback': 'on the unfiltered query and on 10 % of the pattern queries'},
    },
    'C15': {
        'script': 'b_c15.py', 'split': False,
        'quick': {'seeds': 1, 'cfg': {'workers': W}},
        'thorough': {'seeds': 1, 'cfg': {'workers': W}},
        'rule': 'one case = (format, corrupted text, policy before the call); non-trivial = the text differs from the unmodified file',
        'bounds': {'max_tokens_per_file': 400, 'time_limit_per_parse_s': 5, 'files': 'bundled examples <= 400 tokens (7) + 5 hand-written small files (incl. a three-level EDIF hierarchy and a five-module Verilog chain)',
                   'mutations': 'truncate at / delete / duplicate / replace every token; every cellRef, libraryRef, instanceRef, portRef, viewRef name made dangling (EDIF); cellRef re-targeted to a cell of another library; instanceRef re-targeted to an instance declared in another cell; every Verilog instantiation re-targeted to every other declared module',
                   'hang_verdict': 'a case that does not answer within the limit is run again alone with six times the limit; only the second verdict counts',
                   'replacements_per_token': {'quick': 1, 'thorough': 3}, 'policy_before_call': ['DEFAULT', 'EDIF'], 'child_processes': W},
    },
    'C16': {
        'script': 'b_c16.py', 'split': True,
        'quick': {'seeds': 480, 'cfg': {}, 'examples': C16_EXAMPLES},
        'thorough': {'seeds': 48000, 'cfg': {}, 'examples': C16_EXAMPLES},
        'rule': ('one case = (netlist source, format, option combination) that composes without raising; non-trivial = the netlist has at least '
                 '20 reachable objects'),
        'bounds': {'generated': '2 libraries, 2-3 primitive cells, 1-2 mid cells, one top cell, <= 4 instances per cell, ports / cables of width 1-3, '
                                '40 % of the netlists with names that need escaping, 20 % without a netlist name',
                   'bundled_examples': len(C16_EXAMPLES), 'formats': ['edf', 'v', 'eblif'],
                   'options': {'v': 'definition_list in {[], [top], [last]} x write_blackbox x defparam', 'eblif': 'write_blackbox x write_eblif_cname', 'edf': 'none'},
                   'second_compose': 'immediately or after a batch of read-only queries (50 / 50)',
                   'third_compose': 'over an existing, longer file (the text must equal the fresh-path text)'},
    },
    'C17': {
        'script': 'b_c17.py', 'split': True,
        'quick': {'seeds': 16000, 'cfg': {}},
        'thorough': {'seeds': 400000, 'cfg': {}},
        'rule': ('one case = one sibling set (plus an optional pre-existing identifier) placed in all five naming scopes; non-trivial = the set has a '
                 'collision after case folding or after replacing illegal characters, a name of >= 255 characters, a _sdn_N_ name, or a name that is not '
                 'already a legal identifier'),
        'bounds': {'siblings_per_scope': '1-8', 'name_length': '1-300', 'scopes': ['libraries', 'cells', 'ports', 'nets', 'instances'],
                   'alphabet': 'letters (both cases), digits and _-[]/\\ $&.:()+*#@!\',<>=~^|{};? ; " and % in 15 % of the quick cases (all thorough cases may draw them)',
                   'styles': 'random, case-only variants, illegal-character variants, minus, x / x_sdn_N_ families, 254-300 character names with common prefix, '
                             'long numeric _sdn_ suffixes, leading non-letters, bus-like names', 'preexisting_identifier': '20 % of the cases', 'bundle_width': 1},
    },
}


def _call(args):
    script, payload = args
    return run_native(script, payload, timeout=3400)


def run(rep, pid, tier, seed):
    sp = SPEC[pid]
    t = sp[tier]
    n = t['seeds']
    seeds = [seed * 1000003 + i for i in range(n)]
    if sp['split']:
        chunks = [seeds[i::W] for i in range(W) if seeds[i::W]]
        payloads = []
        for i, c in enumerate(chunks):
            p = dict(t['cfg']); p['seeds'] = c; p['tier'] = tier
            if t.get('examples'):
                p['examples'] = t['examples'][i::len(chunks)]
            payloads.append((sp['script'], p))
    else:
        p = dict(t['cfg']); p['seeds'] = [seed]; p['tier'] = tier
        payloads = [(sp['script'], p)]
    fails = []
    seen = set()
    extra = {}
    with cf.ThreadPoolExecutor(W) as ex:
        for out in ex.map(_call, payloads):
            if 'error' in out:
                rep.error(out['error'][:600]); continue
            rep.b_bulk(out.get('evaluations', 0), out.get('hashes', []), out.get('samples', [])[:1])
            for k in ('outcomes',):
                for kk, v in (out.get(k) or {}).items():
                    extra.setdefault(k, {}); extra[k][kk] = extra[k].get(kk, 0) + v
            if out.get('files'):
                extra['files'] = out['files']
            for f in out.get('failures', []):
                sig = (f['check'], f['site'])
                if sig in seen:
                    continue
                seen.add(sig); fails.append(f)
    rep.B['rule'] = sp['rule']
    b = dict(sp['bounds'])
    b.update({'tier': tier, 'seed': seed, 'seeded_cases': n, 'worker_processes': W})
    b.update(extra)
    rep.B['bounds'] = b
    if not getattr(rep, 'explanation', None):
        rep.explanation = ('bounded stand-in only: contracts of %s evaluated natively on the real entry points against independent oracles; '
                           'everything outside the stated bounds is unexplored' % pid)
    for f in fails:
        if f['check'] == 'HARNESS':
            rep.error('%s harness (%s): %s' % (sp['script'], f.get('site'), str(f.get('detail'))[-400:])); continue
        if not f['check'].startswith(pid):
            continue
        rp = dict(f.get('replay') or {}); rp.setdefault('script', sp['script']); rp['driver'] = 'qb'; rp['check'] = f['check']; rp['site'] = f['site']
        rep.violation('B/%s/%s' % (f['check'], f['site']), '%s at %s: %s' % (f['check'], f['site'], str(f['detail'])[:700]), replay=rp)
    return fails


def replay(path, pid):
    d = json.load(open(path))
    r = d.get('replay') or {}
    script = r.get('script') or SPEC[pid]['script']
    out = run_native(script, {'replay': r, 'all_failures': True}, timeout=900)
    if 'error' in out:
        print('CHECKER-ERROR replay failed: %s' % out['error'][:400])
        return 2
    fs = [f for f in out.get('failures', []) if f['check'] != 'HARNESS']
    same = [f for f in fs if f['check'] == r.get('check') and f['site'] == r.get('site')] or [f for f in fs if f['check'] == r.get('check')]
    if same:
        f = same[0]
        print('REPLAY reproduces: %s at %s: %s' % (f['check'], f['site'], str(f['detail'])[:500]))
        print('VIOLATION property=%s replay=%s' % (pid, path))
        return 1
    hs = [f for f in out.get('failures', []) if f['check'] == 'HARNESS']
    if hs:
        print('CHECKER-ERROR replay harness: %s' % str(hs[0].get('detail'))[-400:])
        return 2
    print('REPLAY does not reproduce on this tree' + (' (other checks fail: %s)' % sorted(set(f['check'] for f in fs)) if fs else ''))
    return 0
