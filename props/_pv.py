"""Shared helper: run a pyvc suite (pyvc/verify.py SUITES) for one property and feed the Report."""
import importlib, sys
from vlib.report import VERIF, REPO


def run_suite(rep, pid, suite, tier, what_failed='obligation'):
    sys.path.insert(0, VERIF)
    from pyvc import verify
    fns = importlib.import_module(verify.SUITES[suite]['functions']).FUNCTIONS
    res = verify.run_all(REPO, fns, opts={'suite': suite, 'timeout_ms': 20000 if tier == 'quick' else 60000},
                         per_function_timeout=400 if tier == 'quick' else 1500)
    failed = []
    n = 0
    ndeg = 0
    for r in res:
        fn = r['function']
        if r.get('degraded'): ndeg += 1
        rep.functions[fn] = r.get('sha', '?')
        if r.get('degraded'): rep.degrade(fn, r['degraded'])
        if r.get('error'): rep.error('%s: %s' % (fn, r['error'][-400:]))
        for o in r['results']:
            if not (o['name'].startswith(pid + '/') or o['name'].startswith('VACUITY/') or o['name'].startswith('REACH/')):
                continue
            n += 1
            rep.p(o['name'], o['status'], o.get('backend') or 'z3', o['time_s'], fn, o.get('detail'))
            if o['status'] == 'failed': failed.append((fn, o))
        if not r.get('degraded') and not r.get('error') and not any(o['name'].startswith('REACH/') for o in r['results']) \
                and verify.SUITES[suite]['obligations'] == 'posts':
            if suite == 'irns' and r.get('paths', 0) > 0:
                pass          # the invariant is demanded at every exit, exceptional ones included: a function whose modelled exits all raise is not vacuous
            else:
                rep.error('%s: no normal exit reached (vacuous contract?)' % fn)
    if n == 0 and ndeg == 0: rep.error('zero proof obligations generated for %s' % pid)   # every function degraded: reported as such, the bounded tier decides
    return failed


def report_failed(rep, failed):
    """a failed obligation of a helper contract is a violation (no failing input unless the bounded tier found one in the same run)"""
    hit = set(v['key'] for v in rep.violations)
    for fn, o in failed:
        rep.violation(o['name'], 'obligation %s is no longer discharged (%s)%s' % (o['name'], (o.get('detail') or '')[:200],
                      '; the bounded tier reports a failing input for this property in the same run' if hit else ''),
                      replay={'kind': 'obligation', 'obligation': o['name'], 'function': fn, 'solver_output': o.get('detail')}, nfi=not hit)


def replay_obligation(path):
    import json
    d = json.load(open(path)); r = d.get('replay') or {}
    if r.get('kind') == 'obligation':
        print('replay file names obligation %s; solver output: %s' % (r.get('obligation'), str(r.get('solver_output'))[:300]))
        print('re-run the check to re-generate and re-discharge it from the current tree')
        return True
    return False
