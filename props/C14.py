from props import _irp
LEVEL = 'proof'
PID = 'C14'

def run(rep, tier, seed):
    _irp.run(rep, PID, tier, seed, "frame obligations h' = h0 (structure with order, reference sets, data, name-table state, policy) at every exceptional exit of every public IR mutator under the stock listener (P); S-rules; B cross-check")

def replay(path):
    return _irp.replay(path, PID)
