from props import _irb
LEVEL = 'exploration'
PID = 'C14'

def run(rep, tier, seed):
    rep.explanation = 'bounded stand-in only (proof tier not yet wired)'
    fails = _irb.run_histories(rep, PID, tier, seed)
    _irb.report_failures(rep, PID, fails)

def replay(path):
    return _irb.replay(path, PID)
