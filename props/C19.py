from props import _irp
LEVEL = 'proof'
PID = 'C19'

def run(rep, tier, seed):
    _irp.run(rep, PID, tier, seed, 'ghost announcement state: cover-before-write at every store to a mirrored field, nothing announced in vain at every non-veto exit (P); dispatcher wiring and listener registration (S); shadow-mirror listener on histories (B)')

def replay(path):
    return _irp.replay(path, PID)
