"""C07 (clones are faithful, self-contained, independent): bounded stand-in on Netlist/Library/Definition/Instance/Port/Cable/Wire/pin .clone()."""
from props import _designb
LEVEL = 'exploration'
PID = 'C07'
RULE = ('distinct = distinct abstract design (hash of the AD); non-trivial = hierarchy depth >= 2, at least one net crossing an '
        'instance-port boundary and instances referencing definitions of at least two libraries')


def run(rep, tier, seed):
    rep.explanation = 'bounded stand-in only: identity-disjointness, canon equality, Inv, pointer closure, source snapshots, edit independence (4 edit groups x 2 sides), queries on the clone, and the 8 element clones with documented reference-set bookkeeping'
    rep.assumptions = ['Tier B: everything outside the stated bounds is unexplored (DESIGN.md 8.12)',
                       'oracles (canon / elab / occurrence enumeration / Inv) read public attributes only and are calibrated against an AD-level elaborator']
    fails = _designb.run_designs(rep, PID, tier, seed, RULE, extra_bounds={'element_clone_roots_per_kind': '<= 4 libraries/definitions, <= 3 of each other kind per design', 'edit_groups': ['data', 'structure', 'transform(uniquify+flatten)', 'dismantle'], 'name_lookups_per_design': 10})
    _designb.report_failures(rep, PID, fails)


def replay(path):
    return _designb.replay(path, PID)
