"""C07 (clones are faithful, self-contained, independent): leaf clone contracts proved from the real AST (pyvc suite 'clone':
Wire / InnerPin / OuterPin / Port / Cable / Instance .clone) + bounded stand-in on Netlist/Library/Definition/Instance/Port/Cable/Wire/pin .clone()."""
from props import _designb, _pv
LEVEL = 'other'
PID = 'C07'
RULE = ('distinct = distinct abstract design (hash of the AD); non-trivial = hierarchy depth >= 2, at least one net crossing an '
        'instance-port boundary and instances referencing definitions of at least two libraries')


def run(rep, tier, seed):
    rep.explanation = 'bounded stand-in only: identity-disjointness, canon equality, Inv, pointer closure, source snapshots, edit independence (4 edit groups x 2 sides), queries on the clone, and the 8 element clones with documented reference-set bookkeeping'
    rep.assumptions = ['Tier B: everything outside the stated bounds is unexplored (DESIGN.md 8.12)',
                       'oracles (canon / elab / occurrence enumeration / Inv) read public attributes only and are calibrated against an AD-level elaborator']
    expl_b = rep.explanation
    failed = _pv.run_suite(rep, PID, 'clone', tier)
    rep.explanation = ('element level (P): Wire / InnerPin / OuterPin / Port / Cable / Instance .clone return a NEW object of the same class (with new pins / wires / '
                       'outer pins of its own, as many as the original has) that belongs to nothing and is connected to nothing, carries the original\'s scalar '
                       'attributes, data and (Instance) reference, never raise, leave every existing object exactly as it was (all fields, order included; '
                       'Instance.clone adds the clone to its definition\'s reference set, as documented) and preserve Inv, for all heaps satisfying Inv '
                       '(three-phase protocol _clone(memo) / _clone_rip with the memo as an object-keyed local dictionary, OuterPin keys structural, loops cut '
                       'at sidecar invariants); Definition / Library / Netlist clones (nested loops over the whole tree, rip-and-replace through the memo) are '
                       'decided by the ' + expl_b)
    fails = _designb.run_designs(rep, PID, tier, seed, RULE, extra_bounds={'element_clone_roots_per_kind': '<= 4 libraries/definitions, <= 3 of each other kind per design', 'edit_groups': ['data', 'structure', 'transform(uniquify+flatten)', 'dismantle'], 'name_lookups_per_design': 10})
    _designb.report_failures(rep, PID, fails)
    hit = set(v['key'] for v in rep.violations)
    for fn, o in failed:
        rep.violation(o['name'], 'obligation %s is no longer discharged (%s)%s' % (o['name'], (o.get('detail') or '')[:200],
                      '; the bounded tier reports a failing input for this property in the same run' if hit else ''),
                      replay={'kind': 'obligation', 'obligation': o['name'], 'function': fn, 'solver_output': o.get('detail')}, nfi=not hit)
    rep.trusted = list(getattr(rep, 'trusted', []) or []) + ['pyvc VC generator (DESIGN.md 3), z3/cvc5', 'IR heap model and Inv of specs/ir.py']
    rep.assumptions += ['the receiver satisfies Inv together with the rest of the heap (proved for API-built netlists by C01/C02)',
                        'stores to the not yet returned clone are internal (no announcement demanded; the creation hook of the new object is modelled as in C19)']


def replay(path):
    import json
    d = json.load(open(path)); r = d.get('replay') or {}
    if r.get('kind') == 'obligation':
        print('replay file names obligation %s; solver output: %s' % (r.get('obligation'), str(r.get('solver_output'))[:300])); return 0
    return _designb.replay(path, PID)
