"""C11 (hierarchical references enumerate each occurrence exactly once and are canonical): bounded stand-in on get_h* and HRef."""
from props import _designb
LEVEL = 'exploration'
PID = 'C11'
RULE = ('distinct = distinct abstract design (hash of the AD); non-trivial = at least one non-leaf definition occurring at two or more '
        'paths below the top and hierarchy depth >= 2')


def run(rep, tier, seed):
    rep.explanation = 'bounded stand-in only: five get_h* queries from netlist / hierarchical-instance / element roots (recursive on/off) versus an independent occurrence enumeration; duplicates; is_valid; names; flyweight canonicity; is_valid/is_unique after 10 kinds of edits'
    rep.assumptions = ['Tier B: everything outside the stated bounds is unexplored (DESIGN.md 8.12)',
                       'oracles (canon / elab / occurrence enumeration / Inv) read public attributes only and are calibrated against an AD-level elaborator']
    fails = _designb.run_designs(rep, PID, tier, seed, RULE, extra_bounds={'roots_per_design': '<= 10 hierarchical instances, <= 5 of each element kind', 'edits': 'remove child/cable/wire/port/pin, dereference, top None/other, add instance, move child (one each per design)'})
    _designb.report_failures(rep, PID, fails)


def replay(path):
    return _designb.replay(path, PID)
