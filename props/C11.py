"""C11 (hierarchical references enumerate each occurrence exactly once and are canonical): bounded stand-in on get_h* and HRef."""
from props import _designb, _pv
LEVEL = 'other'
PID = 'C11'
RULE = ('distinct = distinct abstract design (hash of the AD); non-trivial = at least one non-leaf definition occurring at two or more '
        'paths below the top and hierarchy depth >= 2')


def run(rep, tier, seed):
    expl_b = ('five get_h* queries from single roots of 14 kinds (netlist, library, definition, instance, port, pins, cable, wire and '
                       'hierarchical references to them; recursive on/off) and from mixed collections of 2-4 roots (overlapping and disjoint; union, each once) versus an '
                       'independent occurrence enumeration; duplicates; is_valid; names; flyweight canonicity; is_valid/is_unique of held and freshly built references and '
                       'the queries themselves after each step of 26 edit sequences, including edits above the root (top library / definition removed and re-added, '
                       'top re-pointed, set_top_instance, top None) and degenerate elements (instance without reference, cable without wires, port without pins)')
    rep.assumptions = ['Tier B: everything outside the stated bounds is unexplored (DESIGN.md 8.12)',
                       'oracles (canon / elab / occurrence enumeration / Inv) read public attributes only and are calibrated against an AD-level elaborator']
    failed = _pv.run_suite(rep, PID, 'href', tier)
    # base and step of the induction behind the reflexivity lemma that HRef.__eq__ uses (`a path is the same path as itself`)
    try:
        import sys, time
        from vlib.report import VERIF
        sys.path.insert(0, VERIF)
        from pyvc.logic import Ctx
        from pyvc.verify import discharge
        from specs import href as _href
        cx = Ctx(); hh = cx.mk_heap('0')
        for nm, hyps, goal in _href.induction_lemmas(cx, hh):
            st_, dt_, why_, be_ = discharge(cx, hyps, goal, 20000)
            rep.p(nm, st_, be_ or 'z3', dt_, 'HRef.__eq__', why_ if st_ != 'discharged' else None)
            if st_ == 'failed': failed.append(('HRef.__eq__', {'name': nm, 'detail': why_}))
    except Exception as e:
        rep.error('induction lemmas of HRef.__eq__: %r' % (e,))
    rep.explanation = ('validity (P): HRef.is_valid returns exactly valid(reference) -- the path of items is a path of the CURRENT netlist: the root is the top '
                       'instance of the netlist holding the library of its definition, every further instance / port / cable lies in the definition REFERENCED by '
                       'the instance before it, a wire / pin in the cable / port before it -- for all heaps satisfying Inv and all chains of reference nodes; it '
                       'never raises and writes nothing (while-loop cut at the invariant valid(self) == valid(current node); the code tests membership in '
                       'definition.references, the specification says instance.reference, Inv I3 connects them); equality (P): HRef.__eq__(other) is True exactly when '
                       'other is a reference whose chain of items is the same path, item by item (walk in step; reflexivity by induction over the chain, base and '
                       'step discharged).  Enumeration, flyweight sharing, uniqueness (B): ' + expl_b)
    fails = _designb.run_designs(rep, PID, tier, seed, RULE, extra_bounds={'roots_per_design': 'pool of <= 45 roots of 14 kinds', 'mixed_collections': '6 per query and recursive flag, 2-4 roots each', 'edit_sequences': '26 per design (each edit followed by its undo); see bounded_notes in the evidence', 'paths_through_instances_of_definitions_outside_the_netlist': 'not judged'})
    _designb.report_failures(rep, PID, fails)
    hit = set(v['key'] for v in rep.violations)
    for fn, o in failed:
        rep.violation(o['name'], 'obligation %s is no longer discharged (%s)%s' % (o['name'], (o.get('detail') or '')[:200],
                      '; the bounded tier reports a failing input for this property in the same run' if hit else ''),
                      replay={'kind': 'obligation', 'obligation': o['name'], 'function': fn, 'solver_output': o.get('detail')}, nfi=not hit)
    rep.trusted = list(getattr(rep, 'trusted', []) or []) + ['pyvc VC generator (DESIGN.md 3), z3/cvc5', 'IR heap model and Inv of specs/ir.py']
    rep.assumptions += ['the netlist satisfies Inv (proved for API-built netlists by C01/C02)',
                        'reference nodes are immutable and their parent chain is finite and acyclic (built bottom-up by from_parent_and_item); termination of the walk is not proved',
                        'the item of a node is None or an object that is not itself a reference node, and never an OuterPin (whose == is structural)',
                        'induction over the parent chain (finite by construction) is the meta-step from the discharged base and step to "every path is the same path as itself"']


def replay(path):
    import json
    d = json.load(open(path)); r = d.get('replay') or {}
    if r.get('kind') == 'obligation':
        print('replay file names obligation %s; solver output: %s' % (r.get('obligation'), str(r.get('solver_output'))[:300])); return 0
    return _designb.replay(path, PID)
