"""C11 (hierarchical references enumerate each occurrence exactly once and are canonical): bounded stand-in on get_h* and HRef."""
from props import _designb
LEVEL = 'exploration'
PID = 'C11'
RULE = ('distinct = distinct abstract design (hash of the AD); non-trivial = at least one non-leaf definition occurring at two or more '
        'paths below the top and hierarchy depth >= 2')


def run(rep, tier, seed):
    rep.explanation = ('bounded stand-in only: five get_h* queries from single roots of 14 kinds (netlist, library, definition, instance, port, pins, cable, wire and '
                       'hierarchical references to them; recursive on/off) and from mixed collections of 2-4 roots (overlapping and disjoint; union, each once) versus an '
                       'independent occurrence enumeration; duplicates; is_valid; names; flyweight canonicity; is_valid/is_unique of held and freshly built references and '
                       'the queries themselves after each step of 26 edit sequences, including edits above the root (top library / definition removed and re-added, '
                       'top re-pointed, set_top_instance, top None) and degenerate elements (instance without reference, cable without wires, port without pins)')
    rep.assumptions = ['Tier B: everything outside the stated bounds is unexplored (DESIGN.md 8.12)',
                       'oracles (canon / elab / occurrence enumeration / Inv) read public attributes only and are calibrated against an AD-level elaborator']
    fails = _designb.run_designs(rep, PID, tier, seed, RULE, extra_bounds={'roots_per_design': 'pool of <= 45 roots of 14 kinds', 'mixed_collections': '6 per query and recursive flag, 2-4 roots each', 'edit_sequences': '26 per design (each edit followed by its undo); see bounded_notes in the evidence', 'paths_through_instances_of_definitions_outside_the_netlist': 'not judged'})
    _designb.report_failures(rep, PID, fails)


def replay(path):
    return _designb.replay(path, PID)
