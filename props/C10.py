"""C10: name-table contracts proved from the real AST (pyvc suite 'ns': policy objects and the NamespaceManager hooks) + bounded
stand-in for the history-level statement (native/b_c10.py through props/_qb.py)."""
from props import _qb, _pv
LEVEL = 'other'
PID = 'C10'


def run(rep, tier, seed):
    expl = ('table level (P): DefaultNamespace/EdifNamespace.no_conflict/update/remove/lookup against the abstract view '
                       'tab(N, type, key) -- refuses iff another element owns the key (identifiers lower-cased), update/remove move exactly the '
                       'entry of the element, every other entry of every table is unchanged; hook level (P, policy methods used through their '
                       'contracts): NamespaceManager.add / dictionary_set and the ten hooks the dispatcher calls (definition_add_port ... netlist_remove_library) -- add / dictionary_set refuse (ValueError) exactly for a sibling that owns the name or '
                       'identifier or for an illegal EDIF identifier and then leave every table unchanged, otherwise record the element; '
                       'remove / dictionary_delete / dictionary_pop never refuse and drop exactly the element\'s entry; lookup returns the entry of '
                       'the parent\'s table; lemmas over these contracts (P): each hook carries the invariant "every table entry is a child carrying that '
                       'name / identifier and every named child is an entry" from before an announcement to after it, refusals coincide with a real '
                       'duplicate among the announced siblings, sibling names are unique; obligations at every announcement point of the IR mutators (P): '
                       'additions concern parentless elements, removals name the current parent, element data are not mid-change; HISTORY LEVEL (P, suite irns): '
                       'every public IR mutator (67 functions incl. constructors, bulk removals, data edits, compound creators), executed with the hooks replaced by '
                       'the abstract table effect that the `refinement` lemmas derive from the hook contracts, re-establishes Inv_NS at every normal and exceptional '
                       'exit -- by induction the tables agree with a scan of the children after any history of these calls under one naming policy.  The rest of the statement (tables agree with a scan of the children after every API call, for '
                       'hand-built, parsed and cloned netlists, policy switches included) is decided by the bounded stand-in only.')
    failed = _pv.run_suite(rep, PID, 'ns', tier)
    # lemmas over the hook contracts: each hook carries "tables agree with a scan of the announced children" across its announcement
    import subprocess, sys, json, os
    from vlib.report import VERIF, REPO
    env = dict(os.environ); env['VERIF_REPO'] = REPO
    try:
        pr = subprocess.run([sys.executable, '-B', os.path.join(VERIF, 'pyvc', 'verify.py'), '--lemmas', 'ns', '--json'], capture_output=True, text=True,
                            timeout=900, env=env)
        lem = json.loads(pr.stdout.split('@@JSON@@')[-1])
    except Exception as e:
        lem = []; rep.error('lemma run failed: %r' % (e,))
    if not lem: rep.error('zero lemmas generated for C10')
    for o in lem:
        rep.p(o['name'], o['status'], o.get('backend') or 'z3', o['time_s'], 'lemma over the contracts of specs/ns.py', o.get('detail'))
        if o['status'] == 'failed': failed.append(('specs/ns.py lemmas', o))
    # history level: Inv_NS at every exit (normal and exceptional) and every announcing loop head of every public IR mutator, with the
    # hooks modelled by the abstract table effect that the `refinement` lemmas above derive from the hook contracts
    failed += _pv.run_suite(rep, PID, 'irns', tier)
    # obligations at the announcement points of the IR mutators (same symbolic execution as C01/C02/C14/C19; cached per source hash)
    from props import _irp
    d = _irp.ir_proof(tier)
    n_ann = 0
    for r in d['functions']:
        for o in r['results']:
            if o['name'].startswith('C10/'):
                n_ann += 1
                rep.functions.setdefault(r['function'], r.get('sha', '?'))
                rep.p(o['name'], o['status'], o.get('backend') or 'z3', o['time_s'], r['function'], o.get('detail'))
                if o['status'] == 'failed': failed.append((r['function'], o))
    if n_ann == 0: rep.error('zero announcement obligations generated for C10')
    _qb.run(rep, PID, tier, seed)
    rep.explanation = expl
    hit = set(v['key'] for v in rep.violations)
    for fn, o in failed:
        rep.violation(o['name'], 'obligation %s is no longer discharged (%s)%s' % (o['name'], (o.get('detail') or '')[:200],
                      '; the bounded tier reports a failing input for this property in the same run' if hit else ''),
                      replay={'kind': 'obligation', 'obligation': o['name'], 'function': fn, 'solver_output': o.get('detail')}, nfi=not hit)
    rep.trusted = list(getattr(rep, 'trusted', []) or []) + ['pyvc VC generator (DESIGN.md 3), z3/cvc5',
                   'heap-dictionary model of dict (dk/dv arrays keyed by canonical value), `lower` as an uninterpreted idempotent map on string values',
                   'IR heap model, Inv and the loop invariants of specs/ir.py / ir_loops.py (history level: the hypotheses Inv and Inv_NS before the call)']
    rep.assumptions = list(getattr(rep, 'assumptions', []) or []) + [
        'separation of dictionary objects (distinct policy objects own distinct dictionaries) is a precondition; it is re-established by every '
        'function under contract (preserved.sep.* obligations) and holds initially because __init__ allocates fresh dictionaries',
        'the lexical rule for EDIF identifiers (_check_EDIF_identifier) is an uninterpreted predicate here (its regex is outside the encoding)',
        'policy switching (dictionary_set/delete/pop of ".NS", apply_namespace, drop_namespace, is_compliant work-lists) is outside the proved part: '
        'NamespaceManager.add is proved for a child that carries the same policy as its parent; an element\'s ".NS" names a registered policy',
        'WeakKeyDictionary is modelled as a dictionary (no collection of dead parents)',
        'history level (suite irns): the create_* hooks of netlists / libraries / definitions start empty tables (not under contract: they run apply_namespace); '
        'one naming policy per history (ned(P) fixed, the `.NS` adoption of add is not modelled); lookup through the registered fast lookup, clone and the readers are '
        'covered by the bounded tier only; the refinement nt[P][cls][k] = tab(namespaces[P], type, k) identifies the two models (checked per hook by the `refinement` lemmas)']


def replay(path):
    import json
    d = json.load(open(path)); r = d.get('replay') or {}
    if r.get('kind') == 'obligation':
        print('replay file names obligation %s; solver output: %s' % (r.get('obligation'), str(r.get('solver_output'))[:300])); return 0
    return _qb.replay(path, PID)
