"""C10: name-table contracts proved from the real AST (pyvc suite 'ns': policy objects and the NamespaceManager hooks) + bounded
stand-in for the history-level statement (native/b_c10.py through props/_qb.py)."""
from props import _qb, _pv
LEVEL = 'other'
PID = 'C10'


def run(rep, tier, seed):
    expl = ('table level (P): DefaultNamespace/EdifNamespace.no_conflict/update/remove/lookup against the abstract view '
                       'tab(N, type, key) -- refuses iff another element owns the key (identifiers lower-cased), update/remove move exactly the '
                       'entry of the element, every other entry of every table is unchanged; hook level (P, policy methods used through their '
                       'contracts): NamespaceManager.add / dictionary_set refuse (ValueError) exactly for a sibling that owns the name or '
                       'identifier or for an illegal EDIF identifier and then leave every table unchanged, otherwise record the element; '
                       'remove / dictionary_delete / dictionary_pop never refuse and drop exactly the element\'s entry; lookup returns the entry of '
                       'the parent\'s table.  The history-level statement (tables agree with a scan of the children after every API call, for '
                       'hand-built, parsed and cloned netlists, policy switches included) is decided by the bounded stand-in only.')
    failed = _pv.run_suite(rep, PID, 'ns', tier)
    _qb.run(rep, PID, tier, seed)
    rep.explanation = expl
    hit = set(v['key'] for v in rep.violations)
    for fn, o in failed:
        rep.violation(o['name'], 'obligation %s is no longer discharged (%s)%s' % (o['name'], (o.get('detail') or '')[:200],
                      '; the bounded tier reports a failing input for this property in the same run' if hit else ''),
                      replay={'kind': 'obligation', 'obligation': o['name'], 'function': fn, 'solver_output': o.get('detail')}, nfi=not hit)
    rep.trusted = list(getattr(rep, 'trusted', []) or []) + ['pyvc VC generator (DESIGN.md 3), z3/cvc5',
                   'heap-dictionary model of dict (dk/dv arrays keyed by canonical value), `lower` as an uninterpreted idempotent map on string values']
    rep.assumptions = list(getattr(rep, 'assumptions', []) or []) + [
        'separation of dictionary objects (distinct policy objects own distinct dictionaries) is a precondition; it is re-established by every '
        'function under contract (preserved.sep.* obligations) and holds initially because __init__ allocates fresh dictionaries',
        'the lexical rule for EDIF identifiers (_check_EDIF_identifier) is an uninterpreted predicate here (its regex is outside the encoding)',
        'policy switching (dictionary_set/delete/pop of ".NS", apply_namespace, drop_namespace, is_compliant work-lists) is outside the proved part: '
        'NamespaceManager.add is proved for a child that carries the same policy as its parent; an element\'s ".NS" names a registered policy',
        'WeakKeyDictionary is modelled as a dictionary (no collection of dead parents)',
        'composition of the hook contracts with the IR mutators into the history-level invariant is not discharged (bounded tier)']


def replay(path):
    import json
    d = json.load(open(path)); r = d.get('replay') or {}
    if r.get('kind') == 'obligation':
        print('replay file names obligation %s; solver output: %s' % (r.get('obligation'), str(r.get('solver_output'))[:300])); return 0
    return _qb.replay(path, PID)
