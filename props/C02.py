from props import _irp
LEVEL = 'proof'
PID = 'C02'

def run(rep, tier, seed):
    _irp.run(rep, PID, tier, seed, 'I3 (reference sets, outer-pin mirror) and I4 clauses of Inv proved preserved by every public IR mutator on every exit (P); S-rules; B cross-check')

def replay(path):
    return _irp.replay(path, PID)
