"""C13: `_is_pattern_absolute` proved against its exact specification from the real AST (string VCs) + bounded stand-in
(metamorphic relations over every query function, native/b_c13.py)."""
import sys
from props import _qb
from vlib.report import VERIF, REPO
LEVEL = 'other'
PID = 'C13'


def run(rep, tier, seed):
    sys.path.insert(0, VERIF); sys.setrecursionlimit(20000)
    from specs import edifify
    rep.explanation = ('which patterns take the exact (fast-lookup / equality) route: _is_pattern_absolute(p, is_case, is_re) <=> is_case and not is_re '
                       'and p contains neither * nor ?, proved for all strings (P); the meaning of wildcard / regex / case options, union over '
                       'patterns, duplicates, order- and lookup-independence for the 13 query functions: bounded stand-in only (the matcher is a '
                       'translation to `re`, whose semantics is an external contract; the query functions are generator work-lists)')
    res, shas, deg = edifify.run_patterns(REPO)
    rep.functions.update(shas)
    for fn, why in deg.items(): rep.degrade('patterns.' + fn, why)
    for name, status, t, detail, be in res:
        rep.p(name, status, be if isinstance(be, str) and be else 'z3', t, 'patterns._is_pattern_absolute', detail if status != 'discharged' else None)
        if status == 'failed':
            rep.violation(name, 'obligation %s is no longer discharged (%s)' % (name, str(detail)[:200]),
                          replay={'kind': 'obligation', 'obligation': name, 'solver_output': str(detail)[:1500]}, nfi=True)
    if not res and not deg: rep.error('zero obligations generated for C13')
    rep.trusted = ['pyvc/strvc.py, z3/cvc5']
    rep.assumptions = ['is_case / is_re are Booleans (documented)', 're.fullmatch / re.escape semantics are external (unverified) contracts']
    _qb.run(rep, PID, tier, seed)


def replay(path):
    import json
    d = json.load(open(path)); r = d.get('replay') or {}
    if r.get('kind') == 'obligation':
        print('replay file names obligation %s; solver output: %s' % (r.get('obligation'), str(r.get('solver_output'))[:300])); return 0
    return _qb.replay(path, PID)
