"""C03 (bounded stand-in): EDIF write-then-read returns the same netlist."""
from props import _rtb
LEVEL = 'exploration'
PID = 'C03'
SCRIPT = 'b_c03.py'
SPEC = {'quick': {'designs': 150, 'styles': 2, 'files': {'edif': 30000}, 'limit': 20, 'file_limit': 60},
        'thorough': {'designs': 2500, 'styles': 1, 'files': {'edif': 200000}, 'limit': 20, 'file_limit': 400}}
RULE = ('case = a netlist built through the public API from a seeded abstract design (creation order shuffled), or the netlist the '
        'EDIF reader returns for text of the independent writer (styles_per_design styles per design), or a bundled .edf archive; each is written by '
        'sdn.compose and re-read by sdn.parse; distinct = sha1 of producer+AD(+style) / archive name; non-trivial = at least one '
        'instance, one connected net and one bus (array port or multi-bit net)')


def run(rep, tier, seed):
    rep.explanation = ('bounded stand-in only: canon(parse(compose(n))) == canon(n) with ports in order, nets with name/width/base and '
                       'per-bit endpoints in order, typed instance properties, top and names; the written file is accepted by the reader, '
                       'is a balanced s-expression defining cells before use (independent s-expression reading); Inv of the re-read netlist')
    rep.assumptions.append('tier B: everything outside the stated bounds is unexplored; cable names ending in [digits] are not generated '
                           '(inexpressible under the name[i] bit-net convention of C05)')
    _rtb.run(rep, PID, SCRIPT, tier, seed, SPEC, RULE, gen_bounds=_rtb.HIER_BOUNDS)


def replay(path):
    return _rtb.replay(path, PID, SCRIPT)
