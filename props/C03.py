"""C03 (bounded stand-in): EDIF write-then-read returns the same netlist."""
from props import _rtb, _pv
LEVEL = 'other'
PID = 'C03'
SCRIPT = 'b_c03.py'
SPEC = {'quick': {'designs': 150, 'styles': 2, 'files': {'edif': 30000}, 'limit': 20, 'file_limit': 60},
        'thorough': {'designs': 2500, 'styles': 1, 'files': {'edif': 200000}, 'limit': 20, 'file_limit': 400}}
RULE = ('case = a netlist built through the public API from a seeded abstract design (creation order shuffled), or the netlist the '
        'EDIF reader returns for text of the independent writer (styles_per_design styles per design), or a bundled .edf archive; each is written by '
        'sdn.compose and re-read by sdn.parse; distinct = sha1 of producer+AD(+style) / archive name; non-trivial = at least one '
        'instance, one connected net and one bus (array port or multi-bit net)')


def run(rep, tier, seed):
    failed = _pv.run_suite(rep, PID, 'ecomposer', tier)
    rep.explanation = ('helper level (P): ComposeEdif._get_wire_index_(cable, wire) == position of the wire in cable.wires + cable.lower_index for every listed wire (TypeError only for an unlisted one), for all heaps satisfying Inv; Bundle.is_scalar / is_array getters on Port and Cable receivers (the test for the array spelling): scalar iff at most one bit and the stored flag, array its negation, writing nothing; their setters (the record of the spelling read): refused exactly for a one-bit claim about a wider bundle and then changing nothing, otherwise read back as written with nothing else changed; everything else: '
                       'bounded stand-in: canon(parse(compose(n))) == canon(n) with ports in order, nets with name/width/base and '
                       'per-bit endpoints in order, typed instance properties, top and names; the written file is accepted by the reader, '
                       'is a balanced s-expression defining cells before use (independent s-expression reading); Inv of the re-read netlist')
    rep.assumptions.append('tier B: everything outside the stated bounds is unexplored; cable names ending in [digits] are not generated '
                           '(inexpressible under the name[i] bit-net convention of C05)')
    _rtb.run(rep, PID, SCRIPT, tier, seed, SPEC, RULE, gen_bounds=_rtb.HIER_BOUNDS)
    _pv.report_failed(rep, failed)
    rep.trusted = list(getattr(rep, 'trusted', []) or []) + ['pyvc VC generator (DESIGN.md 3), z3/cvc5', 'IR heap model, positional list axioms (at/idx) of pyvc/logic.py']
    rep.assumptions.append('Bundle.lower_index holds an int (documented type); the netlist satisfies Inv')


def replay(path):
    if _pv.replay_obligation(path): return 0
    return _rtb.replay(path, PID, SCRIPT)
