from props import _irp
LEVEL = 'proof'
PID = 'C01'

def run(rep, tier, seed):
    _irp.run(rep, PID, tier, seed, 'I1 (containment) and I2 (pin-wire) clauses of Inv, typing/closedness, permutation of reorder setters: proved preserved by every public IR mutator on every exit (P), closed world by S-rules; random histories as bounded cross-check (B)')

def replay(path):
    return _irp.replay(path, PID)
