"""C20 (the comparer accepts equal netlists and rejects structural differences): bounded stand-in on spydrnet.compare Comparer."""
from props import _designb
LEVEL = 'exploration'
PID = 'C20'
RULE = ('distinct = distinct abstract design (hash of the AD); non-trivial = hierarchy depth >= 2 and at least one instance with '
        'EDIF.properties')


def run(rep, tier, seed):
    rep.explanation = 'bounded stand-in only: compare() must return for clone, independent build, EDIF and Verilog write-then-read (of a netlist read from that format); must raise for each of 30 single mutations of an independently built copy'
    rep.assumptions = ['Tier B: everything outside the stated bounds is unexplored (DESIGN.md 8.12)',
                       'oracles (canon / elab / occurrence enumeration / Inv) read public attributes only and are calibrated against an AD-level elaborator']
    fails = _designb.run_designs(rep, PID, tier, seed, RULE, extra_bounds={'mutations_per_design': 30, 'formats': 'EDIF, Verilog (Verilog from the verilog_friendly form of the design); EBLIF not covered', 'profile': 'plain (fully named, library DAG)', 'io_timeout_s': 20})
    _designb.report_failures(rep, PID, fails)


def replay(path):
    return _designb.replay(path, PID)
