"""C20: element-level comparer contracts proved from the real AST (pyvc suite 'compare') + bounded stand-in (native/b_c20.py)."""
from props import _designb, _pv
LEVEL = 'other'
PID = 'C20'


def run(rep, tier, seed):
    rep.explanation = ('soundness of rejection at element level: "returns normally ==> the examined attributes are equal" proved for '
                       'Comparer.compare_ports / compare_cables / compare_outer_pins / compare_inner_pins / are_instances_equivalent / '
                       'are_inner_pins_equivalent over the IR heap model (P; callee contracts used modularly, checking loops need no invariant); '
                       'pairing of elements by name lookup (compare, compare_libraries, compare_definition, compare_instances incl. properties) '
                       'and acceptance of faithful copies: bounded stand-in only')
    failed = _pv.run_suite(rep, PID, 'compare', tier)
    RULE = ('distinct = distinct abstract design (hash of the AD); non-trivial = hierarchy depth >= 2 and at least one instance with '
            'EDIF.properties')
    fails = _designb.run_designs(rep, PID, tier, seed, RULE, extra_bounds={'mutations_per_design': 32, 'formats': 'EDIF, Verilog (Verilog from the verilog_friendly form of the design); EBLIF not covered', 'profile': 'plain (fully named, library DAG)', 'io_timeout_s': 20})
    _designb.report_failures(rep, PID, fails)
    hit = set(v['key'] for v in rep.violations)
    for fn, o in failed:
        rep.violation(o['name'], 'obligation %s is no longer discharged (%s)%s' % (o['name'], (o.get('detail') or '')[:200],
                      '; the bounded tier reports a failing input for this property in the same run' if hit else ''),
                      replay={'kind': 'obligation', 'obligation': o['name'], 'function': fn, 'solver_output': o.get('detail')}, nfi=not hit)
    rep.trusted = ['pyvc VC generator (DESIGN.md 3), z3/cvc5', 'IR heap model and Inv (names are opaque values with an uninterpreted equality)']
    rep.assumptions = ['both netlists satisfy Inv (proved for API-built netlists by C01/C02)', 'names and directions are plain values (not IR objects)',
                       'the documented special case for SDN_Assignment_ instance names is taken as specified (only the width field is compared)',
                       'the name-lookup pairing of elements (get_libraries/get_definitions/... by name) is outside the proved part']


def replay(path):
    import json
    d = json.load(open(path)); r = d.get('replay') or {}
    if r.get('kind') == 'obligation':
        print('replay file names obligation %s; solver output: %s' % (r.get('obligation'), str(r.get('solver_output'))[:300])); return 0
    return _designb.replay(path, PID)
