"""C06 (bounded stand-in): the Verilog reader builds exactly the design the source describes."""
from props import _rtb, _pv
LEVEL = 'other'
PID = 'C06'
SCRIPT = 'b_c06.py'
SPEC = {'quick': {'designs': 150, 'styles': 4, 'files': {'verilog': 70000}, 'limit': 20, 'file_limit': 60},
        'thorough': {'designs': 2500, 'styles': 2, 'files': {'verilog': 600000}, 'limit': 20, 'file_limit': 400}}
RULE = ('case = (seeded abstract design, style) rendered by the independent structural-Verilog writer (native/render_verilog.py) and '
        'read by sdn.parse, or one bundled .v archive; distinct = sha1 of AD+style / archive name; non-trivial = at least two instances, '
        'two connected nets and one bus (vector port or vector net); bundled archives count when they parse')


def run(rep, tier, seed):
    failed = _pv.run_suite(rep, PID, 'vparser', tier)
    rep.explanation = ("helper level (P): VerilogParser.populate_new_cable / populate_new_port give a bundle declared [l:r] exactly |l-r|+1 wires / pins, lower_index min(l, r), is_downto iff r <= l (one bit and the given index, or 0, otherwise) and the declared name, raising only by the listener's naming veto, for all heaps satisfying Inv and all integer bounds; everything else: "
                       'bounded stand-in: contract on sdn.parse(.v) against an independent writer and canonicaliser: modules and their '
                       'library (work / hdi_primitives / SDN_VERILOG_ASSIGNMENT), ports (direction, width, base), one cable per declared or '
                       'implied net, bit k of every connection expression joined to bit k of the port (named and positional maps), black boxes '
                       'for never-declared modules, assigns as joined bit pairs, 1\'b0/1\'b1 as \\<const0>/\\<const1>, parameters, attributes, top; '
                       'Inv I1-I4 and self-containment; bundled examples parse + Inv')
    rep.assumptions.append('tier B: everything outside the stated bounds is unexplored; not generated: header port aliases other than '
                           'single-bit breakouts .p({a, b}), `input wire` in ANSI headers, positional maps on never-declared modules, '
                           'empty positional slots, ascending ranges [lsb:msb]')
    _rtb.run(rep, PID, SCRIPT, tier, seed, SPEC, RULE, gen_bounds=_rtb.HIER_BOUNDS)
    _pv.report_failed(rep, failed)
    rep.trusted = list(getattr(rep, 'trusted', []) or []) + ['pyvc VC generator (DESIGN.md 3), z3/cvc5', 'IR heap model and loop invariants of specs/ir_loops.py']
    rep.assumptions.append('the helpers are called on a bundle that has no wires / pins yet (as create_or_update_cable / _port do); integers mathematical')


def replay(path):
    if _pv.replay_obligation(path): return 0
    return _rtb.replay(path, PID, SCRIPT)
