"""C04 (bounded stand-in): structural Verilog write-then-read returns the same netlist."""
from props import _rtb, _pv
LEVEL = 'other'
PID = 'C04'
SCRIPT = 'b_c04.py'
SPEC = {'quick': {'designs': 150, 'styles': 2, 'files': {'verilog': 30000}, 'limit': 20, 'file_limit': 60},
        'thorough': {'designs': 2500, 'styles': 1, 'files': {'verilog': 140000}, 'limit': 20, 'file_limit': 400}}
RULE = ('case = (netlist the Verilog reader returns for text of the independent writer or for a bundled .v archive, transform in '
        'none/clone/uniquify/uniquify+flatten) written by sdn.compose(.v) and re-read; every generated design is run untransformed and '
        'with one transform chosen from the seed, bundled archives under 12 kB with all four; distinct = sha1 of AD+style+transform / '
        'archive+transform; non-trivial = at least two instances, two connected nets and one bus')


def run(rep, tier, seed):
    failed = _pv.run_suite(rep, PID, 'vcomposer', tier)
    rep.explanation = ("helper level (P): Composer._index_of_wire_in_cable(wire) == position of the wire in its cable + the cable's lower_index, never None for a wire of a cable, for all heaps satisfying Inv; everything else: "
                       'bounded stand-in: canon(parse(compose(t(parse(f))))) == canon(t(parse(f))) for t in none/clone/uniquify/flatten: '
                       'modules, port directions/widths/bases, wires, instances with parameters and attributes, bit-level joins, assigns as '
                       'joined bit pairs; written text accepted; Inv of the re-read netlist. Normalisations from the support page: undefined '
                       'port direction is written as inout; cables that exist only because a port implies them are ignored on both sides')
    rep.assumptions.append('tier B: everything outside the stated bounds is unexplored; flatten is applied after uniquify (its precondition)')
    _rtb.run(rep, PID, SCRIPT, tier, seed, SPEC, RULE, extra={'transform_files_below': 12000}, gen_bounds=_rtb.HIER_BOUNDS)
    _pv.report_failed(rep, failed)
    rep.trusted = list(getattr(rep, 'trusted', []) or []) + ['pyvc VC generator (DESIGN.md 3), z3/cvc5', 'IR heap model, positional list axioms (at/idx) of pyvc/logic.py']
    rep.assumptions.append('Bundle.lower_index holds an int (documented type); the netlist satisfies Inv')


def replay(path):
    if _pv.replay_obligation(path): return 0
    return _rtb.replay(path, PID, SCRIPT)
