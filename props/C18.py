"""C18 (bounded stand-in): EBLIF files are read faithfully and survive write-then-read."""
import sys
from props import _rtb, _pv
from vlib.report import VERIF, REPO
LEVEL = 'other'
PID = 'C18'
SCRIPT = 'b_c18.py'
SPEC = {'quick': {'designs': 150, 'styles': 3, 'files': {'eblif': 10 ** 7}, 'limit': 20, 'file_limit': 60},
        'thorough': {'designs': 2500, 'styles': 2, 'files': {'eblif': 10 ** 7}, 'limit': 20, 'file_limit': 120}}
RULE = ('case = (seeded flat abstract design, style, part) with part in read (text of the independent EBLIF writer -> sdn.parse vs the '
        'abstract design) / rt (reader result -> sdn.compose(.eblif) -> sdn.parse vs reader result), or one bundled .eblif archive '
        '(parse + Inv + round trip); distinct = sha1 of AD+style+part / archive name; non-trivial = at least two instances of at least two '
        'statement kinds (.subckt/.gate/.names/.latch)')


def run(rep, tier, seed):
    sys.path.insert(0, VERIF); sys.setrecursionlimit(20000)
    from specs import eblifnames
    res, shas, deg = eblifnames.run(REPO)
    rep.functions.update(shas)
    for fn, why in deg.items(): rep.degrade('EBLIFParser.' + fn, why)
    for name, status, t, detail, be in res:
        rep.p(name, status, be if isinstance(be, str) and be else 'z3', t, 'EBLIFParser.get_port_name_and_index', detail if status != 'discharged' else None)
        if status == 'failed':
            rep.violation(name, 'obligation %s is no longer discharged (%s)' % (name, str(detail)[:200]),
                          replay={'kind': 'obligation', 'obligation': name, 'solver_output': str(detail)[:1500]}, nfi=True)
    if not res and not deg: rep.error('zero obligations generated for C18')
    rep.explanation = ('helper level (P, string VCs over the real AST): EBLIFParser.get_port_name_and_index splits every token name[d] (d a decimal numeral, '
                       'name any printable string) into (name, int(d)) and returns (token, 0) for a token that does not end with a bracketed numeral, never raising '
                       '-- the step on which "every formal=actual pair joined to the named net bit" rests; everything else: bounded stand-in: read part: one instance per .subckt/.gate/.names/.latch with the named (or generated '
                       'logic-gate_N / generic-latch) model, EBLIF.type, .cname/.attr/.param attached, model ports with direction and width, '
                       'black boxes (declared or only used) leaf primitives in hdi_primitives, top, nets as sets of pins after .conn merging and '
                       'by (name, index) where no .conn touches them, Inv + self-containment; round-trip part: same instances (by name), types, '
                       'attr/param/covers, nets as sets of pins, written file accepted; all 8 bundled archives')
    rep.assumptions.append('tier B: everything outside the stated bounds is unexplored; instances without .cname are identified by their position '
                           'among the instances without .cname; latch type / initial value tokens are not treated as nets; widths of ports of '
                           'never-declared models may be anything between the widest connected and the widest mentioned formal')
    _rtb.run(rep, PID, SCRIPT, tier, seed, SPEC, RULE, gen_bounds=_rtb.FLAT_BOUNDS)
    rep.trusted = list(getattr(rep, 'trusted', []) or []) + ['pyvc/strvc.py (string VC generator: code-point arrays, CPython slice clamping, positional find / rfind), z3/cvc5']
    rep.assumptions += ['tokens are non-empty printable ASCII strings; int() of a decimal numeral is an uninterpreted function of its characters; integers mathematical']


def replay(path):
    if _pv.replay_obligation(path): return 0
    return _rtb.replay(path, PID, SCRIPT)
