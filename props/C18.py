"""C18 (bounded stand-in): EBLIF files are read faithfully and survive write-then-read."""
from props import _rtb
LEVEL = 'exploration'
PID = 'C18'
SCRIPT = 'b_c18.py'
SPEC = {'quick': {'designs': 150, 'styles': 3, 'files': {'eblif': 10 ** 7}, 'limit': 20, 'file_limit': 60},
        'thorough': {'designs': 2500, 'styles': 2, 'files': {'eblif': 10 ** 7}, 'limit': 20, 'file_limit': 120}}
RULE = ('case = (seeded flat abstract design, style, part) with part in read (text of the independent EBLIF writer -> sdn.parse vs the '
        'abstract design) / rt (reader result -> sdn.compose(.eblif) -> sdn.parse vs reader result), or one bundled .eblif archive '
        '(parse + Inv + round trip); distinct = sha1 of AD+style+part / archive name; non-trivial = at least two instances of at least two '
        'statement kinds (.subckt/.gate/.names/.latch)')


def run(rep, tier, seed):
    rep.explanation = ('bounded stand-in only: read part: one instance per .subckt/.gate/.names/.latch with the named (or generated '
                       'logic-gate_N / generic-latch) model, EBLIF.type, .cname/.attr/.param attached, model ports with direction and width, '
                       'black boxes (declared or only used) leaf primitives in hdi_primitives, top, nets as sets of pins after .conn merging and '
                       'by (name, index) where no .conn touches them, Inv + self-containment; round-trip part: same instances (by name), types, '
                       'attr/param/covers, nets as sets of pins, written file accepted; all 8 bundled archives')
    rep.assumptions.append('tier B: everything outside the stated bounds is unexplored; instances without .cname are identified by their position '
                           'among the instances without .cname; latch type / initial value tokens are not treated as nets; widths of ports of '
                           'never-declared models may be anything between the widest connected and the widest mentioned formal')
    _rtb.run(rep, PID, SCRIPT, tier, seed, SPEC, RULE, gen_bounds=_rtb.FLAT_BOUNDS)


def replay(path):
    return _rtb.replay(path, PID, SCRIPT)
