"""C15: policy clause decided on the real AST (exception-safe restore of namespace_manager.default in every parser's parse(),
closed-world rule for the callee frame) + bounded stand-in for termination / clean rejection (native/b_c15.py)."""
import sys
from props import _qb
from vlib.report import VERIF, REPO
LEVEL = 'other'
PID = 'C15'
PARSERS = [('spydrnet/parsers/edif/parser.py', 'EdifParser', 'parse'), ('spydrnet/parsers/verilog/parser.py', 'VerilogParser', 'parse'),
           ('spydrnet/parsers/eblif/eblif_parser.py', 'EBLIFParser', 'parse')]
ALLOWED_STORES = {('spydrnet/parsers/edif/parser.py', 'parse'), ('spydrnet/parsers/verilog/parser.py', 'parse'),
                  ('spydrnet/plugins/namespace_manager/__init__.py', '_load_policies')}


def run(rep, tier, seed):
    sys.path.insert(0, VERIF)
    from pyvc import flow
    rep.explanation = ('policy clause ("process-wide settings are what they were before the call", normal and exceptional exits): contract on '
                       'EdifParser/VerilogParser/EBLIFParser.parse decided by abstract execution of the real AST in which every statement may raise '
                       '(S obligations), callee frame by a closed-world rule; termination, clean rejection, dangling references, well-formed results: '
                       'bounded stand-in only (token-level corruption of small files in child processes) -- no termination proof exists')
    n = 0
    for rel, cls, fn in PARSERS:
        for name, ok, detail in flow.check_restore(REPO, rel, cls, fn):
            n += 1
            rep.s(name, ok, detail)
            if not ok:
                rep.violation(name, '%s: %s' % (name, detail), replay={'kind': 'syntactic', 'obligation': name, 'detail': detail,
                              'how': 'make %s.%s raise after the policy switch (any rejected input) and read namespace_manager.default' % (cls, fn)})
    for name, ok, detail in flow.rule_policy_frame(REPO, ALLOWED_STORES):
        n += 1
        rep.s(name, ok, detail)
        if not ok:
            rep.violation(name, 'closed-world rule violated: %s' % detail, replay={'kind': 'syntactic', 'rule': name, 'detail': detail})
    if n == 0: rep.error('zero obligations generated for C15')
    rep.trusted = ['pyvc/flow.py abstract execution (every statement may raise; try/finally and try/except followed exactly)']
    rep.assumptions = ['attribute stores of constants/locals to namespace_manager.default cannot themselves raise',
                       'no code outside spydrnet/ (user code, other plugins) switches the policy during a parse',
                       'termination of the readers is NOT proved; only observed within the bounded tier (5 s per parse, files <= 400 tokens)']
    _qb.run(rep, PID, tier, seed)


def replay(path):
    return _qb.replay(path, PID)
