"""C15 - bounded stand-in tier (native/b_c15.py through props/_qb.py)."""
from props import _qb
LEVEL = 'exploration'
PID = 'C15'


def run(rep, tier, seed):
    _qb.run(rep, PID, tier, seed)


def replay(path):
    return _qb.replay(path, PID)
