"""C17: string VCs generated from the real AST of edifify_names.py (code-point arrays, z3/cvc5) + bounded stand-in."""
import json, sys
from props import _qb, _pv
from vlib.report import VERIF, REPO
from vlib.native import run_native
LEVEL = 'other'
PID = 'C17'


def run(rep, tier, seed):
    sys.path.insert(0, VERIF); sys.setrecursionlimit(20000)
    from specs import edifify
    rep.explanation = ('"every identifier the EDIF writer assigns is legal": contracts on EdififyNames._length_fix/_characters_good/_characters_fix/'
                       '_conflicts_fix/make_valid proved for ALL names (any length, printable ASCII) from the real AST with strings as code-point arrays '
                       '(P); "differs ignoring case from all siblings" is proved relative to the uninterpreted sibling scan _conflicts_good, whose loop '
                       'and the rename bookkeeping, the write/read-back of whole files and original-name recovery are covered by the bounded stand-in only')
    res, shas, deg = edifify.run(REPO)
    rep.functions.update(shas)
    for fn, why in deg.items(): rep.degrade('EdififyNames.' + fn, why)
    seen = set()
    for name, status, t, detail, be in res:
        model = be if isinstance(be, dict) else None
        rep.p(name, status, be if isinstance(be, str) and be else 'z3', t, name.split('/')[1], detail if status != 'discharged' else None)
        if status == 'failed' and name not in seen:
            seen.add(name)
            fn = name.split('/')[1].split('.')[0]
            if model:
                out = run_native('replay_edifify.py', {'function': fn, 'inputs': model})
                probs = out.get('problems') if isinstance(out, dict) else None
                if probs:
                    rep.violation(name, 'obligation %s refuted; counterexample replayed on the real code: %s(%r...) -> %s' % (
                        name, fn, {k: v[:30] for k, v in model.items()}, '; '.join(probs)),
                        replay={'kind': 'string-model', 'obligation': name, 'function': fn, 'inputs': model, 'native': probs, 'solver_output': detail[:600]})
                    continue
            rep.violation(name, 'obligation %s is no longer discharged (%s)' % (name, detail[:200]),
                          replay={'kind': 'obligation', 'obligation': name, 'solver_output': detail[:1500]}, nfi=True)
    if not res and not deg: rep.error('zero obligations generated for C17')
    # the sibling scan itself (over the IR heap, names as opaque values with value equality and an uninterpreted `lower`)
    for fn, o in _pv.run_suite(rep, PID, 'edifnames', tier):
        rep.violation(o['name'], 'obligation %s is no longer discharged (%s)' % (o['name'], (o.get('detail') or '')[:200]),
                      replay={'kind': 'obligation', 'obligation': o['name'], 'function': fn, 'solver_output': o.get('detail')}, nfi=True)
    rep.trusted = ['pyvc/strvc.py (string VC generator), z3 5.1 / cvc5 1.0.3 / z3 4.8.12']
    rep.assumptions = ['characters are ASCII 32..126 (the property quantifies over printable names); str.isalpha/isalnum/lower modelled as the ASCII predicates',
                       'integers mathematical; CPython slice clamping as encoded in pyvc/strvc.py',
                       "the regex `_sdn_[0-9]+_$` is characterised positionally (unique suffix match); int()/str() uninterpreted up to 'str(n>=0) is a non-empty digit string'",
                       '_conflicts_good is used through an uninterpreted predicate in the string proof; its body is proved separately over the IR heap (suite edifnames): True iff no element of `objects` other than obj has lower(name) or lower(EDIF.identifier) equal to the identifier -- the two models (code-point arrays / opaque values with an uninterpreted `lower`) are connected by the name of the function only',
                       '_conflicts_fix: partial correctness (its recursion is used through its own contract); termination not proved']
    _qb.run(rep, PID, tier, seed)


def replay(path):
    d = json.load(open(path)); r = d.get('replay') or {}
    if r.get('kind') == 'string-model':
        out = run_native('replay_edifify.py', {'function': r['function'], 'inputs': r['inputs']})
        if out.get('problems'):
            print('REPLAY reproduces on the real code: %s' % '; '.join(out['problems'])); print('VIOLATION property=C17 replay=%s' % path); return 1
        print('REPLAY does not reproduce on this tree'); return 0
    if r.get('kind') == 'obligation':
        print('replay file names obligation %s; solver output: %s' % (r.get('obligation'), str(r.get('solver_output'))[:300])); return 0
    return _qb.replay(path, PID)
