"""C17 - bounded stand-in tier (native/b_c17.py through props/_qb.py)."""
from props import _qb
LEVEL = 'exploration'
PID = 'C17'


def run(rep, tier, seed):
    _qb.run(rep, PID, tier, seed)


def replay(path):
    return _qb.replay(path, PID)
