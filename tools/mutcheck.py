"""Mutation campaign helper: validates a seeded change and runs the property's check against it.
usage: python3 tools/mutcheck.py <PID> <dir with patch.diff/demo.py/notes.md> <name> [--suite] [--also PID2,PID3]
Creates a scratch worktree of /repo under /tmp/mutchk, applies the patch, runs the demo with and without it, optionally the repository's
test suite (compared with BASELINE.json), then `bin/check <PID> --tier quick` with VERIF_REPO pointing at the worktree (evidence and
replay files redirected to a scratch directory).  Writes seeded/<name>/{patch.diff,demo.py,notes.md,meta.json} when the change is valid."""
import json, os, shutil, subprocess, sys, time
VERIF = os.path.dirname(os.path.dirname(os.path.abspath(__file__)))


def sh(cmd, cwd=None, env=None, timeout=3000):
    p = subprocess.run(cmd, shell=True, cwd=cwd, env=env, capture_output=True, text=True, timeout=timeout)
    return p.returncode, (p.stdout + p.stderr)


def main():
    pid, src, name = sys.argv[1:4]
    suite = '--suite' in sys.argv
    also = []
    if '--also' in sys.argv: also = sys.argv[sys.argv.index('--also') + 1].split(',')
    wt = '/tmp/mutchk/%s' % name
    os.makedirs('/tmp/mutchk', exist_ok=True)
    sh('git -C /repo worktree remove --force %s' % wt)
    rc, out = sh('git -C /repo worktree add -q --detach %s HEAD' % wt)
    meta = {'id': name, 'property': pid, 'source_dir': src, 'repo_head': sh('git -C /repo rev-parse --short HEAD')[1].strip()}
    try:
        rc, out = sh('git apply %s/patch.diff' % src, cwd=wt)
        meta['applies'] = rc == 0
        if rc != 0:
            print('PATCH DOES NOT APPLY', out[:300]); return 1
        shutil.copy(os.path.join(src, 'demo.py'), os.path.join(wt, '_demo.py'))
        rc_with, o1 = sh('PYTHONPATH=%s /venv/bin/python _demo.py' % wt, cwd=wt, timeout=600)
        shutil.copy(os.path.join(src, 'demo.py'), '/tmp/mutchk/_demo_%s.py' % name)
        rc_without, o2 = sh('PYTHONPATH=/repo /venv/bin/python /tmp/mutchk/_demo_%s.py' % name, cwd='/repo', timeout=600)
        os.unlink(os.path.join(wt, '_demo.py')); os.unlink('/tmp/mutchk/_demo_%s.py' % name)
        sh('rm -rf /repo/__pycache__ /repo/_spydrnet.log')
        meta['demo_exit_with_change'] = rc_with; meta['demo_exit_without_change'] = rc_without
        meta['demo_output_with_change'] = o1[-400:]
        print('demo: with change rc=%s, without rc=%s' % (rc_with, rc_without))
        if suite:
            rc, out = sh('python3 %s/tools/baseline_check.py %s' % (VERIF, wt), timeout=3000)
            meta['suite'] = out.strip().split('\n')[0]; meta['suite_ok'] = rc == 0
            print('suite:', meta['suite'])
        results = {}
        for p in [pid] + also:
            env = dict(os.environ); env['VERIF_REPO'] = wt; env['VERIF_EVIDENCE_DIR'] = '/tmp/mutchk/ev_%s' % name; env['VERIF_REPLAY_DIR'] = '/tmp/mutchk/rp_%s' % name
            env['VERIF_NOCACHE'] = '1'
            t0 = time.time()
            rc, out = sh('bin/check %s --tier quick' % p, cwd=VERIF, env=env, timeout=3000)
            viol = [l for l in out.split('\n') if l.startswith('VIOLATION')]
            what = [l.strip() for l in out.split('\n') if l.strip().startswith('what:')]
            results[p] = {'exit': rc, 'violations': len(viol), 'first': (what[0][:300] if what else ''), 'wall_s': round(time.time() - t0, 1),
                          'nfi': sum(1 for v in viol if 'no-failing-input-found' in v)}
            print('check %s: exit=%s violations=%d wall=%.0fs %s' % (p, rc, len(viol), time.time() - t0, what[0][:200] if what else out[-300:].replace('\n', ' | ')))
        prev = os.path.join(VERIF, 'seeded', name, 'meta.json')
        if not suite and os.path.exists(prev):
            try:
                pm = json.load(open(prev))
                for k in ('suite', 'suite_ok'):
                    if k in pm: meta[k] = pm[k]
                meta['first_run_checks'] = pm.get('first_run_checks') or pm.get('checks')
            except Exception: pass
        meta['checks'] = results
        meta['detected'] = any(r['exit'] == 1 and r['violations'] > 0 for r in results.values())
        valid = rc_with != 0 and rc_without == 0 and (not suite or meta.get('suite_ok'))
        meta['valid'] = valid
        if valid:
            d = os.path.join(VERIF, 'seeded', name)
            os.makedirs(d, exist_ok=True)
            for f in ('patch.diff', 'demo.py', 'notes.md'):
                if os.path.exists(os.path.join(src, f)) and os.path.abspath(src) != os.path.abspath(d): shutil.copy(os.path.join(src, f), os.path.join(d, f))
            meta['what_i_ran'] = ['git apply patch.diff in a scratch worktree of /repo HEAD', 'demo.py with and without the change',
                                  ('tools/baseline_check.py on the worktree (578 stable tests): ' + str(meta.get('suite'))),
                                  'VERIF_REPO=<worktree> bin/check %s --tier quick' % ','.join([pid] + also)]
            try: meta['needs'] = open(os.path.join(src, 'notes.md')).read()[:1500]
            except Exception: pass
            json.dump(meta, open(os.path.join(d, 'meta.json'), 'w'), indent=1)
        print('RESULT %s valid=%s detected=%s' % (name, valid, meta['detected']))
    finally:
        sh('git -C /repo worktree remove --force %s' % wt)
        sh('rm -rf /tmp/mutchk/ev_%s /tmp/mutchk/rp_%s' % (name, name))
    return 0


if __name__ == '__main__':
    sys.exit(main())
