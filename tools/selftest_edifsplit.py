"""Deliberately broken variants of EdifParser.separate_name_and_index (scratch copies under a temporary directory, removed afterwards):
each must fail a named obligation of specs/edifsplit.py; the last one is an equivalent rewrite and must stay discharged.
usage: python3-vt -B tools/selftest_edifsplit.py"""
import os, sys, shutil, tempfile
sys.path.insert(0, os.path.dirname(os.path.dirname(os.path.abspath(__file__))))
sys.setrecursionlimit(20000)
from specs import edifsplit

REPO = os.environ.get('VERIF_REPO', '/repo')
SRC = open(os.path.join(REPO, edifsplit.FILE)).read()
LOOP0 = "for i in reversed(range(len(name))):\n                    if name[i] == split_character:\n                        break"
VARIANTS = [
    ('short-name-keeps-the-bracket', "                short_name = name[:i]\n        elif", "                short_name = name[:i + 1]\n        elif", 'name-is-the-text-before-the-separator'),
    ('stops-at-the-last-underscore', "if count == 2:", "if count == 1:", 'name-is-the-text-before-the-separator'),
    ('no-digit-test', "                and name_split[-1][:-1].isdigit()\n", "", 'does-not-raise'),
    ('escaped-name-test-inverted', 'name.split(" ")[1] != ""', 'name.split(" ")[1] == ""', 'index-is-the-numeral'),
    ('index-off-by-one', "index = int(name_split[-2])", "index = int(name_split[-2]) + 1", 'index-is-the-numeral'),
    ('one-underscore-is-enough', "len(name_split) > 2", "len(name_split) > 1", 'no-index'),
    ('no-closing-bracket-test', 'and name_split[-1][-1] == "]"\n', '', 'no-index'),
    ('EQUIVALENT-search-skips-the-closing-bracket', LOOP0, LOOP0.replace('range(len(name))', 'range(len(name) - 1)'), None),
]
ok = True
tmp = tempfile.mkdtemp(prefix='edifsplit_selftest_')
try:
    for tag, a, b, expect in VARIANTS:
        if SRC.count(a) < 1:
            print('SELFTEST %-45s SKIPPED (source text changed)' % tag); continue
        d = os.path.join(tmp, tag, os.path.dirname(edifsplit.FILE)); os.makedirs(d)
        open(os.path.join(tmp, tag, edifsplit.FILE), 'w').write(SRC.replace(a, b, 1))
        res, _, deg = edifsplit.run(os.path.join(tmp, tag))
        failing = [r[0] for r in res if r[1] == 'failed']
        if expect is None: good = not failing and not deg
        else: good = any(expect in f for f in failing)
        ok &= good
        print('SELFTEST %-45s %s (failing: %s%s)' % (tag, 'OK' if good else 'MISSED', [f.split('/', 2)[2] for f in failing][:3], ' degraded=%s' % deg if deg else ''))
finally:
    shutil.rmtree(tmp, ignore_errors=True)
print('SELFTEST', 'PASSED' if ok else 'FAILED')
sys.exit(0 if ok else 1)
