#!/bin/bash
# usage: tools/mutbatch.sh C02 C10 ...   -- validates m1/m2 of each property found under /tmp/mutwt/out, 3 at a time, with the test suite
mkdir -p /verif/findings/mut
for p in "$@"; do for m in m1 m2; do
  d=/tmp/mutwt/out/$p/$m
  [ -f $d/patch.diff ] || continue
  [ -f /verif/findings/mut/$p-$m.log ] && continue
  echo "$p $d $p-$m"
done; done | xargs -P 3 -L 1 bash -c 'python3 /verif/tools/mutcheck.py $0 $1 $2 --suite > /verif/findings/mut/$2.log 2>&1; tail -1 /verif/findings/mut/$2.log'
