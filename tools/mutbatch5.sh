#!/bin/bash
# usage: tools/mutbatch3.sh C02 C10 ...   -- copies the round-5 changes from /tmp/mutwt/out5 to findings/mut5src and validates them, 3 at a time
mkdir -p /verif/findings/mut /verif/findings/mut5src
for p in "$@"; do for m in m1 m2; do
  s=/tmp/mutwt/out5/$p/$m; d=/verif/findings/mut5src/$p/$m
  if [ -f $s/patch.diff ]; then mkdir -p $d; cp $s/patch.diff $s/demo.py $s/notes.md $d/ 2>/dev/null; fi
  [ -f $d/patch.diff ] || continue
  [ -f /verif/findings/mut/$p-r5$m.log ] && continue
  echo "$p $d $p-r5$m"
done; done | xargs -P ${MUT_PAR:-3} -L 1 bash -c 'python3 /verif/tools/mutcheck.py $0 $1 $2 --suite > /verif/findings/mut/$2.log 2>&1; tail -1 /verif/findings/mut/$2.log'
