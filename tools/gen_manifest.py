"""Regenerates /verif/MANIFEST.json from the table below (single source of truth for the interface)."""
import json, os
HERE = os.path.dirname(os.path.dirname(os.path.abspath(__file__)))
ALL = ['C%02d' % i for i in range(1, 21)]
# pid -> (category, text, note, technique, design_ref)
CLAIMS = {}
NA = {}
exec(open(os.path.join(HERE, 'tools', 'claims.py')).read())
checks = []
for pid in ALL:
    if pid in CLAIMS:
        cat, text, note, tech, ref = CLAIMS[pid]
        checks.append({
            'property_id': pid,
            'quick_cmd': 'bin/check %s --tier quick' % pid,
            'thorough_cmd': 'bin/check %s --tier thorough' % pid,
            'evidence_file': 'evidence/%s.json' % pid,
            'replay_cmd_template': 'bin/check %s --replay {path}' % pid,
            'engine': 'pyvc',
            'level_claimed': {'category': cat, 'text': text, 'design_ref': ref},
            'level_note': note,
            'technique': tech,
        })
m = {
    'version': 1,
    'setup_cmd': 'bin/setup',
    'hooks': {'guard': 'SPYDRNET_VERIF', 'enable': 'none needed: the verifier reads /repo source text; bounded checks wrap functions from outside',
              'baseline_off_cmd': 'cd /repo && /venv/bin/python -m pytest -ra -q -p no:cacheprovider --timeout=900 --continue-on-collection-errors',
              'source_commits': [], 'add_only': True},
    'engines': [{'name': 'pyvc', 'path': 'pyvc/', 'serves_properties': sorted(CLAIMS),
                 'kind_free_text': 'home-made deductive verifier: symbolic execution of the real Python AST of /repo, sidecar contracts in specs/, VCs discharged by z3 (cvc5 fallback); syntactic closed-world rules; bounded native stand-in labelled as such'}],
    'checks': checks,
    'not_applicable': [{'property_id': p, 'reason': NA[p]} for p in ALL if p not in CLAIMS],
    'notes': 'See DESIGN.md. Fix commits in /repo are recorded in known_findings.json (status fixed).',
}
json.dump(m, open(os.path.join(HERE, 'MANIFEST.json'), 'w'), indent=1)
print('claimed', len(checks), 'not_applicable', len(m['not_applicable']))
