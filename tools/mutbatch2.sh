#!/bin/bash
# usage: tools/mutbatch2.sh C02 C10 ...   -- validates the round-2 changes kept under findings/mut2src, 3 at a time, with the test suite
mkdir -p /verif/findings/mut
for p in "$@"; do for m in m1 m2; do
  d=/verif/findings/mut2src/$p/$m
  [ -f $d/patch.diff ] || continue
  [ -f /verif/findings/mut/$p-r2$m.log ] && continue
  echo "$p $d $p-r2$m"
done; done | xargs -P 3 -L 1 bash -c 'python3 /verif/tools/mutcheck.py $0 $1 $2 --suite > /verif/findings/mut/$2.log 2>&1; tail -1 /verif/findings/mut/$2.log'
