#!/bin/bash
# re-runs the property check against every kept seeded change (3 at a time) from the files kept under seeded/<id>/ and rewrites
# seeded/<id>/meta.json with the current result (first_run_checks is preserved)
cd /verif
mkdir -p findings/mut
for d in seeded/*/; do n=$(basename $d); p=${n%%-*}; echo "$p /verif/seeded/$n $n"; done | xargs -P ${MUT_PAR:-3} -L 1 bash -c 'python3 /verif/tools/mutcheck.py $0 $1 $2 > /verif/findings/mut/final-$2.log 2>&1; tail -1 /verif/findings/mut/final-$2.log'
