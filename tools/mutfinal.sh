#!/bin/bash
# re-runs the property check against every kept seeded change (3 at a time) and rewrites seeded/<id>/meta.json with the current result
cd /verif
for d in seeded/*/; do n=$(basename $d); p=${n%%-*}; m=${n##*-}; echo "$p /tmp/mutwt/out/$p/$m $n"; done | xargs -P 3 -L 1 bash -c 'python3 /verif/tools/mutcheck.py $0 $1 $2 > /verif/findings/mut/final-$2.log 2>&1; tail -1 /verif/findings/mut/final-$2.log'
