"""Engine self-test (DESIGN.md 3.9): deliberately broken method bodies are applied, one at a time, to a scratch copy of
/repo/spydrnet (under $TMPDIR, removed afterwards); each must make a named obligation fail ('must fire'), each benign edit must
leave every obligation discharged ('must stay quiet').  Exit 0 iff all behave as expected.
usage: python3-vt tools/selftest.py [substring-filter]"""
import os, shutil, sys, tempfile, json, time
HERE = os.path.dirname(os.path.dirname(os.path.abspath(__file__)))
sys.path.insert(0, HERE)
REPO = os.environ.get('VERIF_REPO', '/repo')

# (id, file, old, new, functions to verify [(cls,name,kind)], expected failing obligation substring or None for benign)
M = [
 ('cable-remove-keeps-parent', 'spydrnet/ir/cable.py', "        global_callback._call_cable_remove_wire(self, wire)\n        wire._cable = None",
  "        global_callback._call_cable_remove_wire(self, wire)", [('Cable', 'remove_wire', 'method'), ('Cable', 'remove_wires_from', 'method')], 'C01/Cable.remove_wire/exit=normal/I1._wires'),
 ('add-wire-no-owner-check', 'spydrnet/ir/cable.py', '        assert wire.cable is None, "Wire already belongs to a different cable"\n', '',
  [('Cable', 'add_wire', 'method')], 'C01/Cable.add_wire/exit=normal/I1._wires'),
 ('wires-setter-no-dup-check', 'spydrnet/ir/cable.py', "len(value_list) == len(value_set) and set(self._wires) == value_set", "set(self._wires) == value_set",
  [('Cable', 'wires', 'setter')], 'C01/Cable.wires=/exit=normal/I1._wires'),
 ('add-wire-callback-after-write', 'spydrnet/ir/cable.py',
  "        global_callback._call_cable_add_wire(self, wire)\n        if position is not None:\n            self._wires.insert(position, wire)\n        else:\n            self._wires.append(wire)\n",
  "        if position is not None:\n            self._wires.insert(position, wire)\n        else:\n            self._wires.append(wire)\n        global_callback._call_cable_add_wire(self, wire)\n",
  [('Cable', 'add_wire', 'method')], 'C19/Cable.add_wire/cover-before-write'),
 ('benign-guard-in-loop', 'spydrnet/ir/cable.py', "        for wire in excluded_wires:\n            self._remove_wire(wire)\n",
  "        for wire in excluded_wires:\n            if wire is not None: self._remove_wire(wire)\n", [('Cable', 'remove_wires_from', 'method')], None),
 ('disconnect-forgets-stored-pin', 'spydrnet/ir/wire.py', "            self._disconnect_pin(pin)\n            pin = outer_pin\n", "            self._disconnect_pin(pin)\n",
  [('Wire', 'disconnect_pin', 'method')], 'Wire.disconnect_pin'),
 ('wire-pins-setter-accepts-lookalikes', 'spydrnet/ir/wire.py',
  "        assert all(\n            id(x) in current_ids for x in value_list\n        ), \"Assignment can only be used to reorder the pins already connected to the wire\"\n", "",
  [('Wire', 'pins', 'setter')], 'C01/Wire.pins=/exit=normal/I2'),
 ('connect-announces-before-checks', 'spydrnet/ir/wire.py',
  "        else:\n            assert pin.wire is None, \"Pin already connected to a different wire\"\n            global_callback._call_wire_connect_pin(self, pin)\n",
  "        else:\n            global_callback._call_wire_connect_pin(self, pin)\n            assert pin.wire is None, \"Pin already connected to a different wire\"\n",
  [('Wire', 'connect_pin', 'method')], 'C19/Wire.connect_pin/exit=AssertionError/in-vain.wire'),
 ('add-port-no-outer-pins', 'spydrnet/ir/definition.py',
  "        port._definition = self\n        for reference in self.references:\n            for pin in port.pins:\n                reference._pins[pin] = OuterPin(reference, pin)\n",
  "        port._definition = self\n", [('Definition', 'add_port', 'method')], 'C02/Definition.add_port/exit=normal/I3.keys'),
 ('add-pin-no-outer-pins', 'spydrnet/ir/port.py',
  "        pin._port = self\n        if self.definition:\n            for reference in self.definition.references:\n                reference._pins[pin] = OuterPin(reference, pin)\n",
  "        pin._port = self\n", [('Port', 'add_pin', 'method')], 'C02/Port.add_pin/exit=normal/I3.keys'),
 ('remove-pin-skips-disconnect', 'spydrnet/ir/port.py', "                if wire:\n                    wire.disconnect_pin(outer_pin)\n                del reference._pins[pin]",
  "                del reference._pins[pin]", [('Port', 'remove_pin', 'method')], 'Port.remove_pin'),
 ('reference-forgets-refset-remove', 'spydrnet/ir/instance.py', "            if self._reference is not None:\n                self._reference._references.remove(self)\n",
  "            if self._reference is not None:\n", [('Instance', 'reference', 'setter')], 'C02/Instance.reference=/exit=normal/I3.refsets'),
 ('repoint-forgets-inner-pin', 'spydrnet/ir/instance.py', "                        outer_pin._inner_pin = new_pin\n", "",
  [('Instance', 'reference', 'setter')], 'Instance.reference='),
 ('repoint-rebuilds-fresh-pins', 'spydrnet/ir/instance.py',
  "                        outer_pin = self._pins.pop(cur_pin)\n                        outer_pin._inner_pin = new_pin\n                        self._pins[new_pin] = outer_pin\n",
  "                        self._pins.pop(cur_pin)\n                        self._pins[new_pin] = OuterPin(self, new_pin)\n",
  [('Instance', 'reference', 'setter')], 'DEGRADED'),      # the loop now allocates: outside the frame its invariant declares -> leaves the subset (the history harness has the postcondition)
 ('create-child-no-rollback', 'spydrnet/ir/definition.py',
  "        try:\n            self.add_child(instance)\n        except Exception:\n            instance.reference = None\n            raise\n", "        self.add_child(instance)\n",
  [('Definition', 'create_child', 'method')], 'C14/Definition.create_child/exit=ValueError@hook/frame._references'),
 ('add-port-writes-before-callback', 'spydrnet/ir/definition.py',
  "        global_callback._call_definition_add_port(self, port)\n        if position is not None:\n            self._ports.insert(position, port)\n        else:\n            self._ports.append(port)\n        port._definition = self\n",
  "        port._definition = self\n        global_callback._call_definition_add_port(self, port)\n        if position is not None:\n            self._ports.insert(position, port)\n        else:\n            self._ports.append(port)\n",
  [('Definition', 'add_port', 'method')], 'Definition.add_port'),
 ('remove-child-callback-dropped', 'spydrnet/ir/definition.py', "        global_callback._call_definition_remove_child(self, child)\n        child._parent = None",
  "        child._parent = None", [('Definition', 'remove_child', 'method'), ('Definition', 'remove_children_from', 'method')], 'C19/Definition.remove_child/cover-before-write'),
 ('add-wire-swapped-callback-args', 'spydrnet/ir/cable.py', "global_callback._call_cable_add_wire(self, wire)", "global_callback._call_cable_add_wire(wire, self)",
  [('Cable', 'add_wire', 'method')], 'C19/Cable.add_wire'),
 ('remove-children-filter-only', 'spydrnet/ir/definition.py', "            else:\n                self._remove_child(child)\n        self._children = included_children",
  "            else:\n                pass\n        self._children = included_children", [('Definition', 'remove_children_from', 'method')], 'Definition.remove_children_from'),
 ('benign-append-as-insert', 'spydrnet/ir/cable.py', "            self._wires.append(wire)\n        wire._cable = self", "            self._wires.insert(len(self._wires), wire)\n        wire._cable = self",
  [('Cable', 'add_wire', 'method')], None),
 ('benign-local-rename', 'spydrnet/ir/definition.py', "excluded_ports", "ports_to_drop", [('Definition', 'remove_ports_from', 'method')], None),
]

# the other suites: (id, file, old, new, [(cls, name, kind)], expected failing obligation substring | 'DEGRADED' | None, suite)
M2 = [
 ('ns-remove-forgets-identifier', 'spydrnet/plugins/namespace_manager/__init__.py', '            if key is None:\n                for key in ["EDIF.identifier", ".NAME"]:',
  '            if key is None:\n                for key in [".NAME"]:', [('NamespaceManager', 'remove', 'method')], 'C10/NamespaceManager.remove/exit=normal/identifier-table', 'ns'),
 ('ns-set-skips-legality', 'spydrnet/plugins/namespace_manager/__init__.py', 'if target_policy.is_name_valid(key, value) is False:', 'if target_policy.is_name_valid(key, value) is None:',
  [('NamespaceManager', 'dictionary_set', 'method')], 'accepted-only-without-conflict-and-legal', 'ns'),
 ('ns-update-forgets-lower', 'spydrnet/plugins/namespace_manager/edif_namespace.py', '                old_name = element["EDIF.identifier"].lower()\n                if old_name in namespace:\n                    del namespace[old_name]\n            namespace[value.lower()] = element',
  '                old_name = element["EDIF.identifier"]\n                if old_name in namespace:\n                    del namespace[old_name]\n            namespace[value.lower()] = element',
  [('EdifNamespace', 'update', 'method')], 'C10/EdifNamespace.update/exit=normal/identifier-table', 'ns'),
 ('irns-delitem-not-announced', 'spydrnet/ir/first_class_element.py', '        global_callback._call_dictionary_delete(self, key)\n', '',
  [('Definition', '__delitem__', 'method')], 'Inv_NS.entries-are-children', 'irns'),
 ('irns-remove-port-not-announced', 'spydrnet/ir/definition.py', '        global_callback._call_definition_remove_port(self, port)\n', '',
  [('Definition', 'remove_port', 'method')], 'Inv_NS.entries-are-children', 'irns'),
 ('clone-port-adopts-wrong-owner', 'spydrnet/ir/port.py', '        for p in c._pins:\n            p._port = c\n', '        for p in c._pins:\n            p._port = self\n',
  [('Port', 'clone', 'method')], 'Port._clone.loop1/preserve/adopted', 'clone'),
 ('clone-wire-keeps-pins', 'spydrnet/ir/wire.py', '        This will remove all pin pointers and create a floating stand alone instance."""\n        self._pins = []',
  '        This will remove all pin pointers and create a floating stand alone instance."""\n        pass', [('Wire', 'clone', 'method')], 'C07/Wire.clone/exit=normal/clone-stands-alone', 'clone'),
 ('clone-instance-skips-refset', 'spydrnet/ir/instance.py', '        if self._reference is not None:\n            self._reference._references.add(self)', '        pass',
  [('Instance', 'clone', 'method')], 'C07/Instance.clone/exit=normal/Inv.I3.refsets', 'clone'),
 ('href-valid-ignores-cable', 'spydrnet/util/hierarchical_reference.py', '                if hparent.item != cable:\n                    return False\n', '',
  [('HRef', 'is_valid', 'getter')], 'HRef.is_valid.loop0/preserve/walk', 'href'),
 ('edifnames-case-sensitive-scan', 'spydrnet/composers/edif/edifify_names.py', 'element.name.lower() == identifier', 'element.name == identifier',
  [('EdififyNames', '_conflicts_good', 'method')], 'true-iff-no-sibling-carries-the-identifier-ignoring-case', 'edifnames'),
 ('vcomposer-counter-skips', 'spydrnet/composers/verilog/composer.py', '                return index + wire.cable.lower_index\n            index += 1', '                return index + wire.cable.lower_index\n            index += 2',
  [('Composer', '_index_of_wire_in_cable', 'method')], 'preserve/counter-is-position', 'vcomposer'),
 ('ecomposer-subtracts-base', 'spydrnet/composers/edif/composer.py', '        return val + cable.lower_index', '        return val - cable.lower_index',
  [('ComposeEdif', '_get_wire_index_', 'method')], 'returns-position-plus-lower-index', 'ecomposer'),
 ('vparser-lower-index-is-max', 'spydrnet/parsers/verilog/parser.py', '            cable.lower_index = min(left_index, right_index)', '            cable.lower_index = max(left_index, right_index)',
  [('VerilogParser', 'populate_new_cable', 'method')], 'lower-index-is-the-smaller-bound', 'vparser'),
 ('compare-direction-tolerant', 'spydrnet/compare/compare_netlists.py', '        assert port_orig.direction == port_composer.direction, (', '        assert port_orig.direction == port_composer.direction or True, (',
  [('Comparer', 'compare_ports', 'method')], 'directions-equal', 'compare'),
 ('href-eq-ignores-length', 'spydrnet/util/hierarchical_reference.py', '        if this is None and that is None:\n            return True\n        return False', '        return True',
  [('HRef', '__eq__', 'method')], 'equal-iff-a-reference-to-the-same-path', 'href'),
 ('hwires-outer-wrong-level', 'spydrnet/util/get_hwires.py', '                hcable = HRef.from_parent_and_item(hinst.parent, cable)', '                hcable = HRef.from_parent_and_item(hinst, cable)',
  [('get_hwires', '_get_outer_hwire_from_hpin', 'static')], 'the-wire-attached-outside-the-pin', 'hwires'),
 ('uniq-two-references-count-as-unique', 'spydrnet/uniquify.py', 'len(instance.reference.references) == 1 or', 'len(instance.reference.references) <= 2 or',
  [('uniquify', '_is_unique', 'static')], 'true-iff-instantiated-once-or-leaf', 'uniq'),
 ('flat-leaf-test-ignores-cables', 'spydrnet/ir/definition.py', 'if len(self._children) > 0 or len(self._cables) > 0:', 'if len(self._children) > 0:',
  [('Definition', 'is_leaf', 'method')], 'true-iff-no-children-and-no-cables', 'flat'),
 ('uniq-public-twin-two-references', 'spydrnet/ir/instance.py', 'if len(self.reference.references) == 1 or self.reference.is_leaf():', 'if len(self.reference.references) <= 2 or self.reference.is_leaf():',
  [('Instance', 'is_unique', 'method')], 'true-iff-instantiated-once-or-leaf', 'uniq'),
 ('flat-public-twin-and-for-or', 'spydrnet/ir/instance.py', 'elif len(self._reference._children) > 0 or len(self._reference._cables) > 0:', 'elif len(self._reference._children) > 0 and len(self._reference._cables) > 0:',
  [('Instance', 'is_leaf', 'method')], 'true-iff-has-a-definition-without-children-and-cables', 'flat'),
 ('ecomposer-scalar-threshold', 'spydrnet/ir/bundle.py', '        if _items and len(_items) > 1:\n            return False', '        if _items and len(_items) > 2:\n            return False',
  [('Port', 'is_scalar', 'getter')], 'scalar-iff-one-bit-at-most-and-flag-says-so', 'ecomposer'),
 ('loop-guard-undeclared-store', 'spydrnet/ir/cable.py', '        for _ in range(wire_count):\n            self.create_wire()', '        for _ in range(wire_count):\n            self.create_wire()\n            self._is_scalar = False',
  [('Cable', 'create_wires', 'method')], 'DEGRADED', 'ir'),
 ('benign-ns-local-rename', 'spydrnet/plugins/namespace_manager/__init__.py', 'parent_namespace', 'policy_of_parent', [('NamespaceManager', 'add', 'method')], None, 'ns'),
 ('benign-clone-extra-local', 'spydrnet/ir/cable.py', '        c = CableExtended()\n        memo[self] = c\n', '        c = CableExtended()\n        fresh = c\n        memo[self] = fresh\n', [('Cable', 'clone', 'method')], None, 'clone'),
]


def main():
    from pyvc import verify
    flt = sys.argv[1] if len(sys.argv) > 1 else ''
    tmp = tempfile.mkdtemp(prefix='pyvc-selftest-')
    ok = True
    try:
        shutil.copytree(os.path.join(REPO, 'spydrnet'), os.path.join(tmp, 'spydrnet'))
        if os.path.isdir(os.path.join(REPO, 'spydrnet_extension')):
            shutil.copytree(os.path.join(REPO, 'spydrnet_extension'), os.path.join(tmp, 'spydrnet_extension'))
        import importlib
        for entry in list(M) + list(M2):
            mid, f, old, new, fns, expect = entry[:6]
            suite = entry[6] if len(entry) > 6 else 'ir'
            FUNCTIONS = importlib.import_module(verify.SUITES[suite]['functions']).FUNCTIONS
            if flt and flt not in mid: continue
            path = os.path.join(tmp, f)
            src = open(path).read()
            if old not in src:
                print('SELFTEST %-38s SKIPPED (source text not found: the repository changed)' % mid); ok = False; continue
            open(path, 'w').write(src.replace(old, new))
            try:
                sel = [x for x in FUNCTIONS if (x[0], x[1], x[2]) in fns]
                t0 = time.time()
                res = verify.run_all(tmp, sel, opts={'suite': suite}, per_function_timeout=900)
                bad = [o['name'] for r in res for o in r['results'] if o['status'] != 'discharged']
                deg = [r['function'] for r in res if r.get('degraded') or r.get('error')]
                if expect is None:
                    good = not bad and not deg
                    print('SELFTEST %-38s %s (benign edit: %d undischarged, degraded=%s) %.0fs' % (mid, 'OK' if good else 'FALSE-ALARM', len(bad), deg, time.time() - t0))
                    if not good: print('      ', bad[:4])
                elif expect == 'DEGRADED':
                    good = bool(deg) and not bad
                    print('SELFTEST %-38s %s (expected the function to leave the subset; degraded=%s, undischarged=%d) %.0fs' % (mid, 'OK' if good else 'MISSED', deg, len(bad), time.time() - t0))
                else:
                    good = any(expect in b for b in bad)
                if expect not in (None, 'DEGRADED'):
                    print('SELFTEST %-38s %s (expected %s; failing: %s%s) %.0fs' % (mid, 'OK' if good else 'MISSED', expect, bad[:3], ' degraded=%s' % deg if deg else '', time.time() - t0))
                ok = ok and good
            finally:
                open(path, 'w').write(src)
    finally:
        shutil.rmtree(tmp, ignore_errors=True)
    print('SELFTEST', 'PASSED' if ok else 'FAILED')
    return 0 if ok else 1


if __name__ == '__main__':
    sys.exit(main())
