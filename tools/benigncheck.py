"""False-alarm test: applies a behaviour-preserving refactoring to a scratch worktree of /repo and runs the checks against it; every check
must stay quiet (exit 0; DEGRADED lines are allowed: leaving the verifier's subset is not an alarm).
usage: python3 tools/benigncheck.py <PID> <dir with patch.diff/notes.md> <name>
Writes benign/<name>/{patch.diff,notes.md,meta.json}."""
import json, os, shutil, subprocess, sys, time
VERIF = os.path.dirname(os.path.dirname(os.path.abspath(__file__)))
IR_FAMILY = ['C01', 'C02', 'C14', 'C19', 'C10', 'C07']


def sh(cmd, cwd=None, env=None, timeout=3000):
    p = subprocess.run(cmd, shell=True, cwd=cwd, env=env, capture_output=True, text=True, timeout=timeout)
    return p.returncode, (p.stdout + p.stderr)


def main():
    pid, src, name = sys.argv[1:4]
    wt = '/tmp/mutchk/%s' % name
    os.makedirs('/tmp/mutchk', exist_ok=True)
    sh('git -C /repo worktree remove --force %s' % wt)
    sh('git -C /repo worktree add -q --detach %s HEAD' % wt)
    meta = {'id': name, 'property': pid, 'repo_head': sh('git -C /repo rev-parse --short HEAD')[1].strip()}
    try:
        rc, out = sh('git apply %s/patch.diff' % src, cwd=wt)
        if rc != 0:
            print('PATCH DOES NOT APPLY', out[:300]); return 1
        files = sh('git diff --name-only', cwd=wt)[1].split()
        meta['files'] = files
        rc, out = sh('python3 %s/tools/baseline_check.py %s' % (VERIF, wt), timeout=3000)
        meta['suite'] = out.strip().split('\n')[0]; meta['suite_ok'] = rc == 0
        print('suite:', meta['suite'])
        checks = [pid]
        if any(f.startswith('spydrnet/ir/') for f in files): checks += [c for c in IR_FAMILY if c != pid]
        if any('namespace_manager' in f for f in files): checks += [c for c in ('C10', 'C13', 'C14') if c not in checks]
        if any(f.startswith('spydrnet/util/') for f in files): checks += [c for c in ('C11', 'C12', 'C13') if c not in checks]
        results = {}
        for p in checks:
            env = dict(os.environ); env['VERIF_REPO'] = wt; env['VERIF_EVIDENCE_DIR'] = '/tmp/mutchk/ev_%s' % name; env['VERIF_REPLAY_DIR'] = '/tmp/mutchk/rp_%s' % name
            t0 = time.time()
            rc, out = sh('bin/check %s --tier quick' % p, cwd=VERIF, env=env, timeout=3000)
            viol = [l for l in out.split('\n') if l.startswith('VIOLATION')]
            what = [l.strip() for l in out.split('\n') if l.strip().startswith('what:')]
            deg = [l.strip()[:200] for l in out.split('\n') if l.startswith('DEGRADED')]
            results[p] = {'exit': rc, 'violations': len(viol), 'first': (what[0][:400] if what else ''), 'degraded': deg[:4], 'wall_s': round(time.time() - t0, 1)}
            print('check %s: exit=%s violations=%d degraded=%d wall=%.0fs %s' % (p, rc, len(viol), len(deg), time.time() - t0, what[0][:200] if what else ''))
        meta['checks'] = results
        meta['quiet'] = all(r['exit'] == 0 and r['violations'] == 0 for r in results.values())
        d = os.path.join(VERIF, 'benign', name)
        os.makedirs(d, exist_ok=True)
        for f in ('patch.diff', 'notes.md'):
            if os.path.exists(os.path.join(src, f)) and os.path.abspath(src) != os.path.abspath(d): shutil.copy(os.path.join(src, f), os.path.join(d, f))
        json.dump(meta, open(os.path.join(d, 'meta.json'), 'w'), indent=1)
        print('RESULT %s suite_ok=%s quiet=%s' % (name, meta['suite_ok'], meta['quiet']))
    finally:
        sh('git -C /repo worktree remove --force %s' % wt)
        sh('rm -rf /tmp/mutchk/ev_%s /tmp/mutchk/rp_%s' % (name, name))


if __name__ == '__main__':
    sys.exit(main() or 0)
