#!/bin/bash
# usage: tools/benignbatch.sh C01 ... : copies the refactorings from /tmp/mutwt/outb to findings/benignsrc and runs the checks against them, 2 at a time
mkdir -p /verif/findings/mut /verif/findings/benignsrc
for p in "$@"; do for m in b1 b2; do
  s=/tmp/mutwt/outb/$p/$m; d=/verif/findings/benignsrc/$p/$m
  if [ -f $s/patch.diff ]; then mkdir -p $d; cp $s/patch.diff $s/notes.md $d/ 2>/dev/null; fi
  [ -f $d/patch.diff ] || continue
  [ -f /verif/findings/mut/$p-$m.log ] && continue
  echo "$p $d $p-$m"
done; done | xargs -P ${MUT_PAR:-2} -L 1 bash -c 'python3 /verif/tools/benigncheck.py $0 $1 $2 > /verif/findings/mut/$2.log 2>&1; tail -1 /verif/findings/mut/$2.log'
