"""Runs the repository's pinned test command on REPO (default /repo) and compares with /root/.vp/BASELINE.json stable_pass."""
import json, os, subprocess, sys, tempfile, xml.etree.ElementTree as ET
repo = sys.argv[1] if len(sys.argv) > 1 else '/repo'
base = json.load(open('/root/.vp/BASELINE.json'))
fd, x = tempfile.mkstemp(suffix='.xml'); os.close(fd)
cmd = [ '/venv/bin/python', '-m', 'pytest', '-ra', '-q', '-p', 'no:cacheprovider', '--timeout=900', '--continue-on-collection-errors', '--junitxml=' + x]
p = subprocess.run(cmd, cwd=repo, capture_output=True, text=True)
passed = set()
for tc in ET.parse(x).getroot().iter('testcase'):
    if not any(ch.tag in ('failure', 'error', 'skipped') for ch in tc):
        passed.add(tc.get('classname') + '::' + tc.get('name'))
os.unlink(x)
missing = [t for t in base['stable_pass'] if t not in passed]
print('stable_pass=%d passed_now=%d missing=%d' % (len(base['stable_pass']), len(passed), len(missing)))
for m in missing[:20]: print('  MISSING', m)
sys.exit(1 if missing else 0)
