#!/bin/bash
# runs every check once (tier from $1, default quick) against /repo and prints one line per property
cd /verif
tier=${1:-quick}
for i in $(seq -w 1 20); do
  p=C$i
  s=$(date +%s)
  out=$(bin/check $p --tier $tier 2>&1); rc=$?
  e=$(date +%s)
  echo "$p rc=$rc $((e-s))s $(echo "$out" | grep -c '^VIOLATION') violations; $(echo "$out" | grep -c '^KNOWN-FINDING') known; $(echo "$out" | grep '^SUMMARY' | cut -c1-160)"
  echo "$out" | grep -E '^(DEGRADED|UNDECIDED|CHECKER-ERROR)' | head -5
done
