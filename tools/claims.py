_IRB = ('exploration', 'bounded stand-in: random API histories with Inv/frame/mirror evaluated natively (proof tier being wired)',
        'everything outside the stated bounds is unexplored', 'bounded native contract check on real entry points', 'DESIGN.md 4, 6')
for _p in ('C01', 'C02', 'C14', 'C19'):
    CLAIMS[_p] = _IRB
for _p in ALL:
    if _p not in CLAIMS:
        NA[_p] = 'check not built yet in this session (design in DESIGN.md section 6); not claimed until its machinery is committed'
