_IRNOTE = ('assumes: stock NamespaceManager as the only state-changing listener (hook contracts stated in specs/ir.py), single thread, '
           'asserts enabled, mathematical integers, documented argument types for position/count/data keys/OuterPin(instance, inner_pin); '
           'trusted: pyvc VC generator + z3/cvc5; termination not proved; Instance.reference re-pointing loop pair is bounded-only until its '
           'positional invariant lands (reported DEGRADED)')
_IRTECH = 'contract-based deductive verification: VCs generated from the real AST of spydrnet/ir by symbolic execution (pyvc), discharged by z3/cvc5; syntactic closed-world rules; bounded native stand-in labelled as such'
CLAIMS['C01'] = ('proof', 'Inv clauses I1/I2 (+typing) proved preserved by every public IR mutator on every exit, for all heaps and arguments; '
                 'closed world by AST rules; history quantifier by induction over calls', _IRNOTE, _IRTECH, 'DESIGN.md 5.1, 6/C01')
CLAIMS['C02'] = ('proof', 'Inv clauses I3/I4 (reference sets, outer-pin mirror) proved preserved by every public IR mutator on every exit', _IRNOTE, _IRTECH, 'DESIGN.md 5.1, 6/C02')
CLAIMS['C14'] = ('proof', 'frame obligation heap\' = heap (order, reference sets, data, name-table state, policy) proved at every exceptional exit of every public IR mutator and compound constructor under the stock listener', _IRNOTE, _IRTECH, 'DESIGN.md 6/C14')
CLAIMS['C19'] = ('proof', 'ghost announcement state: every store to a mirrored field is covered by an earlier announcement; no announcement in vain at non-veto exits; dispatcher wiring by AST rules', _IRNOTE, _IRTECH, 'DESIGN.md 6/C19')
_B = 'bounded stand-in: contracts stated on the real entry points, evaluated natively against independent oracles over a seeded, bounded input space (never counted as proved)'
_BN = 'everything outside the bounds recorded in evidence (coverage.bounded.bounds) is unexplored; oracles are independent re-implementations written from the property text'
_BT = 'bounded native contract check of real entry points against independent oracles (stand-in for contracts out of the verifier\'s reach)'
for _p, _ref in [('C03', '6/C03'), ('C04', '6/C04'), ('C05', '6/C05'), ('C06', '6/C06'), ('C07', '6/C07'), ('C08', '6/C08'), ('C09', '6/C09'), ('C10', '6/C10'),
                 ('C11', '6/C11'), ('C12', '6/C12'), ('C13', '6/C13'), ('C15', '6/C15'), ('C16', '6/C16'), ('C17', '6/C17'), ('C18', '6/C18'), ('C20', '6/C20')]:
    CLAIMS[_p] = ('exploration', _B, _BN, _BT, 'DESIGN.md 4, ' + _ref)
