_IRNOTE = ('assumes: stock NamespaceManager as the only state-changing listener (hook contracts stated in specs/ir.py), single thread, '
           'asserts enabled, mathematical integers, documented argument types for position/count/data keys/OuterPin(instance, inner_pin); '
           'trusted: pyvc VC generator + z3/cvc5; termination not proved; Instance.reference re-pointing loop pair is bounded-only until its '
           'positional invariant lands (reported DEGRADED)')
_IRTECH = 'contract-based deductive verification: VCs generated from the real AST of spydrnet/ir by symbolic execution (pyvc), discharged by z3/cvc5; syntactic closed-world rules; bounded native stand-in labelled as such'
CLAIMS['C01'] = ('proof', 'Inv clauses I1/I2 (+typing) proved preserved by every public IR mutator on every exit, for all heaps and arguments; '
                 'closed world by AST rules; history quantifier by induction over calls', _IRNOTE, _IRTECH, 'DESIGN.md 5.1, 6/C01')
CLAIMS['C02'] = ('proof', 'Inv clauses I3/I4 (reference sets, outer-pin mirror) proved preserved by every public IR mutator on every exit', _IRNOTE, _IRTECH, 'DESIGN.md 5.1, 6/C02')
CLAIMS['C14'] = ('proof', 'frame obligation heap\' = heap (order, reference sets, data, name-table state, policy) proved at every exceptional exit of every public IR mutator and compound constructor under the stock listener', _IRNOTE, _IRTECH, 'DESIGN.md 6/C14')
CLAIMS['C19'] = ('proof', 'ghost announcement state: every store to a mirrored field is covered by an earlier announcement; no announcement in vain at non-veto exits; dispatcher wiring by AST rules', _IRNOTE, _IRTECH, 'DESIGN.md 6/C19')
_B = 'bounded stand-in: contracts stated on the real entry points, evaluated natively against independent oracles over a seeded, bounded input space (never counted as proved)'
_BN = 'everything outside the bounds recorded in evidence (coverage.bounded.bounds) is unexplored; oracles are independent re-implementations written from the property text'
_BT = 'bounded native contract check of real entry points against independent oracles (stand-in for contracts out of the verifier\'s reach)'
for _p, _ref in [('C03', '6/C03'), ('C04', '6/C04'), ('C05', '6/C05'), ('C06', '6/C06'), ('C07', '6/C07'), ('C08', '6/C08'), ('C09', '6/C09'), ('C10', '6/C10'),
                 ('C11', '6/C11'), ('C12', '6/C12'), ('C13', '6/C13'), ('C15', '6/C15'), ('C16', '6/C16'), ('C17', '6/C17'), ('C18', '6/C18'), ('C20', '6/C20')]:
    CLAIMS[_p] = ('exploration', _B, _BN, _BT, 'DESIGN.md 4, ' + _ref)

# properties decided partly by discharged obligations on helper functions and partly by the bounded stand-in: level 'other'
_MIX = 'mixed: the obligations named in evidence (coverage.proof) are discharged for all inputs on the functions listed there; the end-to-end statement of the property is decided by the bounded stand-in only (never counted as proved)'
_MT = 'contract-based deductive verification of the helper functions the property rests on (VCs from the real AST, z3/cvc5), plus bounded native contract check of the entry points against independent oracles'
CLAIMS['C13'] = ('other', 'proved: _is_pattern_absolute (spydrnet/util/patterns.py) answers True exactly for patterns without wildcard/regex characters (string VCs over the real AST); '
                 'bounded: every get_* query family compared with a brute-force oracle over seeded netlists and patterns', _MIX + '; ' + _BN, _MT, 'DESIGN.md 0.1, 6/C13')
CLAIMS['C15'] = ('other', 'proved (abstract execution of the real AST where every statement may raise): EdifParser/VerilogParser/EBLIFParser.parse restore namespace_manager.default on every exit, and no other function stores it (closed-world rule); '
                 'bounded: termination, clean rejection and well-formed results on token-level corruptions of small files', _MIX + '; ' + _BN, _MT, 'DESIGN.md 0.1, 6/C15')
CLAIMS['C16'] = ('other', 'decided on the real AST (syntactic effect analysis, S obligations): every store, delete and mutating call in the five composer modules targets the composer, a container it created, or a documented EDIF effect; '
                 'bounded: compose twice, compare netlist snapshots and output bytes', _MIX + '; ' + _BN, _MT, 'DESIGN.md 0.1, 6/C16')
CLAIMS['C17'] = ('other', 'proved (string VCs over the real AST of composers/edif/edifify.py): _length_fix/_characters_good/_characters_fix/_conflicts_fix/make_valid return a legal EDIF identifier of bounded length for every printable-ASCII name, and _conflicts_good(obj, lower(result), objects) holds; _conflicts_good itself is proved (IR heap model) to be True exactly when no other element of `objects` carries that name or EDIF.identifier ignoring case; '
                 'bounded: composed EDIF files re-read and compared, rename table checked against the oracle', _MIX + '; ' + _BN, _MT, 'DESIGN.md 0.1, 6/C17')
CLAIMS['C20'] = ('other', 'proved: soundness of rejection for the six element-level Comparer functions (normal return implies the examined attributes are equal), for all heaps satisfying Inv; '
                 'bounded: clones accepted, single structural edits rejected, over seeded netlists', _MIX + '; ' + _BN, _MT, 'DESIGN.md 0.1, 6/C20')
CLAIMS['C10'] = ('other', 'proved (VCs from the real AST, heap-dictionary model): DefaultNamespace/EdifNamespace.no_conflict/update/remove/lookup against the abstract table view, and the NamespaceManager hooks '
                 'add/remove/dictionary_set/dictionary_delete/dictionary_pop/lookup through those contracts: an edit is refused exactly for a sibling owning the name / lower-cased identifier or an illegal EDIF identifier and then changes no table, '
                 'removal never refuses and drops exactly the element\'s entries, every other entry of every table is unchanged; history level: with the hooks replaced by the table effect derived from those contracts (refinement lemmas), every public IR mutator re-establishes "every table entry is a child carrying that name and every named child is an entry" at every normal and exceptional exit (one policy per history); '
                 'bounded: tables agree with a scan after every call of seeded histories under both policies (incl. clone, parse, policy switches)', _MIX + '; ' + _BN, _MT, 'DESIGN.md 0.1, 6/C10')
CLAIMS['C07'] = ('other', 'proved: Wire / InnerPin / OuterPin / Port / Cable / Instance .clone return a new, free-standing object of the same class with its own new pins / wires / outer pins, faithful scalar attributes, data and reference, never raise, leave every existing object field-for-field as it was (Instance.clone joins its definition\'s reference set, as documented) and preserve Inv, for all heaps satisfying Inv; '
                 'bounded: netlist / library / definition clones (and the element clones again) against canon equality, identity-disjointness, pointer closure, snapshots and edit independence over seeded designs', _MIX + '; ' + _BN, _MT, 'DESIGN.md 0.1, 6/C07')
CLAIMS['C11'] = ('other', 'proved: HRef.is_valid returns exactly whether the reference is a path of the current netlist (root = top instance of the netlist holding its definition, each further element inside the definition referenced by the instance before it), never raises, writes nothing, for all heaps satisfying Inv; '
                 'bounded: the five get_h* enumerations (single and mixed roots), canonicity, is_unique, validity after edit sequences, over seeded designs', _MIX + '; ' + _BN, _MT, 'DESIGN.md 0.1, 6/C11')
CLAIMS['C03'] = ('other', 'proved: ComposeEdif._get_wire_index_ (the bit index the EDIF writer emits for a wire of a net) == position in cable.wires + lower_index, for all heaps satisfying Inv; '
                 'bounded: canon(parse(compose(n))) == canon(n) over seeded designs, reader-produced netlists and bundled files', _MIX + '; ' + _BN, _MT, 'DESIGN.md 0.1, 6/C03')
CLAIMS['C04'] = ('other', 'proved: Composer._index_of_wire_in_cable (the bit index the Verilog writer emits for a wire) == position in its cable + lower_index, never None for a wire of a cable, for all heaps satisfying Inv; '
                 'bounded: canon(parse(compose(t(parse(f))))) == canon(t(parse(f))) for t in none/clone/uniquify/flatten over seeded designs and bundled files', _MIX + '; ' + _BN, _MT, 'DESIGN.md 0.1, 6/C04')
CLAIMS['C06'] = ('other', 'proved: VerilogParser.populate_new_cable / populate_new_port turn a declaration [l:r] into exactly |l-r|+1 wires / pins with lower_index min(l, r) and is_downto iff r <= l (one bit otherwise), for all integer bounds and all heaps satisfying Inv; '
                 'bounded: parsed structure against an independent Verilog renderer over seeded designs and bundled files', _MIX + '; ' + _BN, _MT, 'DESIGN.md 0.1, 6/C06')
