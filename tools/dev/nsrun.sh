#!/bin/bash
# usage: nsrun.sh Class fn [timeout]
cd /verif
timeout ${3:-120} python3-vt -B pyvc/verify.py --json $1 $2 method '{"suite":"ns"}' 2>&1 | python3 -c "
import sys,json
t=sys.stdin.read()
try:
    r=json.loads(t.split('@@JSON@@')[-1]); print(r['function'], 'paths',r.get('paths'), r.get('exits'), 'deg',r.get('degraded'), 'wall', r.get('wall_s'), (r.get('error') or '')[-1500:]); print('obl',len(r['results']),'bad',[(x['name'],x['status']) for x in r['results'] if x['status']!='discharged'][:12])
except Exception as e: print('ERR', t[-1500:])
"
