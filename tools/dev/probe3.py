import sys, os; sys.path.insert(0,'/verif'); sys.setrecursionlimit(20000)
from pyvc import verify
repo, cls, fn, kind, suite = sys.argv[1:6]
r=verify.run_function(repo,cls,fn,kind,[],opts={'suite':suite},suite=suite)
print('degraded:', r.get('degraded')); print((r.get('error') or '')[-1500:]); print('paths', r.get('paths'), r.get('exits'), 'n', len(r['results']), 'wall', r.get('wall_s'))
print([(x['name'].split('/',2)[-1],x['status']) for x in r['results'] if x['status']!='discharged'][:20])
