import sys, os, importlib; sys.path.insert(0,'/verif'); sys.setrecursionlimit(20000)
from pyvc import verify
repo, suite = sys.argv[1:3]
fns = importlib.import_module(verify.SUITES[suite]['functions']).FUNCTIONS
for f in fns:
    if len(sys.argv) > 3 and sys.argv[3] not in f[1]: continue
    r=verify.run_function(repo,f[0],f[1],f[2],f[3],opts={'suite':suite},suite=suite)
    print(r['function'], 'degraded:', r.get('degraded'), (r.get('error') or '')[-1500:], 'paths', r.get('paths'), r.get('exits'), 'n', len(r['results']), 'wall', r.get('wall_s'))
    print('   ', [(x['name'].split('/',2)[-1],x['status']) for x in r['results'] if x['status']!='discharged'][:20])
