import sys, os; sys.path.insert(0,'/verif'); sys.setrecursionlimit(20000)
from pyvc import verify
import pyvc.se as sem
last=[None]
og=sem.SE.getattr_
def ga(self, st, v, name, cont):
    last[0]=(name, v[0], str(v[1])[:60] if len(v)>1 else '')
    return og(self, st, v, name, cont)
sem.SE.getattr_=ga
oe=sem.SE.exit
def ex(self, st, kind, val=None):
    if kind not in ('normal',) and st.frames:
        print('EXIT', kind, 'last getattr', last[0], 'frames', [f.fi.qual for f in st.frames])
        for g in st.pc[-8:]: print('   PC', str(g).replace('\n',' ')[:200])
    return oe(self, st, kind, val)
sem.SE.exit=ex
repo, cls, fn, kind, suite = sys.argv[1:6]
r=verify.run_function(repo,cls,fn,kind,[],opts={'suite':suite},suite=suite)
print(r.get('exits'))
