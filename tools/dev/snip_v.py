import re
n=0
for hyps,goal,ctx in fails:
    if str(goal)!='False': continue
    last=str(hyps[-1]).replace('\n',' ')
    m=re.search(r'(v!\d+) != null', last)
    print('LAST:', last[:200])
    if not m: continue
    v=Const(m.group(1), ctx.Ref)
    print(' v==null provable?', prove(ctx,hyps[:-1],v==ctx.null,5000), ' v!=null provable?', prove(ctx,hyps[:-1],v!=ctx.null,5000))
    for h in hyps:
        t=str(h)
        if t.startswith(m.group(1)+' =='):
            t=re.sub(r'\s+',' ',t); print('  DEF:', t[-420:])
    n+=1
    if n>=2: break
