seen=set()
for hyps,goal,ctx in fails:
    g=str(goal)[:200].replace('\n',' ')
    print('---- goal', g)
    for h in hyps[-25:]: print('   H:', str(h)[:160].replace('\n',' '))
    break
