import time
seen=0
for hyps,goal,ctx in fails:
    if 'frame' not in str(goal)[:60] and '_wire' not in str(goal)[:80]: continue
    for to in (500, 5000, 20000):
        s=SimpleSolver(); s.set('timeout',to); s.set('mbqi',False); s.add(ctx.axioms); s.add(hyps)
        t=time.time(); r=s.check(); print('feasibility to=%d'%to, r, s.reason_unknown() if r==unknown else '', round(time.time()-t,2))
    # which hyp mentions v!
    vs=[h for h in hyps if 'v!' in str(h)[:8]]
    for h in vs[-3:]: print('  V:', str(h)[:400].replace('\n',' '))
    seen+=1
    if seen>=1: break
