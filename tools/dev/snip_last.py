seen=set()
for hyps,goal,ctx in fails:
    key=str(hyps[-1])[:150]
    if key in seen: continue
    seen.add(key)
    print('==== goal:', str(goal)[:90].replace('\n',' '))
    for h in hyps[-5:]: print('   H:', str(h)[:260].replace('\n',' '))
