#!/bin/bash
# dev: run the string VC against (a) seeded C17 change m2, (b) reverted length fix, (c) reverted dash fix
mkdir -p /tmp/mutchk
for d in s1 s2 s3; do rm -rf /tmp/mutchk/$d; mkdir -p /tmp/mutchk/$d; cp -r /repo/spydrnet /tmp/mutchk/$d/; done
git -C /repo diff e91cceb~1 e91cceb > /tmp/mutchk/len.diff; git -C /repo diff 45d9d0b~1 45d9d0b > /tmp/mutchk/dash.diff
(cd /tmp/mutchk/s1 && patch -p1 -s < /tmp/mutwt/out/C17/m2/patch.diff)
(cd /tmp/mutchk/s2 && patch -R -p1 -s < /tmp/mutchk/len.diff)
(cd /tmp/mutchk/s3 && patch -R -p1 -s < /tmp/mutchk/dash.diff)
cd /verif
for d in s1 s2 s3; do echo "== $d"; (time VERIF_REPO=/tmp/mutchk/$d timeout 900 python3-vt -B specs/edifify.py) 2>&1 | grep -v "discharged\|^$\|user\|sys" | cut -c1-200; done
for d in s1 s2 s3; do rm -rf /tmp/mutchk/$d; done
