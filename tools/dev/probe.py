import sys; sys.path.insert(0,'/verif'); sys.setrecursionlimit(20000)
from pyvc import verify
cls, fn, suite = sys.argv[1:4]
r=verify.run_function('/repo',cls,fn,'method',[],opts={'suite':suite},suite=suite)
print('degraded:', r.get('degraded')); print((r.get('error') or '')[-1200:]); print('paths', r.get('paths'), r.get('exits'))
print([(x['name'],x['status']) for x in r['results'] if x['status']!='discharged'][:20])
