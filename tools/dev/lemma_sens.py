import sys; sys.path.insert(0,'/verif')
from pyvc.verify import *
import importlib
from z3 import *
ctx=Ctx(); ct=ClassTable(repo='/repo'); sm=importlib.import_module('specs.ns'); spec=sm.NSSpec(ctx,ct)
L=sm.lemmas(ctx,spec)
def chk(name,hyps,goal):
    r=discharge(ctx,hyps,goal,5000,stages='cheap'); print(name, r[0], round(r[1],2))
# 1. drop each hypothesis in turn from a few lemmas and count how many hypotheses are necessary
for name,hyps,goal in L:
    if not any(t in name for t in ('add.accepted/entries-are-children.names','remove/children-are-entries.names','dictionary_set.accepted/children-are-entries.identifiers','add.refused/only-for')): continue
    need=0
    for i in range(len(hyps)):
        r=discharge(ctx,hyps[:i]+hyps[i+1:],goal,3000,stages='first')
        if r[0]!='discharged': need+=1
    print(name,'hypotheses',len(hyps),'necessary',need)
