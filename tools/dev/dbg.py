"""dev helper: tools/dev/dbg.py <Class> <name> <kind> [snippet.py]  -- runs one function, prints profile; collects failing obligations
(hyps, goal, ctx) in `fails` and executes the optional snippet with prove(ctx,hyps,goal,t,mbqi) available."""
import sys, os, time
sys.path.insert(0, '/verif'); sys.setrecursionlimit(20000)
from z3 import *
import pyvc.verify as V
import pyvc.se as sem
orig_sat = sem.SE.sat
tot = [0.0, 0, 0]
def sat(self, st, strong=False):
    t = time.time(); r = orig_sat(self, st, strong); dt = time.time() - t; tot[0] += dt; tot[1] += 1
    if dt > 0.4: tot[2] += 1
    return r
sem.SE.sat = sat
od = V.discharge
fails = []; dstat = {}
def dis(ctx, hyps, goal, timeout_ms=20000, stages='all'):
    t = time.time()
    if os.environ.get('DBG_FAST'):
        s = SimpleSolver(); s.set('timeout', 5000); s.set('mbqi', False)
        s.add(ctx.axioms); s.add(hyps); s.add(Not(goal)); r0 = s.check()
        r = ('discharged', time.time() - t, '', 'z3') if r0 == unsat else ('failed', time.time() - t, str(r0), '')
    else:
        r = od(ctx, hyps, goal, timeout_ms, stages)
    k = r[3] or r[0]; a = dstat.setdefault(k, [0, 0.0]); a[0] += 1; a[1] += r[1]
    if r[0] != 'discharged' and stages == 'all': fails.append((list(hyps), goal, ctx))
    return r
V.discharge = dis
def prove(ctx, hyps, goal, t=10000, mbqi=False):
    s = SimpleSolver() if not mbqi else Solver(); s.set('timeout', t)
    if not mbqi: s.set('mbqi', False)
    s.add(ctx.axioms); s.add(hyps); s.add(Not(goal)); return s.check()
cls, name, kind = sys.argv[1:4]
from specs.ir_functions import FUNCTIONS
params = [f for f in FUNCTIONS if f[0] == cls and f[1] == name and f[2] == kind][0][3]
t = time.time()
r = V.run_function(os.environ.get('VERIF_REPO', '/repo'), cls, name, kind, params)
print('wall', round(time.time() - t, 1), 'sat time/calls/slow', [round(tot[0], 1)] + tot[1:], 'discharge', dstat, 'paths', r.get('paths'), r.get('exits'))
print('bad:', [(x['name'], x['status']) for x in r['results'] if x['status'] != 'discharged'], r.get('degraded'), r.get('error'))
if len(sys.argv) > 4: exec(open(sys.argv[4]).read())
