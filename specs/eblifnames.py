"""Contract for EBLIFParser.get_port_name_and_index (spydrnet/parsers/eblif/eblif_parser.py, C18): how the EBLIF reader splits a
formal / actual / port token into a net (or port) name and a bit index.

    token  name[d]   (d a non-empty decimal numeral, name ANY string, brackets inside it included)  ->  (name, int(d))
    token  s  that does not end with ']'                                                              ->  (s, 0)
    token  s] without any '['                                                                         ->  (s], 0)

for all non-empty printable strings; it never raises on these.  Strings are code-point arrays (pyvc/strvc.py); int() of a numeral is an
uninterpreted function of its characters; rfind / find are characterised positionally."""
import ast, os, hashlib
from z3 import Int, And, Or, Not, Implies, ForAll, BoolVal, IntVal, IntSort, Array
import pyvc.strvc as S

FILE = 'spydrnet/parsers/eblif/eblif_parser.py'
FN = 'get_port_name_and_index'


def _eq(x, y):
    k = Int('kq_se%d' % next(S._n))
    return And(x.n == y.n, ForAll([k], Implies(And(0 <= k, k < x.n), x.a[k] == y.a[k]), patterns=[x.a[k]]))


def _intval_ext():
    n = Int('nq_iv'); a = Array('aq_iv', IntSort(), IntSort()); b = Array('bq_iv', IntSort(), IntSort()); k = Int('kq_iv')
    return ForAll([n, a, b], Implies(ForAll([k], Implies(And(0 <= k, k < n), a[k] == b[k])), S.INTVAL(n, a) == S.INTVAL(n, b)))


def run(repo):
    """returns (results [(name, status, seconds, detail, backend)], {function: sha}, {function: reason it left the subset})"""
    tree = ast.parse(open(os.path.join(repo, FILE)).read())
    cls = [n for n in tree.body if isinstance(n, ast.ClassDef) and n.name == 'EBLIFParser']
    results = []; shas = {}; degraded = {}
    if not cls:
        return results, shas, {FN: 'class EBLIFParser not found'}
    fn = [f for f in cls[0].body if isinstance(f, ast.FunctionDef) and f.name == FN]
    if not fn:
        return results, shas, {FN: 'function not found'}
    shas['EBLIFParser.' + FN] = hashlib.sha256(ast.dump(fn[0]).encode()).hexdigest()[:16]
    agg = {}
    def rec(name, r):
        cur = agg.get(name)
        rank = {'discharged': 0, 'undecided': 1, 'failed': 2}
        if cur is None or rank[r[0]] > rank[cur[0]]: agg[name] = r

    def case(tag, mk):
        se = S.StrSE(cls[0], {}, {}, {})
        st = S.St([_intval_ext()])
        made = mk(st)
        s, pre, post = made[:3]
        st.pc += pre
        # layout lemmas about the constructed token: each is proved from the facts so far and only then used
        for lname, lemma in (made[3] if len(made) > 3 else []):
            r = S.discharge(st.pc, lemma)
            rec('C18/%s/%s/lemma/%s' % (FN, tag, lname), r)
            if r[0] == 'discharged': st.pc.append(lemma)
        k = Int('kq_pr%d' % next(S._n))
        st.pc += [s.n >= 1, ForAll([k], Implies(And(0 <= k, k < s.n), S.c_print(s.a[k])), patterns=[s.a[k]])]
        if not se.sat(st):
            rec('VACUITY/%s/%s/precondition-satisfiable' % (FN, tag), ('failed', 0.0, 'contradictory precondition', '')); return
        try:
            se.call_method(st, FN, [('str', s)], lambda s_, v: se.exit(s_, 'normal', v))
        except S.Unsupported as e:
            degraded[FN] = 'left-subset: %s' % e; return
        for name, hyps, goal in se.obligations:
            rec('C18/%s/%s/%s' % (FN, tag, name), S.discharge(hyps, goal))
        normal = 0
        for s_, kind, val in se.outcomes:
            if kind != 'normal':
                rec('C18/%s/%s/exit=%s/does-not-raise' % (FN, tag, kind), S.discharge(s_.pc, BoolVal(False))); continue
            normal += 1
            if val[0] != 'tuple' or len(val[1]) != 2 or val[1][0][0] != 'str' or val[1][1][0] != 'int':
                rec('C18/%s/%s/exit=normal/returns-a-name-and-an-index' % (FN, tag), ('failed', 0.0, 'returned %s' % val[0], '')); continue
            for nm, goal in post(val[1][0][1], val[1][1][1]):
                rec('C18/%s/%s/exit=normal/%s' % (FN, tag, nm), S.discharge(s_.pc, goal))
        if normal == 0 and FN not in degraded:
            rec('VACUITY/%s/%s/no-normal-exit' % (FN, tag), ('failed', 0.0, 'no normal exit reached', ''))

    def indexed(st):
        name = S.fresh_str('name'); d = S.fresh_str('digits')
        def cat(x, y):
            for z in (x, y):
                st.pc += z.facts; z.facts = []
            r = S.concat(x, y); st.pc += r.facts; r.facts = []
            return r
        s = cat(cat(cat(name, S.const_str('[')), d), S.const_str(']'))
        k = Int('kq_dg')
        pre = [name.n >= 0, d.n >= 1, ForAll([k], Implies(And(0 <= k, k < d.n), S.c_digit(d.a[k])), patterns=[d.a[k]])]
        j = Int('jq_ly')
        lemmas = [('length', s.n == name.n + d.n + 2),
                  ('name-part', ForAll([j], Implies(And(0 <= j, j < name.n), s.a[j] == name.a[j]), patterns=[s.a[j]])),
                  ('opening-bracket', s.a[name.n] == 91),
                  ('digits-part', ForAll([j], Implies(And(name.n < j, j < s.n - 1), And(s.a[j] == d.a[j - name.n - 1], S.c_digit(s.a[j]))), patterns=[s.a[j]])),
                  ('closing-bracket', s.a[s.n - 1] == 93)]
        return s, pre, (lambda rn, ri: [('name-is-the-part-before-the-last-bracket', _eq(rn, name)), ('index-is-the-numeral-in-the-brackets', ri == S.INTVAL(d.n, d.a))]), lemmas

    def plain(st):
        s = S.fresh_str('token')
        return s, [s.a[s.n - 1] != 93], (lambda rn, ri: [('whole-token-is-the-name', _eq(rn, s)), ('index-zero', ri == 0)])

    def closing_only(st):
        s = S.fresh_str('token'); k = Int('kq_co')
        return s, [s.a[s.n - 1] == 93, ForAll([k], Implies(And(0 <= k, k < s.n), s.a[k] != 91), patterns=[s.a[k]])], \
            (lambda rn, ri: [('whole-token-is-the-name', _eq(rn, s)), ('index-zero', ri == 0)])

    for tag, mk in (('name[d]', indexed), ('no-closing-bracket', plain), ('closing-bracket-only', closing_only)):
        case(tag, mk)
    for n_, r in sorted(agg.items()):
        results.append((n_, r[0], round(r[1], 3), r[2], r[3]))
    if not agg and not degraded:
        results.append(('VACUITY/%s/no-obligations' % FN, 'failed', 0.0, 'zero obligations', ''))
    return results, shas, degraded
