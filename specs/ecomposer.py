"""Contract for the bit index the EDIF composer writes for a wire of a net (spydrnet/composers/edif/composer.py, C03):

    ComposeEdif._get_wire_index_(cable, wire)  ==  position of the wire in cable.wires  +  cable.lower_index

for every wire listed in the cable; it raises TypeError (None + int) only for a wire the cable does not list.  The loop walks the
list by position with a counter and leaves by `break`; it is cut at "counter == position, the wire is at none of the positions
passed, val is still None"."""
from z3 import And, Or, Not, Implies, If, Const, ForAll, BoolVal, Int
from specs.ir import IRSpec, loop_spec
from pyvc.se import R, B, I, Unsupported
from specs.vcomposer import extra_pre          # Bundle.lower_index is an int (documented type)

FILES = {'ComposeEdif': 'spydrnet/composers/edif/composer.py'}
FUNCTIONS = [('ComposeEdif', '_get_wire_index_', 'method', [('cable', 'is:Cable'), ('wire', 'is:Wire')]),
             # the tests by which the writer chooses between the (array ...) / (member ...) spelling and the plain one (composer.py: port.is_array,
             # cable.is_array, port_ref.is_array): inherited from Bundle, resolved through the overriding _items() of Port / Cable
             ('Port', 'is_scalar', 'getter', []), ('Port', 'is_array', 'getter', []),
             ('Cable', 'is_scalar', 'getter', []), ('Cable', 'is_array', 'getter', []),
             # ... and the setters through which the EDIF reader records the spelling it saw (parser.py: port.is_array = True, cable.is_array = ...,
             # is_scalar = True): what is written is what the getter reads back, the only refusal is a one-bit claim about a wider bundle
             ('Port', 'is_array', 'setter', [('value', 'bool')]), ('Cable', 'is_array', 'setter', [('value', 'bool')]),
             ('Port', 'is_scalar', 'setter', [('value', 'bool')]), ('Cable', 'is_scalar', 'setter', [('value', 'bool')])]
POSITIONAL = {('ComposeEdif', '_get_wire_index_', 'method')}


class EComposerSpec(IRSpec):
    int_slots = True

    def __init__(self, ctx, ct):
        super().__init__(ctx, ct, listener='stock', check_cover=False)


@loop_spec('ComposeEdif._get_wire_index_', 0, 'plist', [], {'i': 'int', 'val': 'none'})
def _inv_index(lv):
    c = lv.ctx
    wire = lv.env['wire'][1]; L = lv.dom[1]
    j = Int('jq_ew')
    # the position counter of the hand-written form; with `for k, w in enumerate(...)` the position is the loop target itself
    counter = [('C03', 'counter-is-position', lv.cur['i'][1] == lv.i)] if 'i' in lv.cur and lv.cur['i'][0] == 'int' else []
    return counter + [
            ('C03', 'not-found-so-far', ForAll([j], Implies(And(0 <= j, j < lv.i), c.at(L, j) != wire), patterns=[c.at(L, j)]))]


def post(ctx, spec, h0, s, ekind, args, val):
    c = ctx; h = s.heap; cab, wire = args[1][1], args[2][1]
    L = h0['_wires'][cab]
    out = [('C03', 'netlist-untouched', And([h[f_] == h0[f_] for f_ in h0 if f_ in h and not (h[f_] is h0[f_])] or [BoolVal(True)]))]
    if ekind == 'TypeError':
        return out + [('C03', 'raises-only-for-a-wire-the-cable-does-not-list', Or(c.cnt(L, wire) == 0, c.idx(L, wire) < 0))]
    if ekind != 'normal':
        return out + [('C03', 'does-not-raise-%s' % ekind, BoolVal(False))]
    if val is None or val[0] != 'int':
        return out + [('C03', 'returns-an-int', BoolVal(False))]
    out.append(('C03', 'returns-position-plus-lower-index', val[1] == c.idx(L, wire) + c.intval(h0['_lower_index'][cab])))
    return out


def post_arrayness(want_array):
    """is_scalar: False for a bundle of more than one bit, otherwise the stored flag; is_array: its negation"""
    def f(ctx, spec, h0, s, ekind, args, val):
        c = ctx; h = s.heap; b = args[0][1]
        if ekind != 'normal':
            return [('C03', 'does-not-raise', BoolVal(False))]
        out = [('C03', 'netlist-untouched', And([h[f_] == h0[f_] for f_ in h0 if f_ in h and not (h[f_] is h0[f_])] or [BoolVal(True)]))]
        # the receiver is a Port or a Cable (the function is inherited from Bundle and reads the bits through the overriding _items())
        many = If(c.isa(b, 'Port'), c.len(h0['_pins'][b]) > 1, c.len(h0['_wires'][b]) > 1)
        flag = h0['_is_scalar'][b]
        if val is not None and val[0] == 'bool':
            scalar_true = And(Not(many), flag == c.pyTrue)
            scalar_false = Or(many, flag == c.pyFalse)
            # stated only where the stored flag is a bool (T: the setters and constructors store nothing else)
            out.append(('C03', 'array-iff-several-bits-or-flag-says-so' if want_array else 'scalar-iff-one-bit-at-most-and-flag-says-so',
                        Implies(Or(flag == c.pyTrue, flag == c.pyFalse), val[1] == (scalar_false if want_array else scalar_true))))
            return out
        if val is not None and val[0] == 'ref':
            if want_array:
                return out + [('C03', 'returns-a-bool', BoolVal(False))]
            out.append(('C03', 'scalar-iff-one-bit-at-most-and-flag-says-so', val[1] == If(many, c.pyFalse, flag)))
            return out
        return out + [('C03', 'returns-a-bool', BoolVal(False))]
    return f


def post_set_arrayness(sets_array):
    def f(ctx, spec, h0, s, ekind, args, val):
        c = ctx; h = s.heap; b = args[0][1]; v = args[1][1]
        many = If(c.isa(b, 'Port'), c.len(h0['_pins'][b]) > 1, c.len(h0['_wires'][b]) > 1)
        claims_one_bit = Not(v) if sets_array else v
        others = And([h[f_] == h0[f_] for f_ in h0 if f_ in h and f_ != '_is_scalar' and not (h[f_] is h0[f_])] or [BoolVal(True)])
        if ekind == 'RuntimeError':
            return [('C03', 'refuses-only-a-one-bit-claim-about-a-wider-bundle', And(many, claims_one_bit)),
                    ('C03', 'refusal-changes-nothing', And(others, h['_is_scalar'] == h0['_is_scalar']))]
        if ekind != 'normal':
            return [('C03', 'does-not-raise-%s' % ekind, BoolVal(False))]
        x = Const('xq_sa', c.Ref)
        flag = h['_is_scalar'][b]
        reads_array = Or(many, flag == c.pyFalse)          # what the getter contract above answers in the new heap (the lists are unchanged)
        return [('C03', 'accepted-unless-a-one-bit-claim-about-a-wider-bundle', Not(And(many, claims_one_bit))),
                ('C03', 'stores-a-bool', Or(flag == c.pyTrue, flag == c.pyFalse)),
                ('C03', 'reads-back-as-written', reads_array == (v if sets_array else Not(v))),
                ('C03', 'nothing-else-changed', And(others, ForAll([x], Implies(x != b, h['_is_scalar'][x] == h0['_is_scalar'][x]))))]
    return f


POSTS = {'ComposeEdif._get_wire_index_': post, 'Bundle.is_array=': post_set_arrayness(True), 'Bundle.is_scalar=': post_set_arrayness(False),
         'Bundle.is_scalar': post_arrayness(False), 'Bundle.is_array': post_arrayness(True)}
