"""Contracts for the index helpers of the Verilog reader (spydrnet/parsers/verilog/parser.py, C06):

    populate_new_cable(cable, name, left, right, var_type)   on a cable that has no wires yet:
        `wire [l:r] name`  ->  |l - r| + 1 wires, lower_index = min(l, r), is_downto = (r <= l);   a single index or none -> one wire,
        lower_index = that index (0 if none);  the cable gets the name;  nothing else in the netlist changes except what
        create_wires / the name setter do (Inv preserved is the business of C01).
    populate_new_port(port, name, left, right, direction)    likewise for pins.

Integers are mathematical; Bundle.lower_index is stored as given (an int)."""
from z3 import And, Or, Not, Implies, If, Const, ForAll, BoolVal, Int
from specs.ir import IRSpec
from pyvc.se import R, B, I, Unsupported

FILES = {'VerilogParser': 'spydrnet/parsers/verilog/parser.py'}
FUNCTIONS = [
    ('VerilogParser', 'populate_new_cable', 'method', [('cable', 'is:Cable'), ('name', 'is:Foreign'), ('left_index', 'optint'), ('right_index', 'optint'), ('var_type', 'none')]),
    ('VerilogParser', 'populate_new_port', 'method', [('port', 'is:Port'), ('name', 'is:Foreign'), ('left_index', 'optint'), ('right_index', 'optint'), ('direction', 'none')]),
]


class VParserSpec(IRSpec):
    int_slots = True

    def __init__(self, ctx, ct):
        super().__init__(ctx, ct, listener='stock', check_cover=False)


def arg_pre(ctx, spec, h0, qual, args):
    c = ctx; b = args[1][1]
    lst = '_wires' if qual.endswith('cable') else '_pins'
    # the helper is called on a bundle that create_cable() / create_port() has just made: no wires / pins yet, no instances to mirror a port
    pre = [c.len(h0[lst][b]) == 0]
    if lst == '_pins':
        d = h0['_definition'][b]; x = Const('xq_vp', c.Ref)
        pre.append(Or(d == c.null, ForAll([x], Not(h0['_references'][d][x]), patterns=[h0['_references'][d][x]])))
    return pre


def post(kind):
    def f(ctx, spec, h0, s, ekind, args, val):
        c = ctx; h = s.heap
        b, name, left, right = args[1][1], args[2][1], args[3], args[4]
        lst = '_wires' if kind == 'cable' else '_pins'
        if ekind != 'normal':
            # the only refusal is the naming veto of the listener (a sibling already carries the name)
            return [('C06', 'raises-only-by-the-naming-veto', BoolVal(ekind == 'ValueError@hook'))]
        both = left[0] == 'int' and right[0] == 'int'
        one = left if left[0] == 'int' else (right if right[0] == 'int' else None)
        out = []
        if both:
            l, r = left[1], right[1]
            width = If(l >= r, l - r, r - l) + 1; low = If(l <= r, l, r)
            out.append(('C06', 'width-is-the-size-of-the-range', c.len(h[lst][b]) == width))
            out.append(('C06', 'lower-index-is-the-smaller-bound', h['_lower_index'][b] == c.boxint(low)))
            out.append(('C06', 'downto-iff-right-not-above-left', h['_is_downto'][b] == If(r <= l, c.pyTrue, c.pyFalse)))
        else:
            out.append(('C06', 'one-bit', c.len(h[lst][b]) == 1))
            out.append(('C06', 'lower-index-is-the-given-index-or-zero', h['_lower_index'][b] == c.boxint(one[1] if one is not None else 0)))
        out.append(('C06', 'named', And(h['dhas'][b][c.KEY_NAME], h['dval'][b][c.KEY_NAME] == name)))
        return out
    return f


POSTS = {'VerilogParser.populate_new_cable': post('cable'), 'VerilogParser.populate_new_port': post('port')}
