"""Contracts for the policy objects of spydrnet/plugins/namespace_manager (C10, index level):
DefaultNamespace / EdifNamespace .no_conflict / .update / .remove / .lookup  against the abstract table view

    tab(N, T, k)   = N.namespaces[T][k]        if both dictionaries/keys exist, else None
    etab(N, T, k)  = N.edif_namespaces[T][k]   likewise (EDIF policy only; keys are lower-cased identifiers)

Dictionaries are heap objects (aliased through locals such as `namespace = self.namespaces[element_type]`), keyed by a canonical
key: the class for `type(element)`, the string VALUE for names (`sv`, so that equal strings are one key), `lower` is an
uninterpreted idempotent map on string values.  Separation of the dictionary objects is part of the precondition (it is
established where they are allocated: `{}` in update, `__init__` of the policy objects).
Obligation names: C10/<Class.method>/exit=<kind>/<clause>."""
import ast
from z3 import (And, Or, Not, Implies, If, Const, ForAll, Exists, BoolVal, Function, BoolSort, Store, K, MultiPattern)
from specs.ir import IRSpec
from pyvc.se import R, B, Unsupported

FILES = {'DefaultNamespace': 'spydrnet/plugins/namespace_manager/default_namespace.py',
         'EdifNamespace': 'spydrnet/plugins/namespace_manager/edif_namespace.py'}
_EL = 'is:Netlist|Library|Definition|Port|Cable|Instance'
FUNCTIONS = [
    ('DefaultNamespace', 'no_conflict', 'method', [('element', _EL), ('key', 'key'), ('value', 'is:Foreign')]),
    ('DefaultNamespace', 'update', 'method', [('element', _EL), ('key', 'key'), ('value', 'is:Foreign')]),
    ('DefaultNamespace', 'remove', 'method', [('element', _EL), ('key', 'key')]),
    ('DefaultNamespace', 'lookup', 'method', [('element_type', 'is:Foreign'), ('key', 'key'), ('value', 'is:Foreign')]),
    ('EdifNamespace', 'no_conflict', 'method', [('element', _EL), ('key', 'key'), ('value', 'is:Foreign')]),
    ('EdifNamespace', 'update', 'method', [('element', _EL), ('key', 'key'), ('value', 'is:Foreign')]),
    ('EdifNamespace', 'remove', 'method', [('element', _EL), ('key', 'key')]),
    ('EdifNamespace', 'lookup', 'method', [('element_type', 'is:Foreign'), ('key', 'key'), ('value', 'is:Foreign')]),
]
NS_CLASSES = ('DefaultNamespace', 'EdifNamespace')
# the ten hooks the dispatcher calls for structural edits: (hook, parent class, child class)
WRAPPERS = [('definition_%s_port', 'Definition', 'Port'), ('definition_%s_child', 'Definition', 'Instance'), ('definition_%s_cable', 'Definition', 'Cable'),
            ('library_%s_definition', 'Library', 'Definition'), ('netlist_%s_library', 'Netlist', 'Library')]
FILES['NamespaceManager'] = 'spydrnet/plugins/namespace_manager/__init__.py'
_PAR = 'is:Netlist|Library|Definition'
FUNCTIONS += [
    ('NamespaceManager', 'lookup', 'method', [('parent', _PAR), ('element_type', 'is:Foreign'), ('key', 'key'), ('value', 'is:Foreign')]),
    ('NamespaceManager', 'remove', 'method', [('element', _EL), ('key', 'optkey'), ('parent', 'optis:Netlist|Library|Definition')]),
    ('NamespaceManager', 'add', 'method', [('parent', _PAR), ('child', _EL)]),
    ('NamespaceManager', 'dictionary_set', 'method', [('element', _EL), ('key', 'key'), ('value', 'is:Foreign')]),
    ('NamespaceManager', 'dictionary_delete', 'method', [('element', _EL), ('key', 'key')]),
    ('NamespaceManager', 'dictionary_pop', 'method', [('element', _EL), ('key', 'key')]),
]
for _w, _pc, _cc in WRAPPERS:
    for _k in ('add', 'remove'):
        FUNCTIONS.append(('NamespaceManager', _w % _k, 'method', [('parent', 'is:' + _pc), ('child', 'is:' + _cc)]))


class NSSpec(IRSpec):
    value_equality = True

    def __init__(self, ctx, ct):
        super().__init__(ctx, ct, listener='stock', check_cover=False)
        c = ctx
        self.sv = Function('sv', c.Ref, c.Ref)            # canonical representative of a value (equal strings -> one key)
        self.lowerf = Function('lowerf', c.Ref, c.Ref)
        self.tyobj = Function('tyobj', c.Cls, c.Ref)      # the class object type(x)
        x, y = Const('xq_ns', c.Ref), Const('yq_ns', c.Ref)
        k1, k2 = Const('k1q_ns', c.Cls), Const('k2q_ns', c.Cls)
        c.axioms += [ForAll([x], self.sv(self.sv(x)) == self.sv(x), patterns=[self.sv(x)]),
                     ForAll([x], c.cls(self.lowerf(x)) == c.C['Foreign'], patterns=[self.lowerf(x)]),
                     ForAll([x], self.sv(self.lowerf(self.lowerf(x))) == self.sv(self.lowerf(x)), patterns=[self.lowerf(self.lowerf(x))]),
                     ForAll([x, y], Implies(self.sv(x) == self.sv(y), self.sv(self.lowerf(x)) == self.sv(self.lowerf(y))),
                            patterns=[self.lowerf(x), self.lowerf(y)]) if False else BoolVal(True),
                     ForAll([k1, k2], Implies(self.tyobj(k1) == self.tyobj(k2), k1 == k2), patterns=[self.tyobj(k1), self.tyobj(k2)]) if False else BoolVal(True)]
        for a_ in c.C:
            c.axioms.append(self.sv(self.tyobj(c.C[a_])) == self.tyobj(c.C[a_]))
            for b_ in c.C:
                if a_ < b_: c.axioms.append(self.tyobj(c.C[a_]) != self.tyobj(c.C[b_]))

    def veq(self, a, b):
        return self.sv(a) == self.sv(b)

    # ---- hooks used by the executor
    def dict_key(self, se, st, v):
        c = self.ctx
        if v[0] == 'type': return self.tyobj(c.cls(v[1]))
        if v[0] == 'ref': return self.sv(v[1])
        if v[0] in ('str', 'key'): return self.sv(se.as_ref(st, v))
        raise Unsupported('dictionary key of kind %s' % v[0])

    def dict_value(self, se, st, val, cv):
        return ('hdict', val, 'inner') if len(cv) > 2 and cv[2] == 'outer' else R(val)

    def on_dict_store(self, se, st, cv, k, v):
        h = st.heap
        if len(cv) > 2 and cv[2] == 'outer' and v[0] == 'hdict':
            from z3 import IntVal
            o, d = cv[1], v[1]
            h['g_role'] = Store(h['g_role'], d, IntVal(2)); h['g_own'] = Store(h['g_own'], d, h['g_own'][o])
            h['g_kind'] = Store(h['g_kind'], d, h['g_kind'][o]); h['g_tkey'] = Store(h['g_tkey'], d, k)

    def global_name(self, se, st, name):
        if name in ('Netlist', 'Library', 'Definition', 'Port', 'Cable', 'Instance'): return ('class', name)
        return super().global_name(se, st, name)

    def new_dict(self, se, st):
        c = self.ctx
        d = self.new_object(se, st, 'Dict')
        st.heap['dk'] = Store(st.heap['dk'], d, K(c.Ref, False))
        return ('hdict', d, 'inner')

    def obj_attr(self, se, st, v, name, cont):
        """attributes of the NamespaceManager object itself"""
        c = self.ctx
        if name == 'namespaces': return cont(st, ('hdict', self.nsmap(), 'nsmap'))
        if name == 'ignore_ns_change': return cont(st, B(BoolVal(False)))
        if name == 'policies': return cont(st, ('policies',))
        raise Unsupported('NamespaceManager.%s' % name)

    def nsmap(self):
        if not hasattr(self, '_nsmap'): self._nsmap = Const('NSMAP', self.ctx.Ref)
        return self._nsmap

    def policy_names(self, se):
        if not hasattr(self, '_pn'):
            c = self.ctx
            self._pn = {n: Const('policy_name_' + n, c.Ref) for n in ('EDIF', 'DEFAULT')}
            for t in self._pn.values(): c.axioms += [c.cls(t) == c.C['Foreign'], t != c.pyTrue, t != c.pyFalse]
            self.ctx.axioms.append(self.sv(self._pn['EDIF']) != self.sv(self._pn['DEFAULT']))
        return self._pn

    def getattr_hook(self, se, st, v, name, cont):
        c = self.ctx; r = v[1]
        if name in ('namespaces', 'edif_namespaces'):
            fld = 'f_namespaces' if name == 'namespaces' else 'f_edif'
            ok = c.isa(r, 'EdifNamespace') if name == 'edif_namespaces' else c.isa(r, *NS_CLASSES)
            se.branch(st, ok, lambda s: cont(s, ('hdict', s.heap[fld][r], 'outer')), lambda s: se.exit(s, 'AttributeError'))
            return True
        return NotImplemented

    def legal_id(self, v):
        if not hasattr(self, '_legal'): self._legal = Function('legal_edif_identifier', self.ctx.Ref, BoolSort())
        return self._legal(self.sv(v))

    def contract_for(self, se, st, fi):
        if fi.name == '_check_EDIF_identifier':
            # the lexical rule itself (`&?[0-9A-Za-z_]+`, length limits) is C17's LEGAL; here it is an uninterpreted predicate of the value
            return lambda se_, st_, fi_, args, kw, cont: cont(st_, B(self.legal_id(args[-1][1])))
        return None

    def policy_call(self, se, st, recv, name, args, kw, cont):
        """classmethod call on self.policies[<policy name>]: dispatch on the policy name"""
        c = self.ctx; pn = self.policy_names(se); v = recv[1]
        for pname, cls_ in (('EDIF', 'EdifNamespace'), ('DEFAULT', 'DefaultNamespace')):
            s2 = st.fork(); s2.pc.append(self.sv(v) == self.sv(pn[pname]))
            if se.sat(s2):
                fi = self.ct.find(cls_, name, 'classmethod')
                if fi is None: raise Unsupported('%s.%s' % (cls_, name))
                se.call_fn(s2, fi, [('clsobj', cls_)] + args, cont, kw)

    POLICY_METHODS = ('no_conflict', 'update', 'remove', 'lookup')

    def in_manager(self, st):
        return bool(st.frames) and st.frames[0].fi.cls == 'NamespaceManager'

    def policy_contract(self, se, st, N, name, args, cont):
        """a policy-object method called from a NamespaceManager hook is used through its proved contract (no inlining, no fork):
        pure methods return their specified value; update/remove replace the dictionary part of the heap by one that satisfies
        the table-level postcondition, keeps the separation of dictionary objects and leaves everything else alone"""
        c = self.ctx
        pre = dict(st.heap)
        args = list(args)
        args[1] = ('key', se.to_key(st, args[1]))
        args = [a if a[0] in ('key', 'ref') else R(se.as_ref(st, a)) for a in args]
        class _S: pass
        def clauses(cls_, heap, val):
            fake = _S(); fake.heap = heap
            return [g for _, nm, g in post(cls_, name)(c, self, pre, fake, 'normal', [R(N)] + list(args), val) if nm != 'does-not-raise']
        if name in ('no_conflict', 'lookup'):
            if name == 'no_conflict':
                res = c.fresh('noconf', BoolSort()); val = B(res)
            else:
                res = c.fresh('lookup', c.Ref); val = R(res)
            for cl in NS_CLASSES:
                st.pc.append(Implies(c.cls(N) == c.C[cl], And(clauses(cl, pre, val))))
            return cont(st, val)
        for f_ in HAVOCKED:
            st.heap[f_] = c.fresh(f_ + '_pc', pre[f_].sort())
        for cl in NS_CLASSES:
            st.pc.append(Implies(c.cls(N) == c.C[cl], And(clauses(cl, st.heap, None))))
        cont(st, se.none())

    def method_hook(self, se, st, recv, name, args, kw, cont):
        c = self.ctx
        if name in self.POLICY_METHODS and self.in_manager(st) and recv[0] == 'ref':
            self.policy_contract(se, st, recv[1], name, args, cont); return True
        if name == 'lower':
            cont(st, R(self.lowerf(recv[1]))); return True
        handled = False
        for cl in NS_CLASSES:
            m = self.ct.find(cl, name, 'method')
            if m is None: continue
            s2 = st.fork(); s2.pc.append(c.cls(recv[1]) == c.C[cl])
            if se.sat(s2):
                handled = True
                se.call_fn(s2, m, [recv] + args, cont, kw)
        return True if handled else NotImplemented

    def special_call(self, se, st, e, fname, cont):
        if fname.endswith('.lower') and isinstance(e.func, ast.Attribute) and not e.args:
            return se.ev(st, e.func.value, lambda s, v: cont(s, R(self.lowerf(v[1]))) if v[0] == 'ref' else se._unsup('lower of %s' % v[0]))
        if fname == 'type' and len(e.args) == 1:
            return se.ev(st, e.args[0], lambda s, v: cont(s, ('type', v[1])))
        return super().special_call(se, st, e, fname, cont)


# ------------------------------------------------------------------ abstract view and the separation precondition
def tab(spec, h, N, T, k, edif=False):
    c = spec.ctx
    D = h['f_edif' if edif else 'f_namespaces'][N]
    inner = h['dv'][D][T]
    return If(And(h['dk'][D][T], h['dk'][inner][k]), h['dv'][inner][k], c.null)


def separation(ctx, spec, h0, named=False):
    """distinct policy objects own distinct dictionaries; the inner dictionaries of one object are pairwise distinct objects and
    differ from every outer dictionary and from the manager's map; stored elements are not None.  Stated through the ghost
    ownership fields of a dictionary object (single-trigger clauses; injectivity follows by congruence)."""
    from z3 import IntVal
    c = ctx; A = h0['alloc']
    N, t, k, P = (Const(n, c.Ref) for n in ('Nq', 'tq', 'kq', 'Pq'))
    role, own, kind, tkey, par = h0['g_role'], h0['g_own'], h0['g_kind'], h0['g_tkey'], h0['g_par']
    isNSg = lambda n: And(A[n], c.isa(n, *NS_CLASSES))
    out = []
    for e1 in (False, True):
        isNS = (lambda n: And(isNSg(n), c.isa(n, 'EdifNamespace'))) if e1 else isNSg
        outer = lambda n, e=e1: h0['f_edif' if e else 'f_namespaces'][n]
        inner = lambda n, t_, e=e1: h0['dv'][outer(n)][t_]
        has = lambda n, t_, e=e1: h0['dk'][outer(n)][t_]
        ev = IntVal(1 if e1 else 0); tag = 'identifiers' if e1 else 'names'
        out.append(('sep.outer.' + tag, ForAll([N], Implies(isNS(N), And(A[outer(N)], c.isa(outer(N), 'Dict'), role[outer(N)] == 1, own[outer(N)] == N,
                                                    kind[outer(N)] == ev)), patterns=[outer(N)])))
        out.append(('sep.inner.' + tag, ForAll([N, t], Implies(And(isNS(N), has(N, t)), And(A[inner(N, t)], c.isa(inner(N, t), 'Dict'), role[inner(N, t)] == 2,
                                                                     own[inner(N, t)] == N, kind[inner(N, t)] == ev, tkey[inner(N, t)] == t)),
                          patterns=[inner(N, t)])))
        out.append(('sep.values.' + tag, ForAll([N, t, k], Implies(And(isNS(N), has(N, t), h0['dk'][inner(N, t)][k]),
                                             And(h0['dv'][inner(N, t)][k] != c.null, A[h0['dv'][inner(N, t)][k]])),
                          patterns=[h0['dv'][inner(N, t)][k]])))
    M = spec.nsmap()
    out.append(('sep.manager-map', And(A[M], c.isa(M, 'Dict'), role[M] == 3)))
    out.append(('sep.manager-map.values', ForAll([P], Implies(h0['dk'][M][P], And(isNSg(h0['dv'][M][P]), par[h0['dv'][M][P]] == P)), patterns=[h0['dv'][M][P]])))
    out.append(('sep.manager-map.keys', ForAll([P], Implies(h0['dk'][M][P], And(P != c.null, c.isa(P, 'Netlist', 'Library', 'Definition'))), patterns=[h0['dk'][M][P]])))
    x = Const('xq_sep', c.Ref)
    out.append(('sep.ir-values', ForAll([x], Implies(c.isa(x, 'Netlist', 'Library', 'Definition', 'Port', 'Cable', 'Instance'), spec.sv(x) == x), patterns=[spec.sv(x)])))
    return out if named else [g for _, g in out]


def extra_pre(ctx, spec, h0):
    c = ctx
    x = Const('xq_np', c.Ref); kq = Const('kq_np', c.Key)
    return separation(ctx, spec, h0) + [
        ForAll([x, kq], Implies(h0['dhas'][x][kq], c.cls(h0['dval'][x][kq]) == c.C['Foreign']), patterns=[h0['dval'][x][kq]])]


HAVOCKED = ('dk', 'dv', 'alloc', 'g_role', 'g_own', 'g_kind', 'g_tkey')


def frame_clauses(c, h0, h):
    """what a policy-object method may touch: dictionary contents, allocation (monotone) and the ghost ownership of dictionaries"""
    x = Const('xq_fr', c.Ref)
    same = [h[f_] == h0[f_] for f_ in h0 if f_ not in HAVOCKED and f_ in h and not (h[f_] is h0[f_])]
    return [('C10', 'frame.nothing-but-dictionaries-written', And(same) if same else BoolVal(True)),
            ('C10', 'frame.allocation-monotone', ForAll([x], Implies(h0['alloc'][x], h['alloc'][x]), patterns=[h0['alloc'][x]]))]


def tab_patterns(h, h0, N, T, k, edif=False):
    fld = 'f_edif' if edif else 'f_namespaces'
    return [hh['dv'][hh['dv'][hh[fld][N]][T]][k] for hh in (h, h0)]


def post(cls_, fname):
    def f(ctx, spec, h0, s, ekind, args, val):
        c = ctx; h = s.heap; self_ = args[0][1]
        out = []
        if ekind != 'normal':
            return [('C10', 'does-not-raise', BoolVal(False))]
        N, T, k = Const('Nq_p', c.Ref), Const('Tq_p', c.Ref), Const('kq_p', c.Ref)
        edif_cls = cls_ == 'EdifNamespace'
        isNS0 = lambda n: And(h0['alloc'][n], c.isa(n, *NS_CLASSES))
        def unchanged(edif, exc=None):
            body = tab(spec, h, N, T, k, edif) == tab(spec, h0, N, T, k, edif)
            if exc is not None: body = Implies(Not(exc(N, T, k)), body)
            return ForAll([N, T, k], Implies(isNS0(N), body), patterns=tab_patterns(h, h0, N, T, k, edif))
        M_ = spec.nsmap()
        out.append(('C10', 'manager-map-untouched', And(h['dk'][M_] == h0['dk'][M_], h['dv'][M_] == h0['dv'][M_], h['g_par'] == h0['g_par'])))
        for nm_, g_ in separation(c, spec, h, named=True):
            out.append(('C10', 'preserved.' + nm_, g_))
        out += frame_clauses(c, h0, h)
        if fname in ('no_conflict', 'lookup'):
            out += [('C10', 'pure.names', unchanged(False)), ('C10', 'pure.identifiers', unchanged(True))]
        if fname == 'no_conflict':
            el, key, value = args[1][1], args[2][1], args[3][1]
            ty = spec.tyobj(c.cls(el))
            cur = tab(spec, h0, self_, ty, spec.sv(value))
            curE = tab(spec, h0, self_, ty, spec.sv(spec.lowerf(value)), True)
            want = If(key == c.KEY_NAME, Or(cur == c.null, cur == el),
                      If(And(BoolVal(edif_cls), key == c.KEY_EDIF), Or(curE == c.null, curE == el), BoolVal(True)))
            out.append(('C10', 'refuses-iff-another-element-owns-the-key', val[1] == want if val[0] == 'bool' else BoolVal(False)))
        if fname == 'lookup':
            ety, key, value = args[1][1], args[2][1], args[3][1]
            tykey = spec.sv(ety)
            want = If(key == c.KEY_NAME, tab(spec, h0, self_, tykey, spec.sv(value)),
                      If(And(BoolVal(edif_cls), key == c.KEY_EDIF), tab(spec, h0, self_, tykey, spec.sv(spec.lowerf(value)), True), c.null))
            out.append(('C10', 'returns-the-table-entry', (val[1] == want) if val[0] == 'ref' else BoolVal(False)))
        if fname in ('update', 'remove'):
            el, key = args[1][1], args[2][1]
            ty = spec.tyobj(c.cls(el))
            hadN = h0['dhas'][el][c.KEY_NAME]; oldN = spec.sv(h0['dval'][el][c.KEY_NAME])
            hadE = h0['dhas'][el][c.KEY_EDIF]; oldE = spec.sv(spec.lowerf(h0['dval'][el][c.KEY_EDIF]))
            if fname == 'update':
                value = args[3][1]
                newN = spec.sv(value); newE = spec.sv(spec.lowerf(value))
                expN = lambda N_, T_, k_: If(And(key == c.KEY_NAME, N_ == self_, T_ == ty, k_ == newN), el,
                                            If(And(key == c.KEY_NAME, N_ == self_, T_ == ty, hadN, k_ == oldN), c.null, tab(spec, h0, N_, T_, k_)))
                expE = lambda N_, T_, k_: If(And(BoolVal(edif_cls), key == c.KEY_EDIF, N_ == self_, T_ == ty, k_ == newE), el,
                                            If(And(BoolVal(edif_cls), key == c.KEY_EDIF, N_ == self_, T_ == ty, hadE, k_ == oldE), c.null,
                                               tab(spec, h0, N_, T_, k_, True)))
            else:
                expN = lambda N_, T_, k_: If(And(key == c.KEY_NAME, N_ == self_, T_ == ty, hadN, k_ == oldN), c.null, tab(spec, h0, N_, T_, k_))
                expE = lambda N_, T_, k_: If(And(BoolVal(edif_cls), key == c.KEY_EDIF, N_ == self_, T_ == ty, hadE, k_ == oldE), c.null,
                                            tab(spec, h0, N_, T_, k_, True))
            out.append(('C10', 'name-table', ForAll([N, T, k], Implies(isNS0(N), tab(spec, h, N, T, k) == expN(N, T, k)), patterns=tab_patterns(h, h0, N, T, k))))
            out.append(('C10', 'identifier-table', ForAll([N, T, k], Implies(And(isNS0(N), c.isa(N, 'EdifNamespace')), tab(spec, h, N, T, k, True) == expE(N, T, k)),
                                                          patterns=tab_patterns(h, h0, N, T, k, True))))
        return out
    return f


# ------------------------------------------------------------------ manager level: the hooks of NamespaceManager
def parent_of(c, h, el):
    """NamespaceManager.get_parent"""
    return If(c.isa(el, 'Library'), h['_netlist'][el], If(c.isa(el, 'Definition'), h['_library'][el],
           If(c.isa(el, 'Port', 'Cable'), h['_definition'][el], If(c.isa(el, 'Instance'), h['_parent'][el], c.null))))


def same_policy(c, spec, h, a, b):
    return And(h['dhas'][a][c.KEY_NS] == h['dhas'][b][c.KEY_NS],
               Implies(h['dhas'][a][c.KEY_NS], spec.sv(h['dval'][a][c.KEY_NS]) == spec.sv(h['dval'][b][c.KEY_NS])))


def arg_pre(ctx, spec, h0, qual, args):
    """preconditions that mention arguments"""
    c = ctx
    if qual == 'NamespaceManager.add' or any(qual == 'NamespaceManager.' + w % 'add' for w, _, _ in WRAPPERS):
        # switching the policy of a subtree (apply_namespace / drop_namespace / is_compliant work-lists) is outside this contract:
        # parent and child carry the same policy, as they do whenever both were created under one process-wide default
        par, ch = args[1][1], args[2][1]
        return [Implies(par != c.null, same_policy(c, spec, h0, par, ch))]
    if qual == 'NamespaceManager.dictionary_set':
        # an element's '.NS' entry names a registered policy (dictionary_set('.NS', v) refuses any other v; that branch is bounded only)
        el = args[1][1]; pn = spec.policy_names(None)
        v = spec.sv(h0['dval'][el][c.KEY_NS])
        return [Implies(h0['dhas'][el][c.KEY_NS], Or(v == spec.sv(pn['EDIF']), v == spec.sv(pn['DEFAULT'])))]
    return []


def mpost(fname):
    def f(ctx, spec, h0, s, ekind, args, val):
        c = ctx; h = s.heap; M = spec.nsmap()
        N, T, k = Const('Nq_p', c.Ref), Const('Tq_p', c.Ref), Const('kq_p', c.Ref)
        isNS0 = lambda n: And(h0['alloc'][n], c.isa(n, *NS_CLASSES))
        def tables(expN, expE, tag=''):
            return [('C10', 'name-table' + tag, ForAll([N, T, k], Implies(isNS0(N), tab(spec, h, N, T, k) == expN(N, T, k)), patterns=tab_patterns(h, h0, N, T, k))),
                    ('C10', 'identifier-table' + tag, ForAll([N, T, k], Implies(And(isNS0(N), c.isa(N, 'EdifNamespace')), tab(spec, h, N, T, k, True) == expE(N, T, k)),
                                                      patterns=tab_patterns(h, h0, N, T, k, True)))]
        oldN = lambda N_, T_, k_: tab(spec, h0, N_, T_, k_)
        oldE = lambda N_, T_, k_: tab(spec, h0, N_, T_, k_, True)
        common = [('C10', 'manager-map-untouched', And(h['dk'][M] == h0['dk'][M], h['dv'][M] == h0['dv'][M], h['g_par'] == h0['g_par']))]
        common += [('C10', 'preserved.' + nm_, g_) for nm_, g_ in separation(c, spec, h, named=True)]
        common += frame_clauses(c, h0, h)
        unchanged = tables(oldN, oldE, '.unchanged')
        refuse = lambda: [('C10', 'does-not-raise-%s' % ekind, BoolVal(False))]
        name_of = lambda e: spec.sv(h0['dval'][e][c.KEY_NAME])
        id_of = lambda e: spec.sv(spec.lowerf(h0['dval'][e][c.KEY_EDIF]))
        hadN = lambda e: h0['dhas'][e][c.KEY_NAME]
        hadE = lambda e: h0['dhas'][e][c.KEY_EDIF]
        def scope(P):
            """(is there a table for this parent, the policy object, is it an EDIF one)"""
            Np = h0['dv'][M][P]
            return And(P != c.null, h0['dk'][M][P]), Np, c.isa(Np, 'EdifNamespace')
        if fname == 'lookup':
            if ekind != 'normal': return refuse()
            P, ety, key, value = args[1][1], args[2][1], args[3][1], args[4][1]
            act, Np, ed = scope(P)
            want = If(act, If(key == c.KEY_NAME, oldN(Np, spec.sv(ety), spec.sv(value)),
                              If(And(ed, key == c.KEY_EDIF), oldE(Np, spec.sv(ety), spec.sv(spec.lowerf(value))), c.null)), c.null)
            return common + unchanged + [('C10', 'returns-the-table-entry-of-the-parent', (val[1] == want) if val[0] == 'ref' else BoolVal(False))]
        if fname in ('remove', 'dictionary_delete', 'dictionary_pop'):
            # never refuses; afterwards the element's current name / identifier no longer leads to it in its parent's tables, and
            # nothing else moved
            if ekind != 'normal': return refuse()
            el = args[1][1]; keyv = args[2]
            if fname == 'remove' and args[3][1] is not c.null and not (args[3][1].eq(c.null)):
                P = args[3][1]
            else:
                P = parent_of(c, h0, el)
            act, Np, ed = scope(P)
            ty = spec.tyobj(c.cls(el))
            if keyv[0] == 'key':
                doN, doE = keyv[1] == c.KEY_NAME, keyv[1] == c.KEY_EDIF
            else:
                doN = doE = BoolVal(True)
            expN = lambda N_, T_, k_: If(And(act, doN, N_ == Np, T_ == ty, hadN(el), k_ == name_of(el)), c.null, oldN(N_, T_, k_))
            expE = lambda N_, T_, k_: If(And(act, ed, doE, N_ == Np, T_ == ty, hadE(el), k_ == id_of(el)), c.null, oldE(N_, T_, k_))
            return common + tables(expN, expE)
        if fname == 'add':
            P, el = args[1][1], args[2][1]
            act, Np, ed = scope(P)
            ty = spec.tyobj(c.cls(el))
            curN = oldN(Np, ty, name_of(el)); curE = oldE(Np, ty, id_of(el))
            conflict = And(act, Or(And(hadN(el), curN != c.null, curN != el), And(ed, hadE(el), curE != c.null, curE != el)))
            if ekind == 'ValueError':
                return common + unchanged + [('C10', 'refused-only-for-a-sibling-that-owns-the-key', conflict)]
            if ekind != 'normal': return refuse()
            expN = lambda N_, T_, k_: If(And(act, N_ == Np, T_ == ty, hadN(el), k_ == name_of(el)), el, oldN(N_, T_, k_))
            expE = lambda N_, T_, k_: If(And(act, ed, N_ == Np, T_ == ty, hadE(el), k_ == id_of(el)), el, oldE(N_, T_, k_))
            return common + tables(expN, expE) + [('C10', 'accepted-only-without-conflict', Not(conflict))]
        if fname == 'dictionary_set':
            el, key, value = args[1][1], args[2][1], args[3][1]
            P = parent_of(c, h0, el)
            act, Np, ed = scope(P)
            ty = spec.tyobj(c.cls(el))
            newN = spec.sv(value); newE = spec.sv(spec.lowerf(value))
            curN = oldN(Np, ty, newN); curE = oldE(Np, ty, newE)
            conflict = And(act, Or(And(key == c.KEY_NAME, curN != c.null, curN != el), And(ed, key == c.KEY_EDIF, curE != c.null, curE != el)))
            pn = spec.policy_names(None)
            illegal = And(key == c.KEY_EDIF, h0['dhas'][el][c.KEY_NS], spec.sv(h0['dval'][el][c.KEY_NS]) == spec.sv(pn['EDIF']), Not(spec.legal_id(value)))
            if ekind == 'ValueError':
                return common + unchanged + [('C10', 'refused-only-for-a-duplicate-or-an-illegal-identifier', Or(conflict, illegal))]
            if ekind != 'normal': return refuse()
            expN = lambda N_, T_, k_: If(And(act, key == c.KEY_NAME, N_ == Np, T_ == ty, k_ == newN), el,
                                        If(And(act, key == c.KEY_NAME, N_ == Np, T_ == ty, hadN(el), k_ == name_of(el)), c.null, oldN(N_, T_, k_)))
            expE = lambda N_, T_, k_: If(And(act, ed, key == c.KEY_EDIF, N_ == Np, T_ == ty, k_ == newE), el,
                                        If(And(act, ed, key == c.KEY_EDIF, N_ == Np, T_ == ty, hadE(el), k_ == id_of(el)), c.null, oldE(N_, T_, k_)))
            return common + tables(expN, expE) + [('C10', 'accepted-only-without-conflict-and-legal', Not(Or(conflict, illegal)))]
        return []
    return f


def wpost(kind):
    """hook(parent, child) == add(parent, child) / remove(child, parent=parent)"""
    def f(ctx, spec, h0, s, ekind, args, val):
        if kind == 'add': return mpost('add')(ctx, spec, h0, s, ekind, args, val)
        return mpost('remove')(ctx, spec, h0, s, ekind, [args[0], args[2], R(ctx.null), args[1]], val)
    return f


POSTS = {'%s.%s' % (f[0], f[1]): (post(f[0], f[1]) if f[0] != 'NamespaceManager' else mpost(f[1])) for f in FUNCTIONS}
for _w, _pc, _cc in WRAPPERS:
    for _k in ('add', 'remove'):
        POSTS['NamespaceManager.' + _w % _k] = wpost(_k)


# ------------------------------------------------------------------ lemmas over the hook contracts (no code involved)
EL_CLASSES = ('Library', 'Definition', 'Port', 'Cable', 'Instance')


def inv_ns(c, spec, h, AP, ahas, aval, named=True):
    """the tables agree with a scan: relative to the ANNOUNCED parent AP[e] and the announced data (ahas, aval) of every element.
    A: every entry leads to a child of that parent carrying that name / identifier; B: every named child is found under its name."""
    M = spec.nsmap()
    P, T, k, e = (Const(n, c.Ref) for n in ('Pq_i', 'Tq_i', 'kq_i', 'eq_i'))
    isEl = lambda x: And(h['alloc'][x], c.isa(x, *EL_CLASSES))
    out = []
    for edif in (False, True):
        KEY = c.KEY_EDIF if edif else c.KEY_NAME
        keyv = (lambda x: spec.sv(spec.lowerf(aval[x][KEY]))) if edif else (lambda x: spec.sv(aval[x][KEY]))
        N = h['dv'][M][P]
        ent = tab(spec, h, N, T, k, edif)
        scope = And(h['dk'][M][P], c.isa(N, 'EdifNamespace')) if edif else h['dk'][M][P]
        tag = 'identifiers' if edif else 'names'
        out.append(('entries-are-children.' + tag, ForAll([P, T, k], Implies(And(scope, ent != c.null),
                    And(isEl(ent), AP[ent] == P, T == spec.tyobj(c.cls(ent)), ahas[ent][KEY], keyv(ent) == k)),
                    patterns=[h['dv'][h['dv'][h['f_edif' if edif else 'f_namespaces'][N]][T]][k]])))
        Ne = h['dv'][M][AP[e]]
        scope_e = And(h['dk'][M][AP[e]], c.isa(Ne, 'EdifNamespace')) if edif else h['dk'][M][AP[e]]
        out.append(('children-are-entries.' + tag, ForAll([e], Implies(And(c.isa(e, *EL_CLASSES), AP[e] != c.null, scope_e, ahas[e][KEY]),
                    tab(spec, h, Ne, spec.tyobj(c.cls(e)), keyv(e), edif) == e), patterns=[AP[e]])))
    return out if named else [g for _, g in out]


def lemmas(ctx, spec):
    """[(name, hypotheses, goal)]: each hook, used through its contract, carries inv_ns from the state before an announcement to the
    state after it; a refusal happens exactly for a real duplicate among the (announced) siblings or an illegal identifier."""
    from z3 import ArraySort
    c = ctx
    h0 = c.mk_heap('0')
    AP = Const('AP', ArraySort(c.Ref, c.Ref))
    ahas = h0['dhas']; aval = h0['dval']          # announced data = actual data at the time of a hook call (obligation at the announcement)
    M = spec.nsmap()
    class _S: pass
    def after():
        h1 = dict(h0)
        for f_ in HAVOCKED: h1[f_] = c.fresh(f_ + '_lem', h0[f_].sort())
        s_ = _S(); s_.heap = h1
        return h1, s_
    def contract(fname, ekind, args, val=None):
        h1, s_ = after()
        cl = mpost(fname)(c, spec, h0, s_, ekind, [None] + args, val)
        return h1, [g for _, nm, g in cl]
    isEl = lambda x: And(h0['alloc'][x], c.isa(x, *EL_CLASSES))
    base = separation(c, spec, h0) + inv_ns(c, spec, h0, AP, ahas, aval, named=False)
    x, P, value = Const('x_el', c.Ref), Const('P_par', c.Ref), Const('value', c.Ref)
    key = Const('key', c.Key)
    tyx = spec.tyobj(c.cls(x))
    out = []
    def goals(tag, hyps, h1, AP1, ahas1, aval1):
        for nm, g in inv_ns(c, spec, h1, AP1, ahas1, aval1):
            out.append(('C10/LEMMA/%s/%s' % (tag, nm), hyps, g))
    e = Const('e_sib', c.Ref)
    def sibling_dup(Pp, name_has, name_val, id_has, id_val, ed):
        """a scan of the announced children of Pp finds another element of the same type with that name (or, EDIF, that identifier)"""
        same_n = And(name_has, h0['dhas'][e][c.KEY_NAME], spec.sv(h0['dval'][e][c.KEY_NAME]) == name_val)
        same_i = And(ed, id_has, h0['dhas'][e][c.KEY_EDIF], spec.sv(spec.lowerf(h0['dval'][e][c.KEY_EDIF])) == id_val)
        return Exists([e], And(isEl(e), e != x, AP[e] == Pp, c.cls(e) == c.cls(x), Or(same_n, same_i)))
    # ---- add(P, x)
    pre = base + [isEl(x), h0['alloc'][P], c.isa(P, 'Netlist', 'Library', 'Definition'), AP[x] == c.null] + arg_pre(c, spec, h0, 'NamespaceManager.add', [None, R(P), R(x)])
    h1, cl = contract('add', 'normal', [R(P), R(x)])
    goals('add.accepted', pre + cl, h1, Store(AP, x, P), ahas, aval)
    h1, cl = contract('add', 'ValueError', [R(P), R(x)])
    goals('add.refused', pre + cl, h1, AP, ahas, aval)
    Np = h0['dv'][M][P]; act = h0['dk'][M][P]; ed = c.isa(Np, 'EdifNamespace')
    dup = And(act, sibling_dup(P, h0['dhas'][x][c.KEY_NAME], spec.sv(h0['dval'][x][c.KEY_NAME]),
                               h0['dhas'][x][c.KEY_EDIF], spec.sv(spec.lowerf(h0['dval'][x][c.KEY_EDIF])), ed))
    out.append(('C10/LEMMA/add.refused/only-for-a-real-duplicate-among-the-siblings', pre + cl, dup))
    h1, cl = contract('add', 'normal', [R(P), R(x)])
    out.append(('C10/LEMMA/add.accepted/no-duplicate-among-the-siblings', pre + cl, Not(dup)))
    # ---- remove(x, parent=P)  /  remove(x, key)
    pre = base + [isEl(x), h0['alloc'][P], c.isa(P, 'Netlist', 'Library', 'Definition'), AP[x] == P]
    h1, cl = contract('remove', 'normal', [R(x), R(c.null), R(P)])
    goals('remove', pre + cl, h1, Store(AP, x, c.null), ahas, aval)
    # ---- dictionary_set(x, key, value): the announced parent is the actual one (obligation at the announcement)
    Px = parent_of(c, h0, x)
    pre = base + [isEl(x), AP[x] == Px, key != c.KEY_NS, c.cls(value) == c.C['Foreign'], h0['alloc'][value]] \
        + arg_pre(c, spec, h0, 'NamespaceManager.dictionary_set', [None, R(x)])
    ahas1 = Store(ahas, x, Store(ahas[x], key, True)); aval1 = Store(aval, x, Store(aval[x], key, value))
    h1, cl = contract('dictionary_set', 'normal', [R(x), ('key', key), R(value)])
    goals('dictionary_set.accepted', pre + cl, h1, AP, ahas1, aval1)
    h1, clr = contract('dictionary_set', 'ValueError', [R(x), ('key', key), R(value)])
    goals('dictionary_set.refused', pre + clr, h1, AP, ahas, aval)
    Np = h0['dv'][M][Px]; act = And(Px != c.null, h0['dk'][M][Px]); ed = c.isa(Np, 'EdifNamespace')
    pn = spec.policy_names(None)
    illegal = And(key == c.KEY_EDIF, h0['dhas'][x][c.KEY_NS], spec.sv(h0['dval'][x][c.KEY_NS]) == spec.sv(pn['EDIF']), Not(spec.legal_id(value)))
    dup = And(act, sibling_dup(Px, key == c.KEY_NAME, spec.sv(value), key == c.KEY_EDIF, spec.sv(spec.lowerf(value)), ed))
    out.append(('C10/LEMMA/dictionary_set.refused/only-for-a-real-duplicate-or-an-illegal-identifier', pre + clr, Or(dup, illegal)))
    out.append(('C10/LEMMA/dictionary_set.accepted/no-duplicate-and-legal', pre + cl, Not(Or(dup, illegal))))
    # ---- dictionary_delete / dictionary_pop (x, key)
    for fn_ in ('dictionary_delete', 'dictionary_pop'):
        pre = base + [isEl(x), AP[x] == Px, key != c.KEY_NS]
        h1, cl = contract(fn_, 'normal', [R(x), ('key', key)])
        goals(fn_, pre + cl, h1, AP, Store(ahas, x, Store(ahas[x], key, False)), aval)
    # ---- consequence: sibling names are unique
    a, b = Const('a_el', c.Ref), Const('b_el', c.Ref)
    for edif in (False, True):
        KEY = c.KEY_EDIF if edif else c.KEY_NAME
        kv = (lambda y: spec.sv(spec.lowerf(aval[y][KEY]))) if edif else (lambda y: spec.sv(aval[y][KEY]))
        Na = h0['dv'][M][AP[a]]
        sc = And(h0['dk'][M][AP[a]], c.isa(Na, 'EdifNamespace')) if edif else h0['dk'][M][AP[a]]
        out.append(('C10/LEMMA/invariant/sibling-%s-are-unique' % ('identifiers' if edif else 'names'), base + [isEl(a), isEl(b)],
                    Implies(And(AP[a] != c.null, AP[a] == AP[b], c.cls(a) == c.cls(b), sc, ahas[a][KEY], ahas[b][KEY], kv(a) == kv(b)), a == b)))
    # ---- refinement: the abstract table model of the history-level proof (specs/irns.py: hook_effect) follows from the hook contracts
    #      NT[P][cls][k] = tab(namespaces[P], type object of cls, k)  for every parent P with tables; likewise the identifier tables of
    #      EDIF parents; nhas[P] = (P in namespaces); ned(P) = namespaces[P] is an EdifNamespace
    from specs.irns import hook_effect
    TAB = ArraySort(c.Ref, ArraySort(c.Cls, ArraySort(c.Ref, c.Ref)))
    NT0, NTE0 = Const('NT0', TAB), Const('NTE0', TAB)
    class _F: pass
    F = _F(); F.sv = spec.sv; F.lowerf = spec.lowerf
    F.ned = lambda P_: c.isa(h0['dv'][M][P_], 'EdifNamespace')
    nhas = h0['dk'][M]
    Pq, Tq, kq = Const('Pq_rf', c.Ref), Const('Tq_rf', c.Cls), Const('kq_rf', c.Ref)
    def refines(h, NT, NTE):
        return [ForAll([Pq, Tq, kq], Implies(h['dk'][M][Pq], NT[Pq][Tq][kq] == tab(spec, h, h['dv'][M][Pq], spec.tyobj(Tq), kq)), patterns=[NT[Pq][Tq][kq]]),
                ForAll([Pq, Tq, kq], Implies(And(h['dk'][M][Pq], c.isa(h['dv'][M][Pq], 'EdifNamespace')),
                                             NTE[Pq][Tq][kq] == tab(spec, h, h['dv'][M][Pq], spec.tyobj(Tq), kq, True)), patterns=[NTE[Pq][Tq][kq]])]
    def refinement(tag, kind, fname, ekind_args, P_, x_, key_, val_, pre):
        h1, cl = contract(fname, 'normal', ekind_args)
        assume, nt1, nte1 = hook_effect(c, F, kind, NT0, NTE0, nhas, h0['dhas'], h0['dval'], P_, x_, key_, val_)
        NT1, NTE1 = Const('NT1', TAB), Const('NTE1', TAB)
        hyps = separation(c, spec, h0) + refines(h0, NT0, NTE0) + pre + cl + [NT1 == nt1, NTE1 == nte1]
        out.append(('C10/LEMMA/refinement.%s/acceptance-implies-what-the-model-assumes' % tag, hyps, assume))
        for nm, g in zip(('names', 'identifiers'), refines(h1, NT1, NTE1)):
            out.append(('C10/LEMMA/refinement.%s/tables-follow-the-contract.%s' % (tag, nm), hyps, g))
    pre_el = [isEl(x), h0['alloc'][P], c.isa(P, 'Netlist', 'Library', 'Definition')]
    refinement('add', 'add', 'add', [R(P), R(x)], P, x, None, None, pre_el + arg_pre(c, spec, h0, 'NamespaceManager.add', [None, R(P), R(x)]))
    refinement('remove', 'remove', 'remove', [R(x), R(c.null), R(P)], P, x, None, None, pre_el)
    pre_d = [isEl(x), key != c.KEY_NS, c.cls(value) == c.C['Foreign'], h0['alloc'][value]]
    refinement('dictionary_set', 'dictionary_set', 'dictionary_set', [R(x), ('key', key), R(value)], Px, x, key, value,
               pre_d + arg_pre(c, spec, h0, 'NamespaceManager.dictionary_set', [None, R(x)]))
    refinement('dictionary_delete', 'dictionary_delete', 'dictionary_delete', [R(x), ('key', key)], Px, x, key, None, [isEl(x), key != c.KEY_NS])
    refinement('dictionary_pop', 'dictionary_pop', 'dictionary_pop', [R(x), ('key', key)], Px, x, key, None, [isEl(x), key != c.KEY_NS])
    # vacuity: the hypotheses of each family are satisfiable is checked by the runner (a lemma whose hypotheses are contradictory is reported)
    return out
