"""Contract for the index the Verilog composer writes for a wire (spydrnet/composers/verilog/composer.py, C04):

    Composer._index_of_wire_in_cable(wire)  ==  position of the wire in its cable's wire list  +  the cable's lower_index

for every wire that belongs to a cable (Inv: it is listed there exactly once), never None and never raising; a wire without a cable
makes it raise AttributeError (callers only pass wires of cables).  The loop walks the list by position with a counter; it is cut at
the invariant "counter == position and the wire is at none of the positions passed"."""
from z3 import And, Or, Not, Implies, If, Const, ForAll, BoolVal, Int
from specs.ir import IRSpec, loop_spec
from pyvc.se import R, B, I, Unsupported

FILES = {'Composer': 'spydrnet/composers/verilog/composer.py'}
FUNCTIONS = [('Composer', '_index_of_wire_in_cable', 'method', [('wire', 'is:Wire')])]
POSITIONAL = {('Composer', '_index_of_wire_in_cable', 'method')}


class VComposerSpec(IRSpec):
    int_slots = True

    def __init__(self, ctx, ct):
        super().__init__(ctx, ct, listener='stock', check_cover=False)


def extra_pre(ctx, spec, h0):
    c = ctx
    x = Const('xq_li', c.Ref)
    # documented type of Bundle.lower_index: an int (the setter of cables / ports is only ever given ints by the readers and the API docs)
    return [ForAll([x], Implies(c.isa(x, 'Cable', 'Port'), h0['_lower_index'][x] == c.boxint(c.intval(h0['_lower_index'][x]))), patterns=[h0['_lower_index'][x]])]


@loop_spec('Composer._index_of_wire_in_cable', 0, 'plist', [], {'index': 'int'})
def _inv_index(lv):
    c = lv.ctx; h = lv.h
    wire = lv.env['wire'][1]; L = lv.dom[1]
    j = Int('jq_iw')
    # the position counter of the hand-written form; with `for k, w in enumerate(...)` the position is the loop target itself
    counter = [('C04', 'counter-is-position', lv.cur['index'][1] == lv.i)] if 'index' in lv.cur and lv.cur['index'][0] == 'int' else []
    return counter + [
            ('C04', 'not-found-so-far', ForAll([j], Implies(And(0 <= j, j < lv.i), c.at(L, j) != wire), patterns=[c.at(L, j)]))]


def post(ctx, spec, h0, s, ekind, args, val):
    c = ctx; h = s.heap; wire = args[1][1]
    cab = h0['_cable'][wire]
    out = [('C04', 'netlist-untouched', And([h[f_] == h0[f_] for f_ in h0 if f_ in h and not (h[f_] is h0[f_])] or [BoolVal(True)]))]
    if ekind == 'AttributeError':
        return out + [('C04', 'raises-only-for-a-wire-without-cable', cab == c.null)]
    if ekind != 'normal':
        return out + [('C04', 'does-not-raise-%s' % ekind, BoolVal(False))]
    if val is None or val[0] != 'int':
        # `return None` after the loop: only for a wire that its cable does not list (which Inv excludes)
        L = h0['_wires'][cab]
        return out + [('C04', 'returns-None-only-for-an-unlisted-wire', Or(c.cnt(L, wire) == 0, c.idx(L, wire) < 0)),
                      # ... and Inv (I1) lists every wire of a cable exactly once, so this exit is unreachable (the goal is absurd: it holds only if the path is)
                      ('C04', 'never-None-for-a-wire-of-a-cable', And(c.idx(L, wire) < 0, c.cnt(L, wire) == 1))]
    out.append(('C04', 'returns-position-plus-lower-index', val[1] == c.idx(h0['_wires'][cab], wire) + c.intval(h0['_lower_index'][cab])))
    return out


POSTS = {'Composer._index_of_wire_in_cable': post}
