"""Contract for the decision step of uniquify (spydrnet/uniquify.py, C08): which instances the work-list leaves alone.

    _is_unique(instance)  ==  the instance's definition is instantiated exactly once, or it is a leaf (no children and no cables)

for every instance with a definition, in every heap satisfying Inv; it writes nothing and does not raise.  "Instantiated exactly once"
is the cardinality of the definition's reference set (the set I3 ties to the instances pointing at it).  This is the test under
"afterwards every non-leaf definition below the top is instantiated exactly once": an instance for which it answers False is given a
definition of its own by _make_instance_unique (clone, rename, re-point), which -- like the work-list itself -- is covered by the bounded
tier only."""
from z3 import And, Or, Not, BoolVal
from specs.ir import IRSpec

MODULE_FUNCTIONS = {'uniquify': 'spydrnet/uniquify.py'}
FUNCTIONS = [('uniquify', '_is_unique', 'static', [('instance', 'is:Instance')]), ('Instance', 'is_unique', 'method', [])]


class UniqSpec(IRSpec):
    def __init__(self, ctx, ct):
        super().__init__(ctx, ct, listener='stock', check_cover=False)


def arg_pre(ctx, spec, h0, qual, args):
    """uniquify walks instances reached through children lists: each has a definition"""
    return [h0['_reference'][args[0][1]] != ctx.null]


def post(ctx, spec, h0, s, ekind, args, val):
    c = ctx; h = s.heap; inst = args[0][1]
    if ekind != 'normal':
        return [('C08', 'does-not-raise', BoolVal(False))]
    out = [('C08', 'netlist-untouched', And([h[f_] == h0[f_] for f_ in h0 if f_ in h and not (h[f_] is h0[f_])] or [BoolVal(True)]))]
    d = h0['_reference'][inst]
    once = c.card(h0['_references'][d]) == 1
    leaf = And(c.len(h0['_children'][d]) == 0, c.len(h0['_cables'][d]) == 0)
    if val is None or val[0] != 'bool':
        return out + [('C08', 'returns-a-bool', BoolVal(False))]
    out.append(('C08', 'true-iff-instantiated-once-or-leaf', val[1] == Or(once, leaf)))
    return out


POSTS = {'uniquify._is_unique': post, 'Instance.is_unique': post}
