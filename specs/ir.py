"""Contracts for spydrnet/ir (sidecar; nothing is written into /repo):
representation invariant Inv = T (typing/closedness) + I1 (containment) + I2 (pin-wire) + I3 (mirror) + I4,
listener models, ghost announcement state for C19, frame obligations for C14, loop-invariant registry.

Obligation names: <prop>/<function>/<where>/<clause>
"""
import ast
from z3 import (And, Or, Not, Implies, If, Store, Select, IntVal, BoolVal, Const, ForAll, Exists, BoolSort, ArraySort, IntSort, K,
                is_true, is_false, MultiPattern)
from pyvc.logic import FIELDS, IR_CLASSES, FIRST_CLASS, CLASSES
from pyvc.se import Unsupported, R, B, I, St

# containment relations: (container class, list field, element class, parent field, add kind, remove kind)
REL = [
    ('Netlist', '_libraries', 'Library', '_netlist', 'netlist_add_library', 'netlist_remove_library'),
    ('Library', '_definitions', 'Definition', '_library', 'library_add_definition', 'library_remove_definition'),
    ('Definition', '_ports', 'Port', '_definition', 'definition_add_port', 'definition_remove_port'),
    ('Definition', '_cables', 'Cable', '_definition', 'definition_add_cable', 'definition_remove_cable'),
    ('Definition', '_children', 'Instance', '_parent', 'definition_add_child', 'definition_remove_child'),
    ('Port', '_pins', 'InnerPin', '_port', 'port_add_pin', 'port_remove_pin'),
    ('Cable', '_wires', 'Wire', '_cable', 'cable_add_wire', 'cable_remove_wire'),
]
# "function-like" mirrored attributes and the ghost (touched, last) pair that records the latest announcement
# attribute id -> description
ATTRS = ['par:' + r[1] for r in REL] + ['wire', 'ref', 'top']
KIND2ATTR = {}
for _r in REL:
    KIND2ATTR[_r[4]] = ('par:' + _r[1], 'add'); KIND2ATTR[_r[5]] = ('par:' + _r[1], 'remove')
NS_ATTRS = ['par:' + r[1] for r in REL[:5]]      # the containment relations that are naming scopes
VETO_KINDS = {'netlist_add_library', 'library_add_definition', 'definition_add_port', 'definition_add_cable',
              'definition_add_child', 'dictionary_set'}
NS_WRITERS = VETO_KINDS | {'netlist_remove_library', 'library_remove_definition', 'definition_remove_port',
                           'definition_remove_cable', 'definition_remove_child', 'dictionary_delete', 'dictionary_pop',
                           'create_netlist', 'create_library', 'create_definition', 'create_port', 'create_cable', 'create_instance'}
REF_TARGET = {'_netlist': ['Netlist'], '_library': ['Library'], '_definition': ['Definition'], '_parent': ['Definition'],
              '_port': ['Port'], '_cable': ['Cable'], '_wire': ['Wire'], '_reference': ['Definition'], '_top_instance': ['Instance']}
WELL_TYPED_EXITS = ('normal', 'AssertionError', 'ValueError', 'RuntimeError', 'KeyError')   # 'ValueError@hook' is a veto: exempt from B2


def mk_ghost(ctx, tag='0'):
    R_ = ctx.Ref
    g = {}
    for a in ATTRS:
        g['t:' + a] = Const('touched_%s%s' % (a, tag), ArraySort(R_, BoolSort()))
        g['l:' + a] = Const('last_%s%s' % (a, tag), ArraySort(R_, R_))
    g['t:data'] = Const('touched_data' + tag, ArraySort(R_, ArraySort(ctx.Key, BoolSort())))
    g['lh:data'] = Const('lasthas_data' + tag, ArraySort(R_, ArraySort(ctx.Key, BoolSort())))
    g['lv:data'] = Const('lastval_data' + tag, ArraySort(R_, ArraySort(ctx.Key, R_)))
    return g


class Inv:
    """Builds the clauses of the representation invariant over a heap dict."""
    def __init__(self, ctx):
        self.c = ctx

    def isC(self, h, x, *classes):
        return And(h['alloc'][x], self.c.isa(x, *classes))

    def stored(self, h, o):
        c = self.c
        i = h['_instance'][o]; q = h['_inner_pin'][o]
        return And(self.isC(h, o, 'OuterPin'), self.isC(h, i, 'Instance'), h['okeys'][i][q], h['ovals'][i][q] == o)

    def realpin(self, h, p):
        return Or(self.isC(h, p, 'InnerPin'), self.stored(h, p))

    def clauses(self, h, hyp=False):
        c = self.c; cls = c.cls; cnt = c.cnt; A = h['alloc']; isC = lambda x, *k: self.isC(h, x, *k)
        out = []
        fa = c.forall
        if hyp:
            # consequences of I1 + T stated with the parent pointer as trigger (E-matching cannot invent the cnt term)
            for (C_, lf, E_, pf, _a, _r) in REL:
                out.append(('C01', 'I1up.' + lf, fa(['e'], lambda e, C_=C_, lf=lf, E_=E_, pf=pf:
                            Implies(And(isC(e, E_), h[pf][e] != c.null), cnt(h[lf][h[pf][e]], e) == 1), lambda e, pf=pf: h[pf][e])))
        out.append(('C01', 'T.null', And(A[c.null], A[c.pyTrue], A[c.pyFalse])))
        # typing + closedness of reference fields
        for f, targets in REF_TARGET.items():
            owners = FIELDS[f][0]
            out.append(('C01', 'T' + f, fa(['x'], lambda x, f=f, owners=owners, targets=targets:
                        Implies(isC(x, *owners), Or(h[f][x] == c.null, isC(h[f][x], *targets))), lambda x, f=f: h[f][x])))
        for f in ('_instance', '_inner_pin'):
            # documented argument types of OuterPin(instance, inner_pin): neither is itself an OuterPin
            out.append(('C01', 'T' + f, fa(['x'], lambda x, f=f: Implies(isC(x, 'OuterPin'), And(A[h[f][x]], Not(c.isa(h[f][x], 'OuterPin')))),
                                           lambda x, f=f: h[f][x])))
        # I1: containment, one clause per relation
        for (C_, lf, E_, pf, _a, _r) in REL:
            out.append(('C01', 'I1.' + lf, fa(['k', 'e'], lambda k, e, C_=C_, lf=lf, E_=E_, pf=pf:
                        Implies(isC(k, C_), cnt(h[lf][k], e) == If(And(isC(e, E_), h[pf][e] == k), 1, 0)),
                        lambda k, e, lf=lf: cnt(h[lf][k], e))))
        # I2: pin-wire
        out.append(('C01', 'I2.listed', fa(['w', 'p'], lambda w, p: Implies(And(isC(w, 'Wire'), cnt(h['_pins'][w], p) > 0),
                    And(cnt(h['_pins'][w], p) == 1, h['_wire'][p] == w, self.realpin(h, p))), lambda w, p: cnt(h['_pins'][w], p))))
        out.append(('C01', 'I2.reports', fa(['w', 'p'], lambda w, p: Implies(And(isC(w, 'Wire'), self.realpin(h, p), h['_wire'][p] == w),
                    cnt(h['_pins'][w], p) == 1), lambda w, p: cnt(h['_pins'][w], p))))
        # I3: mirror
        out.append(('C02', 'I3.refsets', fa(['d', 'i'], lambda d, i: Implies(isC(d, 'Definition'),
                    h['_references'][d][i] == And(isC(i, 'Instance'), h['_reference'][i] == d)), lambda d, i: h['_references'][d][i])))
        out.append(('C02', 'I3.keys', fa(['i', 'q'], lambda i, q: Implies(isC(i, 'Instance'),
                    h['okeys'][i][q] == And(h['_reference'][i] != c.null, isC(q, 'InnerPin'), h['_port'][q] != c.null,
                                            h['_definition'][h['_port'][q]] == h['_reference'][i])), lambda i, q: h['okeys'][i][q])))
        out.append(('C02', 'I3.values', fa(['i', 'q'], lambda i, q: Implies(And(isC(i, 'Instance'), h['okeys'][i][q]),
                    And(isC(h['ovals'][i][q], 'OuterPin'), h['_instance'][h['ovals'][i][q]] == i,
                        h['_inner_pin'][h['ovals'][i][q]] == q)), lambda i, q: h['ovals'][i][q])))
        out.append(('C02', 'I4', fa(['o'], lambda o: Implies(And(isC(o, 'OuterPin'), h['_instance'][o] == c.null), h['_wire'][o] == c.null),
                    lambda o: h['_instance'][o])))
        return out

    def frame(self, h0, h):
        """C14: every field of every pre-existing object is what it was (term equality: order included)."""
        c = self.c; out = []
        for f, (_, kind) in FIELDS.items():
            if kind in ('ref', 'val', 'list', 'set'):
                out.append(('frame.' + f, c.forall(['x'], lambda x, f=f: Implies(h0['alloc'][x], h[f][x] == h0[f][x]), lambda x, f=f: h[f][x])))
        out.append(('frame._opins.keys', c.forall(['x', 'q'], lambda x, q: Implies(h0['alloc'][x], h['okeys'][x][q] == h0['okeys'][x][q]),
                                                  lambda x, q: h['okeys'][x][q])))
        out.append(('frame._opins.values', c.forall(['x', 'q'], lambda x, q: Implies(And(h0['alloc'][x], h0['okeys'][x][q]),
                                                    h['ovals'][x][q] == h0['ovals'][x][q]), lambda x, q: h['ovals'][x][q])))
        out.append(('frame._data.keys', c.forall(['x', 'k'], lambda x, k: Implies(h0['alloc'][x], h['dhas'][x][k] == h0['dhas'][x][k]),
                                                 lambda x, k: h['dhas'][x][k], sorts=[c.Ref, c.Key])))
        out.append(('frame._data.values', c.forall(['x', 'k'], lambda x, k: Implies(And(h0['alloc'][x], h0['dhas'][x][k]),
                                                   h['dval'][x][k] == h0['dval'][x][k]), lambda x, k: h['dval'][x][k], sorts=[c.Ref, c.Key])))
        out.append(('frame.name-tables', c.forall(['x'], lambda x: Implies(h0['alloc'][x], h['ns'][x] == h0['ns'][x]), lambda x: h['ns'][x])))
        out.append(('frame.policy', h['nsdefault'] == h0['nsdefault']))
        return out


class LoopSpec:
    def __init__(self, shape, modifies, inv, locals_=None, note=''):
        self.shape, self.modifies, self.inv, self.locals, self.note = shape, modifies, inv, locals_ or {}, note


class LoopView:
    pass


LOOPS = {}     # (qualname, ordinal) -> LoopSpec


def _properties_loop_inv(lv):
    """`for key in properties: self[key] = properties[key]` in a constructor: only the new object's data (and its announcement ghost)
    change; every key handled so far is stored with the dictionary's value, announced before it was stored; no name table moves
    (the object has no parent yet)"""
    c = lv.ctx; h, hl = lv.h, lv.hl
    r = lv.env['self'][1]; pval = lv.dom[2]
    out = []
    x = Const('xq_pl', c.Ref); k = Const('kq_pl', c.Key)
    for f in ('dhas', 'dval', 't:data', 'lh:data', 'lv:data'):
        out.append(('C14', 'properties-loop.others-untouched.' + f, ForAll([x], Implies(x != r, h[f][x] == hl[f][x]), patterns=[h[f][x]])))
    out.append(('C14', 'properties-loop.name-tables-untouched', h['ns'] == hl['ns']))
    out.append(('C19', 'properties-loop.own-data-as-announced', ForAll([k], Implies(h['t:data'][r][k],
                And(h['dhas'][r][k] == h['lh:data'][r][k], Implies(h['lh:data'][r][k], h['dval'][r][k] == h['lv:data'][r][k]))), patterns=[h['t:data'][r][k]])))
    out.append(('C19', 'properties-loop.handled-keys-stored', ForAll([k], Implies(lv.seen[k], And(h['dhas'][r][k], h['dval'][r][k] == pval[k])), patterns=[lv.seen[k]])))
    out.append(('C14', 'properties-loop.policy-entry-untouched', And(h['dhas'][r][c.KEY_NS] == hl['dhas'][r][c.KEY_NS], h['dval'][r][c.KEY_NS] == hl['dval'][r][c.KEY_NS])))
    return out


PROPERTIES_LOOP = LoopSpec('keys', ['dhas', 'dval', 't:data', 'lh:data', 'lv:data', 'ns'], _properties_loop_inv)


def loop_spec(qual, ordinal, shape, modifies, locals_=None):
    def deco(fn):
        LOOPS[(qual, ordinal)] = LoopSpec(shape, modifies, fn, locals_)
        return fn
    return deco


GHOST_FIELDS = None


class IRSpec:
    """Model plug-in of the executor for spydrnet/ir."""
    def __init__(self, ctx, ct, listener='stock', check_cover=True):
        self.ctx, self.ct = ctx, ct
        self.inv = Inv(ctx)
        self.keys = {'.NAME': ctx.KEY_NAME, '.NS': ctx.KEY_NS, 'EDIF.identifier': ctx.KEY_EDIF}
        self.listener = listener
        self.check_cover = check_cover
        self.h0 = None

    # ---------------------------------------------------------------- names
    def key_const(self, se, s):
        if s not in self.keys:
            k = Const('key_%d' % len(self.keys), self.ctx.Key)
            for o in self.keys.values(): self.ctx.axioms.append(k != o)
            self.keys[s] = k
        return self.keys[s]

    def global_name(self, se, st, name):
        if name in IR_CLASSES or name in ('InnerPinExtended', 'OuterPinExtended', 'InstanceExtended', 'ExtendedWire', 'CableExtended',
                                          'PortExtended', 'DefinitionExtended', 'NetlistExtended'):
            return ('class', name.replace('Extended', ''))
        if name in ('global_callback', 'sys', 'sdn'): return ('module', name)
        if name in ('set', 'list', 'dict', 'int', 'str', 'bool'): return ('class', name)
        return None

    def exc_matches(self, kind, tname):
        if tname in ('Exception', 'BaseException'): return True
        return kind.split('@')[0] == tname

    # ---------------------------------------------------------------- allocation
    def new_object(self, se, st, cname):
        c = self.ctx
        r = c.fresh('new' + cname, c.Ref)
        st.pc += [Not(st.heap['alloc'][r]), c.cls(r) == c.C[cname], r != c.null]
        st.heap['alloc'] = Store(st.heap['alloc'], r, True)
        st.fresh.append(r)
        return r

    def is_fresh(self, st, r):
        """syntactic: r is one of the objects allocated on this path"""
        return any(r.eq(f) for f in st.fresh)

    # ---------------------------------------------------------------- special calls
    def special_call(self, se, st, e, fname, cont):
        c = self.ctx
        if fname == 'isinstance':
            target = ast.unparse(e.args[1])
            def k(s, v):
                if target.startswith('('):
                    names = [x.strip() for x in target.strip('()').split(',') if x.strip()]
                else:
                    names = [target]
                names = [n_[3:] if n_.startswith('ir.') else n_ for n_ in names]        # `from spydrnet import ir` ... ir.Instance
                if v[0] != 'ref':
                    table = {'set': ['set'], 'int': ['int', 'bool'], 'str': ['str'], 'dict': ['dict_empty', 'pdict', 'memo']}
                    return cont(s, B(BoolVal(any(v[0] in table.get(n, []) for n in names))))
                ir = [n for n in names if n in IR_CLASSES or (n in c.C and n not in ('NoneType', 'Foreign'))]
                if any(n == 'self.Direction' for n in names):
                    return cont(s, B(BoolVal(False)))
                return cont(s, B(c.isa(v[1], *ir) if ir else BoolVal(False)))
            return se.ev(st, e.args[0], k)
        if fname.startswith('global_callback._call_') or fname.startswith('_call_'):
            kind = fname.split('_call_', 1)[1]
            return se.evs(st, e.args, lambda s, args: self.callback(se, s, kind, args, cont))
        if fname in ('ListView', 'SetView', 'DictView'):
            def k(s, v):
                if v[0] in ('list', 'set'): return cont(s, (v[0], v[1], None) if v[0] == 'list' else (v[0], v[1], None))
                return cont(s, v)
            return se.ev(st, e.args[0], k)
        if fname == 'OuterPinsView':
            return se.ev(st, e.args[0], lambda s, v: cont(s, ('pinsview', v[1])))
        if fname == 'super':
            fr = st.frames[-1]
            return cont(st, ('super', st.env['self'][1], fr.fi.cls))
        if fname == 'OrderedDict' and not e.args:
            if getattr(self, 'memo_dicts', False):
                return se.ev(st, ast.Dict(keys=[], values=[]), cont)       # an object-keyed local dictionary (or the initial Instance._pins)
            return cont(st, ('odict_new',))
        if fname == 'id':
            return se.ev(st, e.args[0], lambda s, v: cont(s, ('id', v[1])) if v[0] == 'ref' else se._unsup('id of %s' % v[0]))
        if fname == 'set' and e.args and isinstance(e.args[0], ast.GeneratorExp):
            g = e.args[0]
            gen = g.generators[0]
            if (len(g.generators) == 1 and not gen.ifs and isinstance(g.elt, ast.Call) and ast.unparse(g.elt.func) == 'id'
                    and isinstance(g.elt.args[0], ast.Name) and isinstance(gen.target, ast.Name) and g.elt.args[0].id == gen.target.id):
                def k(s, v):
                    if v[0] != 'list': raise Unsupported('set(id(x) for x in %s)' % v[0])
                    return cont(s, ('idset', v[1]))
                return se.ev(st, gen.iter, k)
            raise Unsupported('set(<generator>) shape')
        if fname == 'set':
            if not e.args: return cont(st, ('set', K(c.Ref, False), None))
            return se.ev(st, e.args[0], lambda s, v: self.to_set(se, s, v, cont))
        if fname == 'list':
            a = e.args[0]
            if isinstance(a, ast.GeneratorExp): return self.list_genexp(se, st, a, cont)
            return se.ev(st, a, lambda s, v: self.to_list(se, s, v, cont))
        if fname in ('all', 'any') and isinstance(e.args[0], ast.GeneratorExp):
            return self.quant_genexp(se, st, e.args[0], fname == 'all', cont)
        if fname in ('min', 'max') and len(e.args) == 2 and not e.keywords:
            def k(s, vs):
                a, b = vs
                if a[0] != 'int' or b[0] != 'int': raise Unsupported('%s of %s,%s' % (fname, a[0], b[0]))
                return cont(s, I(If(a[1] <= b[1], a[1], b[1]) if fname == 'min' else If(a[1] >= b[1], a[1], b[1])))
            return se.evs(st, e.args, k)
        if fname == 'len':
            def k(s, v):
                if v[0] == 'list': return cont(s, I(c.len(v[1])))
                if v[0] == 'set': return cont(s, I(c.card(v[1])))
                if v[0] == 'ref': return se.exit(s, 'TypeError')
                raise Unsupported('len of %s' % v[0])
            return se.ev(st, e.args[0], k)
        if fname == 'range':
            def k(s, v):
                if v[0] == 'int': return cont(s, ('range', v[1]))
                return se.exit(s, 'TypeError')
            return se.ev(st, e.args[0], k)
        if fname == 'enumerate' and len(e.args) == 1 and not e.keywords:
            def k(s, v):
                if v[0] != 'list': raise Unsupported('enumerate of %s' % v[0])
                return cont(s, ('enumerate', v))
            return se.ev(st, e.args[0], k)
        if fname == 'zip':
            return se.evs(st, e.args, lambda s, vs: cont(s, ('zip', vs[0], vs[1])))
        if fname == 'iter':
            return se.ev(st, e.args[0], cont)
        if fname == 'sys.intern':
            def k(s, v):
                if v[0] in ('key', 'str'): return cont(s, v)
                return se.exit(s, 'TypeError')
            return se.ev(st, e.args[0], k)
        if fname == 'type' and len(e.args) == 1:
            return se.ev(st, e.args[0], lambda s, v: cont(s, ('type', v[1]) if v[0] == 'ref' else ('str', '?')))
        if fname in ('str', 'repr'):
            return cont(st, ('str', '?'))
        if fname in ('deepcopy', 'copy'):
            # values of the abstract domain are immutable; a copied list must not alias the slot it was read from
            return se.ev(st, e.args[0], lambda s, v: cont(s, ('list', v[1], None) if v[0] == 'list' else (('datacopy', v[1]) if v[0] == 'data' else v)))
        if fname == 'bool':
            return se.ev(st, e.args[0], lambda s, v: cont(s, B(se.truth(s, v))))
        if fname == 'OuterPin.from_instance_and_inner_pin' or fname == 'OuterPinExtended':
            fname = 'OuterPin'
        base = fname.replace('Extended', '') if fname.endswith('Extended') else ('Wire' if fname == 'ExtendedWire' else fname)
        if base in IR_CLASSES:
            def k(s, args):
                def k2(s2, kwv):
                    kw = dict(zip([x.arg for x in e.keywords], kwv))
                    r = self.new_object(se, s2, base)
                    init = self.ct.find(base, '__init__', 'method')
                    if init is None: return cont(s2, R(r))
                    se.call_fn(s2, init, [R(r)] + args, lambda s3, _v: cont(s3, R(r)), kw)
                se.evs(s, [x.value for x in e.keywords], k2)
            return se.evs(st, e.args, k)
        if fname.endswith('.format') or fname.startswith('logger.') or fname == 'print':
            return cont(st, ('str', '?'))
        if fname.endswith('.lower') or fname.endswith('.upper'):
            return cont(st, ('opaque', 'str'))
        return NotImplemented

    def to_set(self, se, st, v, cont):
        """set(x): members = one representative per ==-class of the elements (hash/eq semantics)"""
        c = self.ctx
        if v[0] == 'set': return cont(st, ('set', v[1], None))
        if v[0] == 'list':
            L = v[1]
            M = c.fresh('setof', c.SetS)
            x = Const('xq_ts', c.Ref); y = Const('yq_ts', c.Ref)
            E = se.emem(st, M)
            st.pc.append(ForAll([x], Implies(M[x], c.cnt(L, x) > 0), patterns=[M[x]]))
            st.pc.append(ForAll([x], Implies(c.cnt(L, x) > 0, E[x]), patterns=[c.cnt(L, x)]))
            st.pc.append(ForAll([x, y], Implies(And(M[x], M[y], x != y), Not(se.eq(st, x, y))), patterns=[MultiPattern(M[x], M[y])]))
            # len(list) == len(set)  <=>  the list has no two ==-equal positions
            nodup = And(ForAll([x], c.cnt(L, x) <= 1, patterns=[c.cnt(L, x)]),
                        ForAll([x, y], Implies(And(c.cnt(L, x) > 0, c.cnt(L, y) > 0, x != y), Not(se.eq(st, x, y))),
                               patterns=[MultiPattern(c.cnt(L, x), c.cnt(L, y))]))
            st.pc.append((c.len(L) == c.card(M)) == nodup)
            st.pc.append(c.card(M) <= c.len(L)); st.pc.append(c.card(M) >= 0)
            # unhashable members would raise TypeError before anything else happens
            sT = st.fork()
            if self.listener and se.sat(sT): pass
            return cont(st, ('set', M, None))
        if v[0] == 'ref':
            # not iterable (IR elements other than data-carrying ones, None, foreign scalars)
            return se.exit(st, 'TypeError')
        if v[0] in ('int', 'bool'): return se.exit(st, 'TypeError')
        raise Unsupported('set(%s)' % v[0])

    def to_list(self, se, st, v, cont):
        c = self.ctx
        if v[0] == 'list': return cont(st, ('list', v[1], None))
        if v[0] == 'set':
            t, facts = c.L_of_set(v[1]); st.pc += facts
            return cont(st, ('list', t, None))
        if v[0] in ('ref', 'int', 'bool'): return se.exit(st, 'TypeError')
        raise Unsupported('list(%s)' % v[0])

    def list_genexp(self, se, st, g, cont):
        """list(x for x in L if x not in S)"""
        c = self.ctx
        gen = g.generators[0]
        if len(g.generators) != 1 or len(gen.ifs) != 1 or not isinstance(g.elt, ast.Name) or g.elt.id != gen.target.id:
            raise Unsupported('generator expression shape')
        cond = gen.ifs[0]
        if not (isinstance(cond, ast.Compare) and isinstance(cond.ops[0], (ast.NotIn, ast.In)) and isinstance(cond.left, ast.Name)
                and cond.left.id == gen.target.id):
            raise Unsupported('generator filter shape')
        neg = isinstance(cond.ops[0], ast.NotIn)
        def k1(s, L):
            if L[0] != 'list': raise Unsupported('generator over %s' % L[0])
            def k2(s2, S):
                if S[0] == 'set': mem = lambda y: se.memeq(s2, S[1], y)
                elif S[0] == 'list': mem = lambda y: se.list_contains_eq(s2, S[1], y)
                else: raise Unsupported('filter against %s' % S[0])
                t, facts = c.L_filter(L[1], (lambda y: Not(mem(y))) if neg else mem); s2.pc += facts
                cont(s2, ('list', t, None))
            se.ev(s, cond.comparators[0], k2)
        return se.ev(st, gen.iter, k1)

    def quant_genexp(self, se, st, g, universal, cont):
        """all(<elt> for x in S) / over zip: evaluate elt once on a fresh element and re-quantify by substitution"""
        from z3 import substitute
        c = self.ctx
        gen = g.generators[0]
        if len(g.generators) != 1 or gen.ifs: raise Unsupported('generator expression shape')
        def k(s, dom):
            base = len(s.pc)
            gmark = self.fresh_mark()
            if dom[0] in ('set', 'list'):
                el = c.fresh('el', c.Ref)
                member = (dom[1][el]) if dom[0] == 'set' else (c.cnt(dom[1], el) > 0)
                binders = [el]
                def bind(s_in): s_in.env[gen.target.id] = R(el)
            elif dom[0] == 'zip':
                a, b = dom[1], dom[2]
                if a[0] != 'list' or b[0] != 'list': raise Unsupported('zip of %s,%s' % (a[0], b[0]))
                j = c.fresh('j', IntSort())
                member = And(j >= 0, j < c.len(a[1]), j < c.len(b[1]))
                binders = [j]
                ea, eb = c.at(a[1], j), c.at(b[1], j)
                def bind(s_in):
                    s_in.pc += [c.cnt(a[1], ea) > 0, c.cnt(b[1], eb) > 0]
                    if not (isinstance(gen.target, ast.Tuple) and len(gen.target.elts) == 2): raise Unsupported('zip target')
                    s_in.env[gen.target.elts[0].id] = R(ea); s_in.env[gen.target.elts[1].id] = R(eb)
            else:
                raise Unsupported('all/any over %s' % dom[0])
            from pyvc.se import SE
            sub = SE(c, se.ct, self, se.sat_timeout, se.max_depth)
            s_in = s.fork(); s_in.env = dict(s.env); s_in.handlers = []
            s_in.pc.append(member); bind(s_in)
            base = len(s_in.pc)
            normals = []
            sub.ev(s_in, g.elt, lambda s2, v: normals.append((list(s2.pc[base:]), sub.truth(s2, v), list(s2.pc[base:]))))
            se.obligations += sub.obligations
            # note: truth() may append to pc after we sliced; re-slice
            excs = [(list(s_.pc[base:]), kind) for s_, kind, _ in sub.outcomes]
            def conj(fs): return And(fs) if fs else BoolVal(True)
            okT = Or([And(conj(pcx), t) for pcx, t, _ in normals]) if normals else BoolVal(False)
            okF = Or([And(conj(pcx), Not(t)) for pcx, t, _ in normals]) if normals else BoolVal(False)
            exc = Or([conj(pcx) for pcx, _ in excs]) if excs else BoolVal(False)
            def quant(body, univ):
                qv = [Const('q_%s' % b, b.sort()) for b in binders]
                bd = substitute(body, *zip(binders, qv))
                return ForAll(qv, bd) if univ else Exists(qv, bd)
            okT, okF, exc = (self.close_fresh(x_, gmark, keep=binders) for x_ in (okT, okF, exc))
            if excs:
                sE = s.fork(); sE.pc.append(quant(And(member, exc), False))
                if se.sat(sE): se.exit(sE, excs[0][1])
            noexc = quant(Implies(member, Not(exc)), True) if excs else BoolVal(True)
            if universal:
                sT = s.fork(); sT.pc += [noexc, quant(Implies(member, okT), True)]
                if se.sat(sT): cont(sT, B(BoolVal(True)))
                sF = s.fork(); sF.pc += [quant(And(member, okF), False)]
                if se.sat(sF): cont(sF, B(BoolVal(False)))
            else:
                sT = s.fork(); sT.pc += [quant(And(member, okT), False)]
                if se.sat(sT): cont(sT, B(BoolVal(True)))
                sF = s.fork(); sF.pc += [noexc, quant(Implies(member, okF), True)]
                if se.sat(sF): cont(sF, B(BoolVal(False)))
        return se.ev(st, gen.iter, k)

    value_equality = False

    def veq(self, a, b):
        from z3 import Function
        if not hasattr(self, '_veq'):
            c = self.ctx
            self._veq = Function('veq', c.Ref, c.Ref, BoolSort())
            x, y, z = Const('xq_v', c.Ref), Const('yq_v', c.Ref), Const('zq_v', c.Ref)
            c.axioms += [ForAll([x], self._veq(x, x), patterns=[self._veq(x, x)]),
                         ForAll([x, y], self._veq(x, y) == self._veq(y, x), patterns=[self._veq(x, y)]),
                         ForAll([x, y, z], Implies(And(self._veq(x, y), self._veq(y, z)), self._veq(x, z)),
                                patterns=[MultiPattern(self._veq(x, y), self._veq(y, z))])]
        return self._veq(a, b)

    def string_method(self, se, st, recv, name, args):
        from z3 import Function
        c = self.ctx
        if not hasattr(self, '_smeth'): self._smeth = {}
        key = (name, tuple(a[1] if a[0] == 'str' else '?' for a in args))
        if name in ('startswith', 'endswith'):
            f = self._smeth.setdefault(key, Function('str_%s_%d' % (name, len(self._smeth)), c.Ref, BoolSort()))
            return B(f(recv[1]))
        f = self._smeth.setdefault(key, Function('str_%s_%d' % (name, len(self._smeth)), c.Ref, c.Ref))
        r = f(recv[1])
        st.pc.append(c.cls(r) == c.C['Foreign'])
        return R(r)

    def contract_for(self, se, st, fi):
        """modular call: constructors of the data-carrying classes are used through their (separately proved) contract
        when they are called from another function under verification"""
        if fi.name == '__init__' and fi.cls in CTOR_CONTRACT and len(st.frames) >= 1:
            return self.ctor_contract
        return None

    def ctor_contract(self, se, st, fi, args, kw, cont):
        """Contract of <Class>.__init__ (obligations 'ctor.*' of POSTS prove it against the real body):
        the fresh object gets null/empty structural fields, arbitrary scalars and data, its own name table;
        nothing else changes; exits: normal, ValueError@hook (naming rules), TypeError (Port direction)."""
        c = self.ctx; h = st.heap; r = args[0][1]; cls_ = fi.cls
        for f, (owners, kind) in FIELDS.items():
            if cls_ not in owners: continue
            if kind == 'ref': h[f] = Store(h[f], r, c.null)
            elif kind == 'list':
                t, facts = c.L_empty(); st.pc += facts; h[f] = Store(h[f], r, t)
            elif kind == 'set': h[f] = Store(h[f], r, K(c.Ref, False))
            elif kind == 'val': h[f] = Store(h[f], r, c.fresh('scalar', c.Ref))
        if cls_ == 'Instance': h['okeys'] = Store(h['okeys'], r, K(c.Ref, False))
        dh = c.fresh('dh', h['dhas'][r].sort()); dv = c.fresh('dv', h['dval'][r].sort())
        h['dhas'] = Store(h['dhas'], r, dh); h['dval'] = Store(h['dval'], r, dv)
        h['ns'] = Store(h['ns'], r, c.fresh('nsv', h['ns'].sort().range()))
        td = c.fresh('td', h['t:data'][r].sort()); lh = c.fresh('lh', h['lh:data'][r].sort()); lvv = c.fresh('lv', h['lv:data'][r].sort())
        k = Const('kq_ct', c.Key)
        st.pc.append(ForAll([k], Implies(td[k], And(dh[k] == lh[k], Implies(lh[k], dv[k] == lvv[k]))), patterns=[td[k]]))
        h['t:data'] = Store(h['t:data'], r, td); h['lh:data'] = Store(h['lh:data'], r, lh); h['lv:data'] = Store(h['lv:data'], r, lvv)
        is_none = lambda v: v[0] == 'ref' and v[1].eq(c.null)
        given = list(args[1:]) + list(kw.values())
        exits = []
        if any(not is_none(v) for v in given): exits.append('ValueError@hook')      # only naming/data arguments can be refused
        if cls_ == 'Port' and (len(args) > 6 and not is_none(args[6]) or ('direction' in kw and not is_none(kw['direction']))):
            exits.append('TypeError')
        for kind_ in exits:
            sv = st.fork(); se.exit(sv, kind_)
        cont(st, se.none())

    # ---------------------------------------------------------------- callbacks (listener models + ghost announcements)
    def callback(self, se, st, kind, args, cont):
        c = self.ctx; h = st.heap
        a = args[0]
        # ghost: record the latest announcement
        if kind in KIND2ATTR:
            attr, what = KIND2ATTR[kind]
            par, x = a[1], args[1]
            if x[0] == 'ref':
                # a remove announcement for an element whose announced/current parent is `par` clears it
                cur = If(h['t:' + attr][x[1]], h['l:' + attr][x[1]], self.cur_parent(h, attr, x[1]))
                if self.check_cover and attr in NS_ATTRS:
                    # C10 (composition with the name-table contracts, specs/ns.py lemmas): what the hook is told must describe the element
                    # as announced so far -- an addition concerns an element without parent, a removal names its current parent, and
                    # the element's name / identifier are not in the middle of an announced-but-unwritten change
                    fq = st.frames[0].fi.qual if st.frames else '?'
                    se.oblige(st, 'C10/%s/announcement/%s' % (fq, 'addition-of-a-parentless-element' if what == 'add' else 'removal-from-the-current-parent'),
                              cur == (c.null if what == 'add' else par))
                    se.oblige(st, 'C10/%s/announcement/element-data-committed' % fq, self.data_committed(h, x[1], (c.KEY_NAME, c.KEY_EDIF)))
                newlast = par if what == 'add' else se.name_term(st, If(cur == par, c.null, cur))
                h['l:' + attr] = Store(h['l:' + attr], x[1], newlast)
                h['t:' + attr] = Store(h['t:' + attr], x[1], True)
        elif kind in ('wire_connect_pin', 'wire_disconnect_pin'):
            w, p = a[1], args[1]
            if p[0] == 'ref':
                # the subject of the announcement is the real pin: an inner pin, or the outer pin stored under p's key
                isop = c.isa(p[1], 'OuterPin')
                inst, q = h['_instance'][p[1]], h['_inner_pin'][p[1]]
                subj = se.name_term(st, If(isop, h['ovals'][inst][q], p[1]))
                valid = se.name_term(st, If(isop, And(c.isa(inst, 'Instance'), h['okeys'][inst][q]), BoolVal(True)))
                cur = If(h['t:wire'][subj], h['l:wire'][subj], h['_wire'][subj])
                if kind == 'wire_connect_pin':
                    newlast = se.name_term(st, If(valid, w, h['l:wire'][subj]))
                else:
                    newlast = se.name_term(st, If(valid, If(cur == w, c.null, cur), h['l:wire'][subj]))
                newt = se.name_term(st, If(valid, BoolVal(True), h['t:wire'][subj]))
                h['l:wire'] = Store(h['l:wire'], subj, newlast)
                h['t:wire'] = Store(h['t:wire'], subj, newt)
        elif kind == 'instance_reference':
            i, v = a[1], args[1]
            if v[0] == 'ref':
                h['l:ref'] = Store(h['l:ref'], i, v[1]); h['t:ref'] = Store(h['t:ref'], i, True)
        elif kind == 'netlist_top_instance':
            n, v = a[1], args[1]
            if v[0] == 'ref':
                h['l:top'] = Store(h['l:top'], n, v[1]); h['t:top'] = Store(h['t:top'], n, True)
        elif kind in ('dictionary_set', 'dictionary_delete', 'dictionary_pop'):
            e_ = a[1]; k_ = se.to_key(st, args[1])
            if self.check_cover:
                fq = st.frames[0].fi.qual if st.frames else '?'
                se.oblige(st, 'C10/%s/announcement/element-parent-committed' % fq,
                          And([Implies(And(c.isa(e_, r[2]), h['t:par:' + r[1]][e_]), h['l:par:' + r[1]][e_] == h[r[3]][e_]) for r in REL[:5]]))
                se.oblige(st, 'C10/%s/announcement/element-data-committed' % fq, self.data_committed(h, e_, (k_,)))
            h['t:data'] = Store(h['t:data'], e_, Store(h['t:data'][e_], k_, True))
            if kind == 'dictionary_set':
                h['lh:data'] = Store(h['lh:data'], e_, Store(h['lh:data'][e_], k_, True))
                h['lv:data'] = Store(h['lv:data'], e_, Store(h['lv:data'][e_], k_, se.as_ref(st, args[2])))
            else:
                h['lh:data'] = Store(h['lh:data'], e_, Store(h['lh:data'][e_], k_, False))
        # exits: an arbitrary observer may veto (C19 model); the stock listener may refuse by ValueError (C01/C02/C14 model)
        if self.listener in ('both', 'observers') and not kind.startswith('create_'):
            sv = st.fork(); se.exit(sv, 'ListenerVeto')
        parent_of = lambda e_: se.name_term(st, If(c.isa(e_, 'Library'), h['_netlist'][e_], If(c.isa(e_, 'Definition'), h['_library'][e_],
                          If(c.isa(e_, 'Port', 'Cable'), h['_definition'][e_], If(c.isa(e_, 'Instance'), h['_parent'][e_], c.null)))))
        Pd = parent_of(a[1]) if kind.startswith('dictionary_') else None      # named before any fork so every fork knows its definition
        if kind in VETO_KINDS:
            # stock hook contract (NamespaceManager): an add is refused on a naming conflict in the parent's table; a data edit is
            # refused for an illegal identifier, or for a name/identifier conflict when the element has a parent
            sv = st.fork()
            if kind == 'dictionary_set':
                kk = se.to_key(st, args[1])
                sv.pc.append(Or(kk == c.KEY_EDIF, And(kk == c.KEY_NAME, Pd != c.null)))
                if se.sat(sv, strong=True): se.exit(sv, 'ValueError@hook')
            else:
                se.exit(sv, 'ValueError@hook')
        if kind in NS_WRITERS:
            NsS = h['ns'].sort().range()
            newv = c.fresh('nsv', NsS)
            if kind.startswith('create_'):
                P = a[1]; val = newv
            elif kind.startswith('dictionary_'):
                e_ = a[1]
                P = Pd
                k_ = se.to_key(st, args[1])
                touches = And(P != c.null, Or(k_ == c.KEY_NAME, k_ == c.KEY_EDIF))
                if kind != 'dictionary_set': touches = And(touches, h['dhas'][e_][k_])
                val = se.name_term(st, If(touches, newv, h['ns'][P]))
            else:
                P = a[1]; val = newv
            st.heap['ns'] = Store(h['ns'], P, val)
        if kind.startswith('create_'):
            # stock hook: element['.NS'] = default (through the real __setitem__, which announces dictionary_set)
            e_ = a[1]
            h['dhas'] = Store(h['dhas'], e_, Store(h['dhas'][e_], c.KEY_NS, True))
            h['dval'] = Store(h['dval'], e_, Store(h['dval'][e_], c.KEY_NS, h['nsdefault']))
        if kind in ('netlist_add_library', 'library_add_definition', 'definition_add_port', 'definition_add_cable', 'definition_add_child'):
            # stock hook `add`: the child adopts (or drops) the parent's '.NS' through the real __setitem__/__delitem__
            ch = args[1]
            if ch[0] == 'ref':
                nh = c.fresh('ns_has', BoolSort()); nv = c.fresh('ns_val', c.Ref)
                h['dhas'] = Store(h['dhas'], ch[1], Store(h['dhas'][ch[1]], c.KEY_NS, nh))
                h['dval'] = Store(h['dval'], ch[1], Store(h['dval'][ch[1]], c.KEY_NS, nv))
                # announced like any data edit
                h['t:data'] = Store(h['t:data'], ch[1], Store(h['t:data'][ch[1]], c.KEY_NS, True))
                h['lh:data'] = Store(h['lh:data'], ch[1], Store(h['lh:data'][ch[1]], c.KEY_NS, nh))
                h['lv:data'] = Store(h['lv:data'], ch[1], Store(h['lv:data'][ch[1]], c.KEY_NS, nv))
        cont(st, se.none())

    def data_committed(self, h, x, keys):
        return And([Implies(h['t:data'][x][k], And(h['dhas'][x][k] == h['lh:data'][x][k], Implies(h['lh:data'][x][k], h['dval'][x][k] == h['lv:data'][x][k])))
                    for k in keys])

    def cur_parent(self, h, attr, x):
        for r in REL:
            if 'par:' + r[1] == attr: return h[r[3]][x]
        raise KeyError(attr)

    # ---------------------------------------------------------------- C19 (A): cover-before-write
    def _cover(self, se, st, name, goal):
        if not self.check_cover: return
        fq = st.frames[0].fi.qual if st.frames else '?'
        se.oblige(st, 'C19/%s/cover-before-write/%s' % (fq, name), goal)

    def on_store(self, se, st, field, owner, old, new):
        c = self.ctx; h = st.heap
        if self.is_fresh(st, owner) and field not in ('_references',):
            # constructor initialisation of an object created on this path: defaults need no announcement
            if new is None or (hasattr(new, 'eq') and new.eq(c.null)): return
        par = {r[3]: 'par:' + r[1] for r in REL}
        if field in par or field == '_definition':
            # Port and Cable share `_definition`
            if field == '_definition':
                goal = Or(And(c.isa(owner, 'Port'), h['t:par:_ports'][owner], h['l:par:_ports'][owner] == new),
                          And(c.isa(owner, 'Cable'), h['t:par:_cables'][owner], h['l:par:_cables'][owner] == new))
            else:
                a = par[field]
                goal = And(h['t:' + a][owner], h['l:' + a][owner] == new)
            if self.is_fresh(st, owner): goal = Or(goal, new == c.null)
            return self._cover(se, st, field, goal)
        if field == '_wire':
            # only real pins (inner pins, stored outer pins) are part of the mirrored state; a look-alike OuterPin is not
            return self._cover(se, st, field, Implies(self.inv.realpin(h, owner), And(h['t:wire'][owner], h['l:wire'][owner] == new)))
        if field == '_reference':
            return self._cover(se, st, field, And(h['t:ref'][owner], h['l:ref'][owner] == new))
        if field == '_top_instance':
            return self._cover(se, st, field, And(h['t:top'][owner], Or(h['l:top'][owner] == new,
                               And(c.isa(h['l:top'][owner], 'Definition'), h['_reference'][new] == h['l:top'][owner]))))
        if field in ('_instance', '_inner_pin'):
            # outer-pin bookkeeping: implied by a reference / port / pin announcement concerning the instance or the inner pin
            if self.is_fresh(st, owner): return
            # an outer pin whose instance was already cleared is in the middle of a detachment that has been checked at that store
            return self._cover(se, st, field, Or(h['_instance'][owner] == c.null,
                               self.opin_cover(st, h['_instance'][owner], h['_inner_pin'][owner], new if field == '_inner_pin' else None)))
        if field == 'okeys':
            return self._cover(se, st, '_pins.clear', h['t:ref'][owner])
        return  # scalar bundle attributes and is_top_instance are unwatched by design (no callback exists)

    def opin_cover(self, st, inst, q, q2=None):
        h = st.heap; c = self.ctx
        def pin_touched(p):
            return Or(h['t:par:_pins'][p], h['t:par:_ports'][h['_port'][p]])
        g = Or(h['t:ref'][inst], pin_touched(q))
        if q2 is not None: g = Or(g, pin_touched(q2))
        return g

    def on_okey(self, se, st, inst, q, present):
        self._cover(se, st, '_pins[%s]' % ('set' if present else 'del'), self.opin_cover(st, inst, q))

    def on_set_store(self, se, st, field, owner, x, present):
        h = st.heap
        if field == '_references':
            # leaving a reference set needs an announcement about that instance's reference (re-pointing to the same definition
            # leaves and re-enters the set); entering needs the announced reference to be this definition
            goal = And(h['t:ref'][x], h['l:ref'][x] == owner) if present else h['t:ref'][x]
            return self._cover(se, st, '_references.%s' % ('add' if present else 'remove'), goal)

    def rel_of_list(self, field, owner_cls=None):
        for r in REL:
            if r[1] == field and (owner_cls is None or r[0] == owner_cls): return r
        return None

    def on_list_store(self, se, st, field, owner, old, new, added, removed):
        c = self.ctx; h = st.heap
        if field == '_pins':
            # Port._pins (inner pins, parent attr) or Wire._pins (connections)
            x = added if added is not None else removed
            want = owner if added is not None else None
            port_goal = And(h['t:par:_pins'][x], (h['l:par:_pins'][x] == owner) if added is not None else (h['l:par:_pins'][x] != owner))
            wire_goal = And(h['t:wire'][x], (h['l:wire'][x] == owner) if added is not None else (h['l:wire'][x] != owner))
            goal = Or(And(c.isa(owner, 'Port'), port_goal), And(c.isa(owner, 'Wire'), wire_goal))
            return self._cover(se, st, '_pins.%s' % ('add' if added is not None else 'remove'), goal)
        r = self.rel_of_list(field)
        if r is None: return
        a = 'par:' + field
        x = added if added is not None else removed
        goal = And(h['t:' + a][x], (h['l:' + a][x] == owner) if added is not None else (h['l:' + a][x] != owner))
        self._cover(se, st, '%s.%s' % (field, 'add' if added is not None else 'remove'), goal)

    def on_list_assign(self, se, st, field, owner, old, new):
        """whole-list assignment: every multiplicity change must be announced"""
        c = self.ctx; h = st.heap
        if self.is_fresh(st, owner): return
        y = Const('yq_la', c.Ref)
        if field == '_pins':
            up = Or(And(c.isa(owner, 'Port'), h['t:par:_pins'][y], h['l:par:_pins'][y] == owner),
                    And(c.isa(owner, 'Wire'), h['t:wire'][y], h['l:wire'][y] == owner))
            down = Or(And(c.isa(owner, 'Port'), h['t:par:_pins'][y], h['l:par:_pins'][y] != owner),
                      And(c.isa(owner, 'Wire'), h['t:wire'][y], h['l:wire'][y] != owner))
        else:
            a = 'par:' + field
            up = And(h['t:' + a][y], h['l:' + a][y] == owner)
            down = And(h['t:' + a][y], h['l:' + a][y] != owner)
        goal = ForAll([y], And(Implies(c.cnt(new, y) > c.cnt(old, y), up), Implies(c.cnt(new, y) < c.cnt(old, y), down)),
                      patterns=[c.cnt(new, y)])
        self._cover(se, st, '%s.assign' % field, goal)

    def on_data_store(self, se, st, e, k, v, present):
        h = st.heap
        if self.is_fresh(st, e) and False: return
        goal = And(h['t:data'][e][k], h['lh:data'][e][k] == BoolVal(present))
        if present: goal = And(goal, h['lv:data'][e][k] == v)
        self._cover(se, st, '_data[%s]' % ('set' if present else 'del'), goal)

    def on_data_update(self, se, st, e, ph, pv):
        h = st.heap; k = Const('kq_cov', self.ctx.Key)
        self._cover(se, st, '_data.update', ForAll([k], Implies(ph[k], And(h['t:data'][e][k], h['lh:data'][e][k], h['lv:data'][e][k] == pv[k]))))

    # ---------------------------------------------------------------- C19 (B2): nothing announced in vain
    def in_vain(self, h):
        c = self.ctx; out = []
        for r in REL:
            a = 'par:' + r[1]; pf = r[3]; E_ = r[2]
            out.append(('in-vain.' + r[1], c.forall(['x'], lambda x, a=a, pf=pf, E_=E_: Implies(And(h['t:' + a][x], c.isa(x, E_)),
                        h[pf][x] == h['l:' + a][x]), lambda x, a=a: h['t:' + a][x])))
        out.append(('in-vain.wire', c.forall(['x'], lambda x: Implies(And(h['t:wire'][x], self.inv.realpin(h, x)),
                    h['_wire'][x] == h['l:wire'][x]), lambda x: h['t:wire'][x])))
        out.append(('in-vain.reference', c.forall(['x'], lambda x: Implies(And(h['t:ref'][x], c.isa(x, 'Instance')),
                    h['_reference'][x] == h['l:ref'][x]), lambda x: h['t:ref'][x])))
        out.append(('in-vain.top', c.forall(['x'], lambda x: Implies(And(h['t:top'][x], c.isa(x, 'Netlist')),
                    Or(h['_top_instance'][x] == h['l:top'][x],
                       And(c.isa(h['l:top'][x], 'Definition'), h['_reference'][h['_top_instance'][x]] == h['l:top'][x]))),
                    lambda x: h['t:top'][x])))
        out.append(('in-vain.data', c.forall(['x', 'k'], lambda x, k: Implies(h['t:data'][x][k],
                    And(h['dhas'][x][k] == h['lh:data'][x][k], Implies(h['lh:data'][x][k], h['dval'][x][k] == h['lv:data'][x][k]))),
                    lambda x, k: h['t:data'][x][k], sorts=[c.Ref, c.Key])))
        return out

    # ---------------------------------------------------------------- loops
    def loop_ordinal(self, fi, node):
        key = id(fi.node)
        if key not in getattr(self, '_ords', {}):
            if not hasattr(self, '_ords'): self._ords = {}
            self._ords[key] = {id(n): i for i, n in enumerate(sorted([n for n in ast.walk(fi.node) if isinstance(n, (ast.For, ast.While))], key=lambda n: (n.lineno, n.col_offset)))}
        return self._ords[key][id(node)]

    def loop(self, se, st, node, nxt, k_ret, k_brk, k_cnt):
        c = self.ctx
        fr = st.frames[-1]
        ordinal = self.loop_ordinal(fr.fi, node)
        def with_dom(s, dom):
            if dom[0] == 'enumcls':
                return self.unroll_enum(se, s, node, dom, nxt, k_ret)
            if dom[0] == 'tuple':               # for key in ["EDIF.identifier", ".NAME"]: a literal sequence is unrolled
                items = dom[1]
                def go(s2, idx):
                    if idx == len(items): return nxt(s2)
                    s2.env = dict(s2.env); self.bind_target(s2, node.target, items[idx])
                    se.block(s2, node.body, lambda s3: go(s3, idx + 1), k_ret, lambda s3: nxt(s3), lambda s3: go(s3, idx + 1))
                return go(s, 0)
            spec = LOOPS.get((fr.fi.qual, ordinal))
            enum = False
            if dom[0] == 'enumerate':
                # for k, x in enumerate(<list>): the positional walk of the list with the position bound as well
                if spec is None or spec.shape != 'plist' or not (isinstance(node.target, ast.Tuple) and len(node.target.elts) == 2):
                    raise Unsupported('call of enumerate')
                dom = dom[1]; enum = True
            if spec is None and dom[0] == 'pdict' and ast.unparse(node.body[0]).replace(' ', '') == 'self[%s]=%s[%s]' % (
                    node.target.id, ast.unparse(node.iter), node.target.id) and len(node.body) == 1:
                spec = PROPERTIES_LOOP        # `for key in properties: self[key] = properties[key]` of the element constructors
            if spec is None and getattr(self, 'pure_loops', False) and dom[0] in ('zip', 'list', 'range'):
                return self.pure_loop(se, s, node, dom, nxt, k_ret)
            if spec is None:
                raise Unsupported('no invariant registered for loop %d of %s (iterates %s)' % (ordinal, fr.fi.qual, dom[0]))
            if dom[0] == 'ref':
                return se.exit(s, 'TypeError')
            shape = {'set': 'set', 'list': 'list', 'pinsview': 'opins', 'odict_values': 'opins', 'odict_items': 'opins', 'range': 'range', 'zip': 'zip', 'pdict': 'keys'}.get(dom[0])
            if spec.shape == 'plist' and shape == 'list': shape = 'plist'      # positional walk over a list: element k is at(L, k)
            if shape != spec.shape:
                raise Unsupported('loop %d of %s iterates a %s, its invariant was written for a %s' % (ordinal, fr.fi.qual, shape, spec.shape))
            self.cut(se, s, node, spec, dom, shape, ordinal, nxt, k_ret, enum=enum)
        se.ev(st, node.iter, with_dom)

    def while_loop(self, se, st, node, nxt, k_ret):
        """`while cond: body` cut at a sidecar invariant (shape 'while'): the invariant holds on entry; from an arbitrary state that
        satisfies it and the condition the body re-establishes it (or returns / raises); after the loop: invariant and not condition.
        Termination is not proved."""
        c = self.ctx
        fr = st.frames[-1]
        ordinal = self.loop_ordinal(fr.fi, node)
        spec = LOOPS.get((fr.fi.qual, ordinal))
        if spec is None or spec.shape != 'while':
            raise Unsupported('no invariant registered for while-loop %d of %s' % (ordinal, fr.fi.qual))
        fq = st.frames[0].fi.qual
        tag = '%s/%s.loop%d' % (fq, fr.fi.qual, ordinal)
        hl = dict(st.heap)
        def view(s):
            lv = LoopView(); lv.ctx, lv.se, lv.spec = c, se, self
            lv.hf, lv.hl, lv.h = fr.heap, hl, s.heap
            lv.env, lv.cur, lv.entry = fr.env, s.env, st.env
            lv.frame = fr; lv.inv = self.inv; lv.st = s; lv.seen = None; lv.it = None; lv.i = None; lv.D = None; lv.n = None; lv.outer = None
            return lv
        def havoc(s):
            s.env = dict(s.env)
            for f in spec.modifies:
                s.heap[f] = c.fresh(f.replace(':', '_') + '_wl', s.heap[f].sort())
            for name, kind in spec.locals.items():
                if kind == 'ref': s.env[name] = R(c.fresh(name, c.Ref))
                elif kind == 'bool': s.env[name] = B(c.fresh(name, BoolSort()))
                else: raise Unsupported('while-loop local kind %s' % kind)
        for prop, name, g in spec.inv(view(st)):
            se.oblige(st, '%s/%s/init/%s' % (prop, tag, name), g)
        # preservation
        sb = st.fork(); havoc(sb)
        sb.pc += [g for _, _, g in spec.inv(view(sb))]
        heap_in = dict(sb.heap); env_in = dict(sb.env)
        def body_end(s2):
            for f_ in s2.heap:
                if f_ in spec.modifies: continue
                if f_ not in heap_in or not s2.heap[f_].eq(heap_in[f_]):
                    raise Unsupported('while-loop %d of %s stores to %s, which its invariant does not declare' % (ordinal, fr.fi.qual, f_))
            for n_, v_ in s2.env.items():
                if n_ in spec.locals or n_ not in env_in or n_ not in st.env: continue
                w_ = env_in[n_]
                if not (v_ is w_ or (len(v_) == len(w_) and all((a_ is b_) or (hasattr(a_, 'eq') and hasattr(b_, 'eq') and a_.eq(b_)) or (not hasattr(a_, 'eq') and a_ == b_)
                                                              for a_, b_ in zip(v_, w_)))):
                    raise Unsupported('while-loop %d of %s assigns the local %s, which its invariant does not declare' % (ordinal, fr.fi.qual, n_))
            for prop, name, g in spec.inv(view(s2)):
                se.oblige(s2, '%s/%s/preserve/%s' % (prop, tag, name), g)
        def enter(s, v):
            t = se.truth(s, v)
            s_in = s.fork(); s_in.pc.append(t)
            if se.sat(s_in): se.block(s_in, node.body, body_end, k_ret, None, body_end)
        se.ev(sb, node.test, enter)
        # after the loop
        sa = st.fork(); havoc(sa)
        sa.pc += [g for _, _, g in spec.inv(view(sa))]
        def leave(s, v):
            t = se.truth(s, v)
            s.pc.append(Not(t))
            if se.sat(s): nxt(s)
        se.ev(sa, node.test, leave)

    def close_fresh(self, body, start, keep=()):
        """existentially close the auxiliary constants the executor introduced while running a body for ONE generic element
        (truthiness flags, named ite terms, skolems): under the surrounding universal quantifier they depend on the element"""
        from z3 import is_const, Z3_OP_UNINTERPRETED
        seen = {}
        def walk(t):
            if t.get_id() in seen_ids: return
            seen_ids.add(t.get_id())
            if is_const(t) and t.decl().kind() == Z3_OP_UNINTERPRETED:
                nm = t.decl().name()
                if '!' in nm:
                    try: n = int(nm.rsplit('!', 1)[1])
                    except ValueError: return
                    if n >= start and not any(t.eq(k_) for k_ in keep): seen[nm] = t
                return
            for ch in t.children(): walk(ch)
            if hasattr(t, 'body') and callable(getattr(t, 'body', None)):
                try: walk(t.body())
                except Exception: pass
        seen_ids = set()
        walk(body)
        vs = list(seen.values())
        return Exists(vs, body) if vs else body

    def fresh_mark(self):
        import itertools
        n = next(self.ctx._fresh)
        return n

    def pure_loop(self, se, st, node, dom, nxt, k_ret):
        """a loop whose body only checks (asserts, calls of checking functions) and stores nothing: no invariant is needed.
        The body is executed once for a generic position k; if every path leaves the heap and the enclosing locals untouched,
        the loop is equivalent to  `for all k in range: the body does not raise`  -- after the loop that fact is assumed, and an
        exceptional exit of the body for some k is an exceptional exit of the loop."""
        from z3 import substitute
        from pyvc.se import SE
        c = self.ctx
        k = c.fresh('k', IntSort())
        mark = self.fresh_mark()
        if dom[0] == 'zip':
            a, b = dom[1], dom[2]
            if a[0] != 'list' or b[0] != 'list': raise Unsupported('zip of %s,%s' % (a[0], b[0]))
            member = And(k >= 0, k < c.len(a[1]), k < c.len(b[1]))
            elems = ('tuple', [R(c.at(a[1], k)), R(c.at(b[1], k))])
            facts = [c.cnt(a[1], c.at(a[1], k)) > 0, c.cnt(b[1], c.at(b[1], k)) > 0]
        elif dom[0] == 'list':
            member = And(k >= 0, k < c.len(dom[1])); elems = R(c.at(dom[1], k)); facts = [c.cnt(dom[1], c.at(dom[1], k)) > 0]
        else:
            member = And(k >= 0, k < dom[1]); elems = I(k); facts = []
        sub = SE(c, se.ct, self, se.sat_timeout, se.max_depth)
        s_in = st.fork(); s_in.env = dict(st.env); s_in.handlers = []
        s_in.pc.append(member); s_in.pc += facts
        self.bind_target(s_in, node.target, elems)
        base = len(s_in.pc)
        heap0 = dict(s_in.heap)
        normals = []
        def body_end(s2):
            for f_ in heap0:
                if not s2.heap[f_].eq(heap0[f_]): raise Unsupported('loop body stores to %s: an invariant is needed' % f_)
            normals.append(list(s2.pc[base:]))
        returns = []
        def body_ret(s2, v):
            # an early `return <constant>`: the loop (and the function) returns that constant for the first element that gets there
            for f_ in heap0:
                if not s2.heap[f_].eq(heap0[f_]): raise Unsupported('loop body stores to %s before returning' % f_)
            if v is None or (v[0] == 'ref' and v[1].eq(c.null)): key = 'None'
            elif v[0] == 'bool' and (is_true(v[1]) or is_false(v[1])): key = 'True' if is_true(v[1]) else 'False'
            else: raise Unsupported('return of a computed value inside a checking loop')
            returns.append((key, v, list(s2.pc[base:])))
        sub.block(s_in, node.body, body_end, body_ret, None, body_end)
        se.obligations += sub.obligations
        for s_, kind, _v in sub.outcomes:
            for f_ in heap0:
                if not s_.heap[f_].eq(heap0[f_]): raise Unsupported('loop body stores to %s before raising' % f_)
        conj = lambda fs: And(fs) if fs else BoolVal(True)
        ok = Or([conj(pcx) for pcx in normals]) if normals else BoolVal(False)
        qk = Const('kq_pl%d' % next(c._fresh), IntSort())
        def quant(body, univ):
            bd = substitute(self.close_fresh(body, mark), (k, qk))
            return ForAll([qk], bd) if univ else Exists([qk], bd)
        kinds = {}
        for s_, kind, _v in sub.outcomes:
            kinds.setdefault(kind, []).append(conj(list(s_.pc[base:])))
        for kind, conds in kinds.items():
            sE = st.fork(); sE.pc.append(quant(And(member, *facts, Or(conds)), False))
            if se.sat(sE): se.exit(sE, kind)
        if returns:
            if len(set(r_[0] for r_ in returns)) > 1: raise Unsupported('a checking loop that returns different constants')
            sR = st.fork(); sR.pc.append(quant(And(member, *facts, Or([conj(r_[2]) for r_ in returns])), False))
            if se.sat(sR): k_ret(sR, returns[0][1])
        sN = st.fork(); sN.pc.append(quant(Implies(And(member, *facts) if facts else member, self.close_fresh(ok, mark)), True))
        if se.sat(sN): nxt(sN)

    def unroll_enum(self, se, st, node, dom, nxt, k_ret):
        members = ['UNDEFINED', 'INOUT', 'IN', 'OUT']
        def go(s, idx):
            if idx == len(members): return nxt(s)
            s.env = dict(s.env); s.env[node.target.id] = ('enum', 'Direction.' + members[idx])
            se.block(s, node.body, lambda s2: go(s2, idx + 1), k_ret, lambda s2: nxt(s2), lambda s2: go(s2, idx + 1))
        go(st, 0)

    def cut(self, se, st, node, spec, dom, shape, ordinal, nxt, k_ret, enum=False):
        c = self.ctx
        fr = st.frames[-1]; fq = st.frames[0].fi.qual
        tag = '%s/%s.loop%d' % (fq, fr.fi.qual, ordinal)
        outer = st.loops[-1] if st.loops and st.loops[-1].frame is fr else None
        hl = dict(st.heap)

        # ---- domain as a membership array over Ref (or an integer bound)
        D = None; n = None; dom_facts = []
        if shape == 'set':
            D = dom[1]
        elif shape == 'list':
            L = dom[1]
            D = c.fresh('dom', c.SetS)
            y = Const('yq_dom', c.Ref)
            dom_facts.append(ForAll([y], D[y] == (c.cnt(L, y) > 0), patterns=[D[y]]))
            se.oblige(st, 'C01/%s/iterated-list-has-no-duplicates' % tag, ForAll([y], c.cnt(L, y) <= 1, patterns=[c.cnt(L, y)]))
        elif shape == 'opins':
            inst = dom[1]
            D = st.heap['okeys'][inst]          # the iteration is over the dictionary as it is at loop entry
        elif shape == 'keys':
            D = dom[1]                          # the key set of the dictionary parameter
        elif shape == 'range':
            n = dom[1]
        elif shape == 'plist':
            n = c.len(dom[1])
        elif shape == 'zip':
            a, b = dom[1], dom[2]
            if a[0] != 'list' or b[0] != 'list': raise Unsupported('zip of %s,%s' % (a[0], b[0]))
            n = c.fresh('zipn', IntSort())
            dom_facts += [n <= c.len(a[1]), n <= c.len(b[1]), Or(n == c.len(a[1]), n == c.len(b[1])), n >= 0]
        st.pc += dom_facts

        def view(s, seen, it, idx, heap):
            lv = LoopView()
            lv.ctx, lv.se, lv.spec = c, se, self
            lv.hf, lv.hl, lv.h = fr.heap, hl, heap
            lv.env, lv.cur = fr.env, s.env
            lv.seen, lv.it, lv.i, lv.D, lv.n = seen, it, idx, D, n
            lv.dom = dom; lv.outer = outer; lv.frame = fr; lv.inv = self.inv
            lv.st = s
            return lv

        if hasattr(self, 'loop_extra'):
            # a spec plug-in may add clauses (and the fields they talk about) to every loop invariant
            xmods, xinv = self.loop_extra(fr.fi.qual, ordinal)
            base_spec = spec
            spec = LoopSpec(base_spec.shape, list(base_spec.modifies) + [m for m in xmods if m not in base_spec.modifies],
                            lambda lv_, b_=base_spec: list(b_.inv(lv_)) + list(xinv(lv_)), base_spec.locals)
        def havoc(s):
            for f in spec.modifies:
                if f == 'memo*':
                    for k_ in [k_ for k_ in s.heap if k_.startswith('memo_')]:
                        s.heap[k_] = c.fresh(k_.replace(':', '_') + '_lp', s.heap[k_].sort())
                    continue
                s.heap[f] = c.fresh(f.replace(':', '_') + '_lp', s.heap[f].sort())
            for name, kind in spec.locals.items():
                if name not in st.env:
                    continue      # a declared local the function (no longer) has: nothing to summarise; reading it stays an unbound name
                if kind == 'list':
                    t, _ = c.L_any(name); s.env[name] = ('list', t, ('local', name))
                elif kind == 'bool':
                    s.env[name] = B(c.fresh(name, BoolSort()))
                elif kind == 'int':
                    s.env[name] = I(c.fresh(name, IntSort()))
                elif kind == 'none':
                    s.env[name] = R(c.null)       # a local that is still None at every loop head (it is assigned only on the way out)
                else:
                    raise Unsupported('loop local kind %s' % kind)
            # allocation only grows
            if 'alloc' in spec.modifies:
                x = Const('xq_al', c.Ref)
                s.pc.append(ForAll([x], Implies(hl['alloc'][x], s.heap['alloc'][x]), patterns=[s.heap['alloc'][x]]))

        esort = c.Key if shape == 'keys' else c.Ref
        empty = K(esort, False)
        if esort is c.Ref and n is None:
            st.pc.append(c.card(empty) == 0)
            if shape == 'list': st.pc.append(c.card(D) == c.len(dom[1]))     # duplicate-free (obligation above): as many elements as positions
        # (1) initialisation
        lv0 = view(st, empty if n is None else None, None, IntVal(0) if n is not None else None, st.heap)
        for prop, name, g in spec.inv(lv0):
            se.oblige(st, '%s/%s/init/%s' % (prop, tag, name), g)

        # (2) preservation from an arbitrary iteration
        sb = st.fork(); sb.env = dict(sb.env)
        havoc(sb)
        if n is None:
            seen = c.fresh('seen', ArraySort(esort, BoolSort())); it = c.fresh('it', esort)
            x = Const('xq_seen', esort)
            sb.pc += [ForAll([x], Implies(seen[x], D[x]), patterns=[seen[x]]), D[it], Not(seen[it])]
            if esort is c.Ref:
                # sizes of the (finite) sets of handled elements: one more after this iteration
                sb.pc += [c.card(seen) >= 0, c.card(Store(seen, it, True)) == c.card(seen) + 1]
            lvb = view(sb, seen, it, None, sb.heap)
            sb.pc += [g for _, _, g in spec.inv(lvb)]
            if shape == 'opins':
                # dict.values(): the element handed to the body is the value stored under key `it` at loop entry
                # (the body may delete keys; CPython would raise on size change during iteration of the live dict,
                #  the real code iterates the view `self.pins` -> iter(self._dict.values()))
                elem = hl['ovals'][dom[1]][it]
                self.bind_target(sb, node.target, ('tuple', [R(it), R(elem)]) if dom[0] == 'odict_items' else R(elem))
            elif shape == 'keys':
                self.bind_target(sb, node.target, ('key', it))
            else:
                self.bind_target(sb, node.target, R(it))
            nseen = Store(seen, it, True); nidx = None
        else:
            idx = c.fresh('i', IntSort())
            sb.pc += [idx >= 0, idx < n]
            lvb = view(sb, None, None, idx, sb.heap)
            sb.pc += [g for _, _, g in spec.inv(lvb)]
            if shape == 'zip':
                a, b = dom[1], dom[2]
                ea, eb = c.at(a[1], idx), c.at(b[1], idx)
                sb.pc += [c.cnt(a[1], ea) > 0, c.cnt(b[1], eb) > 0]
                self.bind_target(sb, node.target, ('tuple', [R(ea), R(eb)]))
            elif shape == 'plist':
                el = c.at(dom[1], idx)
                sb.pc.append(c.cnt(dom[1], el) > 0)
                self.bind_target(sb, node.target, ('tuple', [I(idx), R(el)]) if enum else R(el))
            else:
                self.bind_target(sb, node.target, I(idx))
            nseen = None; nidx = idx + 1
            it = None
        if not se.sat(sb):
            pass
        else:
            sb.loops = sb.loops + [lvb]
            heap_in = dict(sb.heap); env_in = dict(sb.env)
            targets = set(n_.id for n_ in ast.walk(node.target) if isinstance(n_, ast.Name))
            def body_end(s2):
                # soundness of the cut: whatever the body changes must be declared (havocked and described by the invariant)
                for f_ in s2.heap:
                    if f_ in spec.modifies or (f_.startswith('memo_') and 'memo*' in spec.modifies): continue
                    if f_ not in heap_in or not s2.heap[f_].eq(heap_in[f_]):
                        raise Unsupported('loop %d of %s stores to %s, which its invariant does not declare' % (ordinal, fr.fi.qual, f_))
                for n_, v_ in s2.env.items():
                    if n_ in targets or n_ in spec.locals or n_ not in env_in: continue
                    w_ = env_in[n_]
                    same = (v_ is w_) or (len(v_) == len(w_) and all((a_ is b_) or (hasattr(a_, 'eq') and hasattr(b_, 'eq') and a_.eq(b_)) or a_ == b_
                                                                      for a_, b_ in zip(v_, w_) if not (hasattr(a_, 'eq') != hasattr(b_, 'eq'))))
                    if not same:
                        raise Unsupported('loop %d of %s assigns the local %s, which its invariant does not declare' % (ordinal, fr.fi.qual, n_))
                lve = view(s2, nseen, it, nidx, s2.heap)
                lve.prev = lvb
                for prop, name, g in spec.inv(lve):
                    se.oblige(s2, '%s/%s/preserve/%s' % (prop, tag, name), g)
            se.block(sb, node.body, body_end, k_ret, lambda s2: self._leave_loop(s2, lvb, nxt), body_end)

        # (3) after the loop
        sa = st.fork(); sa.env = dict(sa.env)
        havoc(sa)
        lva = view(sa, D if n is None else None, None, n if n is not None else None, sa.heap)
        if n is not None: sa.pc.append(n >= 0)
        sa.pc += [g for _, _, g in spec.inv(lva)]
        if se.sat(sa): nxt(sa)

    def _leave_loop(self, s, lv, nxt):
        s.loops = [l for l in s.loops if l is not lv]
        nxt(s)

    def bind_target(self, st, tgt, v):
        if isinstance(tgt, ast.Name):
            st.env[tgt.id] = v; return
        if isinstance(tgt, ast.Tuple) and v[0] == 'tuple':
            for t, x in zip(tgt.elts, v[1]): self.bind_target(st, t, x)
            return
        raise Unsupported('loop target')
POSTS = {}
CTOR_CONTRACT = ('Netlist', 'Library', 'Definition', 'Port', 'Cable', 'Instance')


def ctor_post(ctx, spec, h0, s, ekind, args, val):
    """proves the constructor contract used by ctor_contract: own fields initialised (normal exit), nothing else touched (every exit)"""
    c = ctx; h = s.heap; r = args[0][1]; out = []
    cls_ = [k for k in CTOR_CONTRACT if s.frames == [] or True][0]
    fa = c.forall
    # frame over everything but the new object, at every exit
    for f, (owners, kind) in FIELDS.items():
        if kind in ('ref', 'val', 'list', 'set'):
            out.append(('C14', 'ctor.frame.' + f, fa(['x'], lambda x, f=f: Implies(x != r, h[f][x] == h0[f][x]), lambda x, f=f: h[f][x])))
    for f in ('okeys', 'ovals', 'dhas', 'dval', 'ns', 't:data', 'lh:data', 'lv:data'):
        out.append(('C14', 'ctor.frame.' + f, fa(['x'], lambda x, f=f: Implies(x != r, h[f][x] == h0[f][x]), lambda x, f=f: h[f][x])))
    for a in ATTRS:
        out.append(('C19', 'ctor.ghost.' + a, And(h['t:' + a] == h0['t:' + a], h['l:' + a] == h0['l:' + a])))
    out.append(('C14', 'ctor.alloc', fa(['x'], lambda x: h['alloc'][x] == Or(h0['alloc'][x], x == r), lambda x: h['alloc'][x])))
    if ekind == 'normal':
        for f, (owners, kind) in FIELDS.items():
            own = [o for o in owners if o in CTOR_CONTRACT]
            if not own: continue
            guard = c.isa(r, *own)
            if kind == 'ref': out.append(('C01', 'ctor.init.' + f, Implies(guard, h[f][r] == c.null)))
            elif kind == 'list':
                out.append(('C01', 'ctor.init.' + f, Implies(guard, And(fa(['y'], lambda y, f=f: c.cnt(h[f][r], y) == 0, lambda y, f=f: c.cnt(h[f][r], y)),
                                                                        c.len(h[f][r]) == 0))))
            elif kind == 'set': out.append(('C02', 'ctor.init.' + f, Implies(guard, fa(['y'], lambda y, f=f: Not(h[f][r][y]), lambda y, f=f: h[f][r][y]))))
        out.append(('C02', 'ctor.init._opins', Implies(c.isa(r, 'Instance'), fa(['y'], lambda y: Not(h['okeys'][r][y]), lambda y: h['okeys'][r][y]))))
    return out


for _c in CTOR_CONTRACT:
    POSTS['%s.__init__' % _c] = ctor_post
