"""Functions of spydrnet/ir under contract: (class, name, kind, [(param, kind)])."""
FUNCTIONS = [
    ('Cable', 'add_wire', 'method', [('wire', 'any'), ('position', 'optint')]),
    ('Cable', 'remove_wire', 'method', [('wire', 'any')]),
    ('Cable', 'remove_wires_from', 'method', [('wires', 'iter')]),
    ('Cable', 'create_wire', 'method', []),
    ('Cable', 'wires', 'setter', [('value', 'iter')]),
]
