"""Functions of spydrnet/ir under contract: (class, name, kind, [(param, kind)]).
Parameter kinds: any = untyped reference (any IR class, None, foreign); optint = None|int; iter = set|list|non-iterable;
key = str data key other than '.NS'; none = the argument is None (stated scope restriction)."""
_CTOR = [('name', 'any'), ('properties', 'optpdict')]
_BND = [('is_downto', 'any'), ('is_scalar', 'any'), ('lower_index', 'any')]
FUNCTIONS = [
    # ---- Cable
    ('Cable', '__init__', 'method', _CTOR + _BND),
    ('Cable', 'add_wire', 'method', [('wire', 'any'), ('position', 'optint')]),
    ('Cable', 'remove_wire', 'method', [('wire', 'any')]),
    ('Cable', 'remove_wires_from', 'method', [('wires', 'iter')]),
    ('Cable', 'create_wire', 'method', []),
    ('Cable', 'create_wires', 'method', [('wire_count', 'int')]),
    ('Cable', 'wires', 'setter', [('value', 'iter')]),
    # ---- Wire
    ('Wire', '__init__', 'method', []),
    ('Wire', 'connect_pin', 'method', [('pin', 'any'), ('position', 'optint')]),
    ('Wire', 'disconnect_pin', 'method', [('pin', 'any')]),
    ('Wire', 'disconnect_pins_from', 'method', [('pins', 'iter')]),
    ('Wire', 'pins', 'setter', [('value', 'iter')]),
    # ---- Port
    ('Port', '__init__', 'method', _CTOR + _BND + [('direction', 'any')]),
    ('Port', 'add_pin', 'method', [('pin', 'any'), ('position', 'optint')]),
    ('Port', 'create_pin', 'method', []),
    ('Port', 'create_pins', 'method', [('pin_count', 'int')]),
    ('Port', 'remove_pin', 'method', [('pin', 'any')]),
    ('Port', 'remove_pins_from', 'method', [('pins', 'iter')]),
    ('Port', 'pins', 'setter', [('value', 'iter')]),
    ('Port', 'direction', 'setter', [('value', 'any')]),
    # ---- Bundle scalars
    ('Cable', 'is_downto', 'setter', [('value', 'any')]),
    ('Cable', 'is_scalar', 'setter', [('value', 'any')]),
    ('Cable', 'is_array', 'setter', [('value', 'any')]),
    ('Cable', 'lower_index', 'setter', [('value', 'any')]),
    ('Port', 'is_scalar', 'setter', [('value', 'any')]),
    ('Port', 'is_array', 'setter', [('value', 'any')]),
    # ---- Definition
    ('Definition', '__init__', 'method', _CTOR),
    ('Definition', 'add_port', 'method', [('port', 'any'), ('position', 'optint')]),
    ('Definition', 'create_port', 'method', _CTOR + _BND + [('direction', 'any'), ('pins', 'optint')]),
    ('Definition', 'remove_port', 'method', [('port', 'any')]),
    ('Definition', 'remove_ports_from', 'method', [('ports', 'iter')]),
    ('Definition', 'add_cable', 'method', [('cable', 'any'), ('position', 'optint')]),
    ('Definition', 'create_cable', 'method', _CTOR + _BND + [('wires', 'optint')]),
    ('Definition', 'remove_cable', 'method', [('cable', 'any')]),
    ('Definition', 'remove_cables_from', 'method', [('cables', 'iter')]),
    ('Definition', 'add_child', 'method', [('instance', 'any'), ('position', 'optint')]),
    ('Definition', 'create_child', 'method', _CTOR + [('reference', 'any')]),
    ('Definition', 'remove_child', 'method', [('child', 'any')]),
    ('Definition', 'remove_children_from', 'method', [('children', 'iter')]),
    ('Definition', 'ports', 'setter', [('value', 'iter')]),
    ('Definition', 'cables', 'setter', [('value', 'iter')]),
    ('Definition', 'children', 'setter', [('value', 'iter')]),
    # ---- Library
    ('Library', '__init__', 'method', _CTOR),
    ('Library', 'add_definition', 'method', [('definition', 'any'), ('position', 'optint')]),
    ('Library', 'create_definition', 'method', _CTOR),
    ('Library', 'remove_definition', 'method', [('definition', 'any')]),
    ('Library', 'remove_definitions_from', 'method', [('definitions', 'iter')]),
    ('Library', 'definitions', 'setter', [('value', 'iter')]),
    # ---- Netlist
    ('Netlist', '__init__', 'method', _CTOR),
    ('Netlist', 'add_library', 'method', [('library', 'any'), ('position', 'optint')]),
    ('Netlist', 'create_library', 'method', _CTOR),
    ('Netlist', 'remove_library', 'method', [('library', 'any')]),
    ('Netlist', 'remove_libraries_from', 'method', [('libraries', 'iter')]),
    ('Netlist', 'libraries', 'setter', [('value', 'iter')]),
    ('Netlist', 'top_instance', 'setter', [('instance', 'any')]),
    ('Netlist', 'set_top_instance', 'method', [('instance', 'any'), ('instance_name', 'any')]),
    # ---- Instance
    ('Instance', '__init__', 'method', _CTOR),
    ('Instance', 'reference', 'setter', [('value', 'any')]),
    ('Instance', 'reference', 'deleter', []),
    ('Instance', 'is_top_instance', 'setter', [('value', 'any')]),
    # ---- element data (FirstClassElement; verified on one concrete subclass per distinct behaviour)
    ('Definition', '__setitem__', 'method', [('key', 'key'), ('value', 'any')]),
    ('Definition', '__delitem__', 'method', [('key', 'key')]),
    ('Definition', 'pop', 'method', [('item', 'key')]),
    ('Definition', 'name', 'setter', [('value', 'any')]),
    ('Definition', 'name', 'deleter', []),
    # ---- pins
    ('InnerPin', '__init__', 'method', []),
    ('OuterPin', '__init__', 'method', [('instance', 'any!OuterPin'), ('inner_pin', 'any!OuterPin')]),
]

# functions whose contract talks about list positions (the positional list axioms are added only for them)
POSITIONAL = {('Instance', 'reference', 'setter')}
