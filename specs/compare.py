"""Contracts for the element-level functions of spydrnet/compare/compare_netlists.py (C20, soundness of rejection):
"the comparer returns normally  ==>  the attributes it is documented to examine are equal".

The functions only read the netlists and assert; they are executed symbolically on two arbitrary well-formed heaps' objects
(Inv assumed), names are opaque values with an uninterpreted value equality `veq`, loops are checking loops (no invariant needed:
IRSpec.pure_loop).  Obligation names: C20/<function>/exit=normal/<clause>."""
from z3 import And, Or, Not, Implies, If, Const, ForAll, Exists, BoolVal, IntSort, Int
from specs.ir import IRSpec

FILE = 'spydrnet/compare/compare_netlists.py'

# (class, name, kind, [(param, kind)])
FUNCTIONS = [
    ('Comparer', 'compare_ports', 'method', [('port_orig', 'is:Port'), ('port_composer', 'is:Port')]),
    ('Comparer', 'are_inner_pins_equivalent', 'method', [('orig_pin', 'is:InnerPin'), ('composer_pin', 'is:InnerPin')]),
    ('Comparer', 'compare_inner_pins', 'method', [('pin_orig', 'is:InnerPin'), ('pin_composer', 'is:InnerPin')]),
    ('Comparer', 'are_instances_equivalent', 'method', [('orig_instance', 'is:Instance'), ('composer_instance', 'is:Instance')]),
    ('Comparer', 'compare_outer_pins', 'method', [('pin_orig', 'is:OuterPin'), ('pin_composer', 'is:OuterPin')]),
    ('Comparer', 'compare_cables', 'method', [('cable_orig', 'is:Cable'), ('cable_composer', 'is:Cable')]),
]
POSITIONAL = {('Comparer', f[1], f[2]) for f in FUNCTIONS}


class CompareSpec(IRSpec):
    value_equality = True
    pure_loops = True

    def __init__(self, ctx, ct):
        super().__init__(ctx, ct, listener='stock', check_cover=False)

    MODULAR = ('compare_outer_pins', 'compare_inner_pins', 'are_instances_equivalent', 'are_inner_pins_equivalent')

    def contract_for(self, se, st, fi):
        """inside another comparer function the pin/instance comparers are used through their (separately proved) contract:
        they store nothing, may refuse (AssertionError / AttributeError / TypeError), and on normal return their postcondition holds"""
        if fi.cls == 'Comparer' and fi.name in self.MODULAR and len(st.frames) >= 1 and st.frames[0].fi.name != fi.name:
            return self.checker_contract
        return None

    def checker_contract(self, se, st, fi, args, kw, cont):
        from pyvc.se import B
        for kind_ in ('AssertionError', 'AttributeError'):
            sv = st.fork(); se.exit(sv, kind_)
        a_ = [x for x in args if x[0] == 'ref']
        facts = post(fi.name)(self.ctx, self, None, st, 'normal', [None] + a_, None)
        st.pc += [g for _, _, g in facts]
        cont(st, B(BoolVal(True)))


def name_of(c, h, x):
    return If(h['dhas'][x][c.KEY_NAME], h['dval'][x][c.KEY_NAME], c.null)


def same_value(spec, a, b):
    c = spec.ctx
    return Or(a == b, And(c.cls(a) == c.C['Foreign'], c.cls(b) == c.C['Foreign'], spec.veq(a, b)))


def extra_pre(ctx, spec, h0):
    """names (and directions) are plain values, never IR objects"""
    c = ctx
    x = Const('xq_np', c.Ref)
    return [ForAll([x], Implies(h0['dhas'][x][c.KEY_NAME], c.cls(h0['dval'][x][c.KEY_NAME]) == c.C['Foreign']), patterns=[h0['dval'][x][c.KEY_NAME]]),
            ForAll([x], c.cls(h0['_direction'][x]) == c.C['Foreign'], patterns=[h0['_direction'][x]])]


def _same_port(spec, h, p1, p2):
    c = spec.ctx
    return And(same_value(spec, name_of(c, h, p1), name_of(c, h, p2)),
               same_value(spec, name_of(c, h, h['_definition'][p1]), name_of(c, h, h['_definition'][p2])))


def _same_inner(spec, h, q1, q2):
    c = spec.ctx
    P1, P2 = h['_port'][q1], h['_port'][q2]
    return And(c.idx(h['_pins'][P1], q1) == c.idx(h['_pins'][P2], q2), _same_port(spec, h, P1, P2))


def _assign_case(spec, n1, n2):
    """the documented special case: both names start with SDN_Assignment_ (then only the width field is compared)"""
    f = spec._smeth.get(('startswith', ('SDN_Assignment_',))) if hasattr(spec, '_smeth') else None
    return And(f(n1), f(n2)) if f is not None else BoolVal(False)


def _same_instance(spec, h, i1, i2):
    c = spec.ctx
    n1, n2 = name_of(c, h, i1), name_of(c, h, i2)
    return And(Or(same_value(spec, n1, n2), _assign_case(spec, n1, n2)),
               same_value(spec, name_of(c, h, h['_reference'][i1]), name_of(c, h, h['_reference'][i2])),
               same_value(spec, name_of(c, h, h['_parent'][i1]), name_of(c, h, h['_parent'][i2])))


def post(fname):
    def f(ctx, spec, h0, s, ekind, args, val):
        c = ctx; h = s.heap
        if ekind != 'normal':
            return []
        a, b = args[1][1], args[2][1]
        out = []
        if fname == 'compare_ports':
            out += [('C20', 'names-equal', same_value(spec, name_of(c, h, a), name_of(c, h, b))),
                    ('C20', 'directions-equal', same_value(spec, h['_direction'][a], h['_direction'][b])),
                    ('C20', 'widths-equal', And(c.len(h['_pins'][a]) == c.len(h['_pins'][b]), c.len(h['_pins'][a]) >= 1)),
                    ('C20', 'arrayness-equal', Implies(And(c.len(h['_pins'][a]) <= 1, c.len(h['_pins'][b]) <= 1),
                                                       Or(h['_is_scalar'][a] == h['_is_scalar'][b],
                                                          And(h['_is_scalar'][a] != c.pyTrue, h['_is_scalar'][a] != c.pyFalse),
                                                          And(h['_is_scalar'][b] != c.pyTrue, h['_is_scalar'][b] != c.pyFalse)))),
                    ('C20', 'definitions-equal', same_value(spec, name_of(c, h, h['_definition'][a]), name_of(c, h, h['_definition'][b])))]
        elif fname in ('are_inner_pins_equivalent', 'compare_inner_pins'):
            out += [('C20', 'same-bit-of-same-port', _same_inner(spec, h, a, b))]
        elif fname == 'are_instances_equivalent':
            out += [('C20', 'same-instance', _same_instance(spec, h, a, b))]
        elif fname == 'compare_outer_pins':
            out += [('C20', 'same-instance', _same_instance(spec, h, h['_instance'][a], h['_instance'][b])),
                    ('C20', 'same-bit-of-same-port', _same_inner(spec, h, h['_inner_pin'][a], h['_inner_pin'][b]))]
        elif fname == 'compare_cables':
            k = Int('kq_cc'); j = Int('jq_cc')
            w1 = lambda k_: c.at(h['_wires'][a], k_); w2 = lambda k_: c.at(h['_wires'][b], k_)
            p1 = lambda k_, j_: c.at(h['_pins'][w1(k_)], j_); p2 = lambda k_, j_: c.at(h['_pins'][w2(k_)], j_)
            out += [('C20', 'names-equal', same_value(spec, name_of(c, h, a), name_of(c, h, b))),
                    ('C20', 'widths-equal', c.len(h['_wires'][a]) == c.len(h['_wires'][b])),
                    ('C20', 'pin-counts-equal-per-wire', ForAll([k], Implies(And(0 <= k, k < c.len(h['_wires'][a])),
                                                                 c.len(h['_pins'][w1(k)]) == c.len(h['_pins'][w2(k)])))),
                    ('C20', 'pin-kinds-equal-per-position', ForAll([k, j], Implies(And(0 <= k, k < c.len(h['_wires'][a]), 0 <= j, j < c.len(h['_pins'][w1(k)])),
                                                                    c.cls(p1(k, j)) == c.cls(p2(k, j))))),
                    ('C20', 'inner-pins-equal-per-position', ForAll([k, j], Implies(And(0 <= k, k < c.len(h['_wires'][a]), 0 <= j, j < c.len(h['_pins'][w1(k)]),
                                                                     c.cls(p1(k, j)) == c.C['InnerPin']), _same_inner(spec, h, p1(k, j), p2(k, j))))),
                    ('C20', 'outer-pins-equal-per-position', ForAll([k, j], Implies(And(0 <= k, k < c.len(h['_wires'][a]), 0 <= j, j < c.len(h['_pins'][w1(k)]),
                                                                     c.cls(p1(k, j)) == c.C['OuterPin']),
                                                                     And(_same_instance(spec, h, h['_instance'][p1(k, j)], h['_instance'][p2(k, j)]),
                                                                         _same_inner(spec, h, h['_inner_pin'][p1(k, j)], h['_inner_pin'][p2(k, j)])))))]
        return out
    return f


POSTS = {'Comparer.' + f[1]: post(f[1]) for f in FUNCTIONS}
