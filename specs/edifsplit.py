"""Contract for EdifParser.separate_name_and_index (spydrnet/parsers/edif/parser.py, C05): how the EDIF reader recognises a bit net and
splits its name -- the step on which "bit nets written as name[i] / id_i_ are merged into one cable with bit i at position i - base"
rests (multibit_add_cable calls it once with "[" on the original name and once with "_" on the EDIF identifier).

    separate_name_and_index(X + "[" + D + "]", "[")  ==  (int(D), X)      D a non-empty decimal numeral, X ANY string (brackets included),
                                                                          unless the name is a Verilog escaped name (leading backslash)
                                                                          that does not have the form "\\<text> <text>"
    separate_name_and_index(X + "_" + D + "_", "_")  ==  (int(D), X)      D a non-empty decimal numeral, X ANY string
    separate_name_and_index(s, c)                    ==  (None, s)        for every other string s
    it raises nothing (for "[" the name is non-empty: names and identifiers are non-empty tokens).

The shapes are stated through the position of the LAST separator (for "_": the last one before the trailing "_"): because a numeral
contains no separator, "s = X + sep + D + closing" with D a numeral holds exactly when the last separator is followed by a non-empty run
of digits up to the closing character, and X is then the text before that separator.

Strings are code-point arrays (pyvc/strvc.py).  `name.split(c)` is not built as a list: it is described by the first two / last two
positions of c and by len == 1 / == 2 / >= 3 (pyvc.strvc.Split).  The two backwards search loops are cut at

    loop 0 ("["):  no separator at any position already visited
    loop 1 ("_"):  count is 0 or 1; 0: no separator visited; 1: exactly the last separator of the name has been visited

`break` leaves the loop with the position being visited.  int() of a numeral is an uninterpreted function of its characters."""
import ast, os, hashlib
from z3 import Int, And, Or, Not, Implies, ForAll, BoolVal, IntVal, IntSort, Array, If
import pyvc.strvc as S

FILE = 'spydrnet/parsers/edif/parser.py'
CLS = 'EdifParser'
FN = 'separate_name_and_index'


def _eq(x, y):
    k = Int('kq_se%d' % next(S._n))
    return And(x.n == y.n, ForAll([k], Implies(And(0 <= k, k < x.n), x.a[k] == y.a[k]), patterns=[x.a[k]]))


def _intval_ext():
    n = Int('nq_iv'); a = Array('aq_iv', IntSort(), IntSort()); b = Array('bq_iv', IntSort(), IntSort()); k = Int('kq_iv')
    return ForAll([n, a, b], Implies(ForAll([k], Implies(And(0 <= k, k < n), a[k] == b[k])), S.INTVAL(n, a) == S.INTVAL(n, b)))


def _digits(x, lo, hi):
    j = Int('kq_dg%d' % next(S._n))
    return ForAll([j], Implies(And(lo <= j, j < hi), S.c_digit(x.a[j])), patterns=[x.a[j]])


def _loops(name_of, sep_of, ghost_last):
    """loop invariants; the functions read the name / separator from the environment the loop runs in"""
    def inv0(entry, env, lo, i, hi):
        x = name_of(env); ch = sep_of(env); j = Int('kq_l0%d' % next(S._n))
        return [('no-separator-at-a-visited-position', ForAll([j], Implies(And(i < j, j < hi), x.a[j] != ch), patterns=[x.a[j]]))]

    def inv1(entry, env, lo, i, hi):
        x = name_of(env); ch = sep_of(env); j = Int('kq_l1%d' % next(S._n)); cnt = env['count'][1]; g = ghost_last['t']
        return [('count-is-0-or-1', Or(cnt == 0, cnt == 1)),
                ('count-0-no-separator-visited', Implies(cnt == 0, ForAll([j], Implies(And(i < j, j < hi), x.a[j] != ch), patterns=[x.a[j]]))),
                ('count-1-exactly-the-last-separator-visited',
                 Implies(cnt == 1, And(i < g, g < hi, ForAll([j], Implies(And(i < j, j < hi, j != g), x.a[j] != ch), patterns=[x.a[j]]))))]
    return {(FN, 0): {'inv': inv0, 'modifies': []}, (FN, 1): {'inv': inv1, 'modifies': ['count']}}


def oracle(name, sep):
    """the contract as executable Python, written from the statement above with a regular expression (used to replay a solver model
    against the real function)"""
    import re
    if sep == '[':
        esc_ok = (not name.startswith('\\')) or (name.count(' ') == 1 and not name.endswith(' '))
        m = re.fullmatch(r'(?s)(.*)\[([0-9]+)\]', name)
        if m and esc_ok: return int(m.group(2)), m.group(1)
        return None, name
    m = re.fullmatch(r'(?s)(.*)_([0-9]+)_', name)
    if m: return int(m.group(2)), m.group(1)
    return None, name


def run(repo):
    """returns (results [(name, status, seconds, detail, backend-or-model)], {function: sha}, {function: reason it left the subset})"""
    tree = ast.parse(open(os.path.join(repo, FILE)).read())
    cls = [n for n in tree.body if isinstance(n, ast.ClassDef) and n.name == CLS]
    results = []; shas = {}; degraded = {}
    qual = '%s.%s' % (CLS, FN)
    if not cls: return results, shas, {qual: 'class %s not found' % CLS}
    fn = [f for f in cls[0].body if isinstance(f, ast.FunctionDef) and f.name == FN]
    if not fn: return results, shas, {qual: 'function not found'}
    shas[qual] = hashlib.sha256(ast.dump(fn[0]).encode()).hexdigest()[:16]
    agg = {}
    rank = {'discharged': 0, 'undecided': 1, 'failed': 2}

    def rec(name, r):
        cur = agg.get(name)
        if cur is None or rank[r[0]] > rank[cur[0]]: agg[name] = r

    def case(tag, sep_text, mk):
        ghost = {}
        se = S.StrSE(cls[0], {}, {}, _loops(lambda env: env['name'][1], lambda env: env['split_character'][1].a[0], ghost))
        st = S.St([_intval_ext()])
        x = S.fresh_str('name'); k = Int('kq_pr%d' % next(S._n))
        sep = S.const_str(sep_text); st.pc += sep.facts; sep.facts = []
        ch = ord(sep_text)
        st.pc += [x.n >= 0, ForAll([k], Implies(And(0 <= k, k < x.n), S.c_print(x.a[k])), patterns=[x.a[k]])]
        # ghost positions (definitional: such a position, or -1, exists for every string)
        if sep_text == '[':
            g, fg = S._last_in(x, ch, IntVal(0), x.n, 'gh_last'); st.pc += [fg, x.n >= 1]
            fs, ffs = S._first_in(x, 32, IntVal(0), x.n, 'gh_fsp'); ls, fls = S._last_in(x, 32, IntVal(0), x.n, 'gh_lsp'); st.pc += [ffs, fls]
            esc_ok = Or(x.a[0] != 92, And(fs >= 0, fs == ls, fs < x.n - 1))
            shape = And(esc_ok, g >= 0, x.a[x.n - 1] == 93, g + 1 < x.n - 1, _digits(x, g + 1, x.n - 1))
            ghost['t'] = g
        else:
            t, ft = S._last_in(x, ch, IntVal(0), x.n - 1, 'gh_prev'); st.pc += [Implies(x.n >= 1, ft), Implies(x.n < 1, t == -1)]
            gl, fgl = S._last_in(x, ch, IntVal(0), x.n, 'gh_last'); st.pc += [fgl]
            shape = And(x.n >= 1, x.a[x.n - 1] == 95, t >= 0, t + 1 < x.n - 1, _digits(x, t + 1, x.n - 1))
            g = t; ghost['t'] = gl
        pre, want_index = mk(shape)
        st.pc += pre
        if not se.sat(st):
            rec('VACUITY/%s/%s/precondition-satisfiable' % (FN, tag), ('failed', 0.0, 'contradictory precondition', '')); return
        try:
            se.call_method(st, FN, [('str', x), ('str', sep)], lambda s_, v: se.exit(s_, 'normal', v))
        except S.Unsupported as e:
            degraded[qual] = 'left-subset: %s' % e; return
        inputs = {'name': x}
        for name, hyps, goal in se.obligations:
            rec('C05/%s/%s/%s' % (FN, tag, name), S.discharge(hyps, goal, inputs=inputs))
        normal = 0
        for s_, kind, val in se.outcomes:
            if kind != 'normal':
                rec('C05/%s/%s/exit=%s/does-not-raise' % (FN, tag, kind), S.discharge(s_.pc, BoolVal(False), inputs=inputs)); continue
            normal += 1
            if val[0] != 'tuple' or len(val[1]) != 2 or val[1][1][0] != 'str' or val[1][0][0] not in ('int', 'none'):
                rec('C05/%s/%s/exit=normal/returns-an-index-and-a-name' % (FN, tag), ('failed', 0.0, 'returned %s' % (val,), '')); continue
            ri, rn = val[1][0], val[1][1][1]
            if want_index:
                digits = S.slice_(x, g + 1, x.n - 1); base = S.slice_(x, IntVal(0), g)
                hyps = list(s_.pc) + digits.facts + base.facts
                if ri[0] != 'int':
                    rec('C05/%s/%s/exit=normal/index-is-the-numeral' % (FN, tag), S.discharge(hyps, BoolVal(False), inputs=inputs))
                else:
                    rec('C05/%s/%s/exit=normal/index-is-the-numeral' % (FN, tag), S.discharge(hyps, ri[1] == S.INTVAL(digits.n, digits.a), inputs=inputs))
                rec('C05/%s/%s/exit=normal/name-is-the-text-before-the-separator' % (FN, tag), S.discharge(hyps, _eq(rn, base), inputs=inputs))
            else:
                rec('C05/%s/%s/exit=normal/no-index' % (FN, tag), S.discharge(s_.pc, BoolVal(ri[0] == 'none'), inputs=inputs))
                rec('C05/%s/%s/exit=normal/name-unchanged' % (FN, tag), S.discharge(s_.pc, _eq(rn, x), inputs=inputs))
        if normal == 0 and qual not in degraded:
            rec('VACUITY/%s/%s/no-normal-exit' % (FN, tag), ('failed', 0.0, 'no normal exit reached', ''))

    for sep_text, word in (('[', 'bracket'), ('_', 'underscore')):
        case('%s/bit-name' % word, sep_text, lambda shape: ([shape], True))
        case('%s/other-name' % word, sep_text, lambda shape: ([Not(shape)], False))
    for n_, r in sorted(agg.items()):
        results.append((n_, r[0], round(r[1], 3), r[2], r[3]))
    if not agg and not degraded:
        results.append(('VACUITY/%s/no-obligations' % FN, 'failed', 0.0, 'zero obligations', ''))
    return results, shas, degraded


if __name__ == '__main__':
    import sys, json
    sys.setrecursionlimit(20000)
    res, shas, deg = run(os.environ.get('VERIF_REPO', '/repo'))
    for r in res: print(r[1], r[0], r[2], str(r[3])[:300] if r[1] != 'discharged' else '', r[4] if r[1] != 'discharged' else r[4])
    print(shas, deg)
