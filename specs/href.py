"""Contract for HRef.is_valid (spydrnet/util/hierarchical_reference.py), C11: "a reference reports invalid in agreement with the
current netlist".

A hierarchical reference is a chain of immutable nodes (parent node, item).  `valid(x)` is defined from the CURRENT netlist, top-down
in meaning and by recursion over the parent node:

    item an Instance, no parent node   : it is the top instance of the netlist that holds the library of the definition it references
    item an Instance, parent node p    : p's item is an instance that REFERENCES the definition containing the item, and valid(p)
    item a Port / Cable, parent node p : p's item is an instance that references the definition containing the item, and valid(p)
    item a Wire / InnerPin, parent p   : p's item is the cable / port that contains it, and valid(p)
    anything else                      : not valid

The code tests membership in `definition.references`; the specification says `instance.reference is definition`: the two agree
because of Inv (I3, proved for every IR mutator under C02).  The while loop is cut at the invariant
"valid(self) == valid(current node)" (or the walk has left the chain and valid(self) is false)."""
from z3 import And, Or, Not, Implies, If, Const, ForAll, BoolVal, Function, BoolSort
from specs.ir import IRSpec, loop_spec
from pyvc.se import R, B, Unsupported

FILES = {'HRef': 'spydrnet/util/hierarchical_reference.py'}
FUNCTIONS = [('HRef', 'is_valid', 'getter', []), ('HRef', '__eq__', 'method', [('other', 'any')])]


class HRefSpec(IRSpec):
    def __init__(self, ctx, ct):
        super().__init__(ctx, ct, listener='stock', check_cover=False)
        self._in_hook = False

    def getattr_hook(self, se, st, v, name, cont):
        """`parent` / `item` of an HRef node are plain slots; Instance.parent etc. go the usual way"""
        if name not in ('parent', 'item') or self._in_hook: return NotImplemented
        c = self.ctx; r = v[1]
        s1 = st.fork(); s1.pc.append(c.isa(r, 'HRef'))
        s2 = st.fork(); s2.pc.append(Not(c.isa(r, 'HRef')))
        f1, f2 = se.sat(s1, strong=True), se.sat(s2, strong=True)
        if f1:
            cont(s1, R(s1.heap['hr_parent' if name == 'parent' else 'hr_item'][r]))
        if f2:
            # the usual resolution for every other class; the flag only covers the dispatch itself, not the continuation
            def k(s, val):
                self._in_hook = False
                return cont(s, val)
            self._in_hook = True
            try: se.getattr_(s2, v, name, k)
            finally: self._in_hook = False
        return True

    def global_name(self, se, st, name):
        if name == 'ir': return ('module', 'ir')
        return super().global_name(se, st, name)


def valid_fn(ctx):
    if not hasattr(ctx, '_hvalid'): ctx._hvalid = Function('href_valid', ctx.Ref, BoolSort())
    return ctx._hvalid


def definition_of_valid(ctx, h):
    c = ctx; V = valid_fn(c)
    x = Const('xq_hv', c.Ref)
    it = h['hr_item'][x]; hp = h['hr_parent'][x]; pit = h['hr_item'][hp]
    ref = h['_reference'][it]; lib = h['_library'][ref]; nl = h['_netlist'][lib]; top = h['_top_instance'][nl]
    refers_to = lambda inst, d: And(c.isa(inst, 'Instance'), h['_reference'][inst] == d)
    body = If(c.isa(it, 'Instance'),
              If(hp == c.null, And(ref != c.null, lib != c.null, nl != c.null, top != c.null, top == it),
                 And(h['_parent'][it] != c.null, refers_to(pit, h['_parent'][it]), V(hp))),
           If(c.isa(it, 'Cable', 'Port'), And(hp != c.null, h['_definition'][it] != c.null, refers_to(pit, h['_definition'][it]), V(hp)),
           If(c.isa(it, 'Wire'), And(hp != c.null, h['_cable'][it] != c.null, pit == h['_cable'][it], V(hp)),
           If(c.isa(it, 'InnerPin'), And(hp != c.null, h['_port'][it] != c.null, pit == h['_port'][it], V(hp)), BoolVal(False)))))
    return ForAll([x], Implies(And(h['alloc'][x], c.isa(x, 'HRef')), V(x) == body), patterns=[V(x)])


def extra_pre(ctx, spec, h0):
    c = ctx
    x = Const('xq_hp', c.Ref)
    hp = h0['hr_parent'][x]; it = h0['hr_item'][x]
    SM = same_fn(c); z = Const('zq_rf', c.Ref)
    okz = Or(z == c.null, And(h0['alloc'][z], c.isa(z, 'HRef')))
    # reflexivity of "same path": by induction over the (finite, acyclic) parent chain; base and step are discharged as obligations of
    # HRef.__eq__ (post_eq: induction.*), the induction principle itself is the assumption "chains are finite"
    reflexive = ForAll([z], Implies(okz, SM(z, z)), patterns=[SM(z, z)])
    return [definition_of_valid(c, h0), definition_of_same(c, h0), reflexive,
            # the items of reference nodes are instances, ports, cables, wires and inner pins: compared by identity (an OuterPin, whose == is
            # structural, is never the item of a node)
            ForAll([x], Implies(And(h0['alloc'][x], c.isa(x, 'HRef')), Not(c.isa(h0['hr_item'][x], 'OuterPin'))), patterns=[h0['hr_item'][x]]),
            # nodes are well-typed: the parent is None or a node, the item is None or an allocated object that is not a node
            ForAll([x], Implies(And(h0['alloc'][x], c.isa(x, 'HRef')), And(Or(hp == c.null, And(h0['alloc'][hp], c.isa(hp, 'HRef'))),
                                                                            h0['alloc'][it], Not(c.isa(it, 'HRef')))), patterns=[h0['hr_parent'][x], h0['hr_item'][x]])]


@loop_spec('HRef.is_valid', 0, 'while', [], {'href': 'ref'})
def _inv_is_valid(lv):
    c = lv.ctx; h = lv.h; V = valid_fn(c)
    self_ = lv.env['self'][1]; cur = lv.cur['href'][1]
    return [('C11', 'walk', If(cur == c.null, Not(V(self_)), And(h['alloc'][cur], c.isa(cur, 'HRef'), V(self_) == V(cur))))]


def same_fn(ctx):
    if not hasattr(ctx, '_hsame'): ctx._hsame = Function('href_same_path', ctx.Ref, ctx.Ref, BoolSort())
    return ctx._hsame


def definition_of_same(ctx, h):
    """two chains of nodes denote the same path: both exhausted together, and item by item the same element"""
    c = ctx; SM = same_fn(c)
    x, y = Const('xq_sm', c.Ref), Const('yq_sm', c.Ref)
    body = If(Or(x == c.null, y == c.null), And(x == c.null, y == c.null),
              And(h['hr_item'][x] == h['hr_item'][y], SM(h['hr_parent'][x], h['hr_parent'][y])))
    ok = lambda z: Or(z == c.null, And(h['alloc'][z], c.isa(z, 'HRef')))
    return ForAll([x, y], Implies(And(ok(x), ok(y)), SM(x, y) == body), patterns=[SM(x, y)])


@loop_spec('HRef.__eq__', 0, 'while', [], {'this': 'ref', 'that': 'ref'})
def _inv_eq(lv):
    c = lv.ctx; h = lv.h; SM = same_fn(c)
    self_ = lv.env['self'][1]; other = lv.env['other'][1]
    a, b = lv.cur['this'][1], lv.cur['that'][1]
    ok = lambda z: Or(z == c.null, And(h['alloc'][z], c.isa(z, 'HRef')))
    return [('C11', 'walk-in-step', And(ok(a), ok(b), SM(self_, other) == SM(a, b)))]


def post_eq(ctx, spec, h0, s, ekind, args, val):
    c = ctx; SM = same_fn(c); self_ = args[0][1]; other = args[1][1]
    if ekind != 'normal':
        return [('C11', 'does-not-raise', BoolVal(False))]
    out = [('C11', 'netlist-untouched', And([s.heap[f_] == h0[f_] for f_ in h0 if f_ in s.heap and not f_.startswith(('t:', 'l:', 'lh:', 'lv:'))
                                              and not (s.heap[f_] is h0[f_])] or [BoolVal(True)]))]
    if val is None or val[0] != 'bool':
        return out + [('C11', 'returns-a-bool', BoolVal(False))]
    out.append(('C11', 'equal-iff-a-reference-to-the-same-path', val[1] == And(c.isa(other, 'HRef'), SM(self_, other))))
    return out


def induction_lemmas(ctx, h0):
    """base and step of the induction behind the reflexivity assumption, from the definition of `same path` alone"""
    from pyvc.verify import discharge
    c = ctx; SM = same_fn(c)
    z = Const('z_ind', c.Ref)
    d = [definition_of_same(c, h0)]
    wt = Const('xq_wt', c.Ref)
    typed = ForAll([wt], Implies(And(h0['alloc'][wt], c.isa(wt, 'HRef')), Or(h0['hr_parent'][wt] == c.null, And(h0['alloc'][h0['hr_parent'][wt]], c.isa(h0['hr_parent'][wt], 'HRef')))),
                   patterns=[h0['hr_parent'][wt]])
    return [('C11/HRef.__eq__/induction/base: the empty chain is the same path as itself', d, SM(c.null, c.null)),
            ('C11/HRef.__eq__/induction/step: a node is the same path as itself if its parent is', d + [typed, h0['alloc'][z], c.isa(z, 'HRef'), SM(h0['hr_parent'][z], h0['hr_parent'][z])], SM(z, z))]


def post(ctx, spec, h0, s, ekind, args, val):
    c = ctx; V = valid_fn(c); self_ = args[0][1]
    if ekind != 'normal':
        return [('C11', 'does-not-raise', BoolVal(False))]
    out = [('C11', 'netlist-untouched', And([s.heap[f_] == h0[f_] for f_ in h0 if f_ in s.heap and not f_.startswith(('t:', 'l:', 'lh:', 'lv:'))
                                              and not (s.heap[f_] is h0[f_])] or [BoolVal(True)]))]
    if val is not None and val[0] == 'ref':
        out.append(('C11', 'reports-validity-of-the-path-in-the-current-netlist', val[1] == If(V(self_), c.pyTrue, c.pyFalse)))
        return out
    if val is None or val[0] != 'bool':
        return out + [('C11', 'returns-a-bool', BoolVal(False))]
    out.append(('C11', 'reports-validity-of-the-path-in-the-current-netlist', val[1] == V(self_)))
    return out


POSTS = {'HRef.is_valid': post, 'HRef.__eq__': post_eq}
