"""Contract for HRef.is_valid (spydrnet/util/hierarchical_reference.py), C11: "a reference reports invalid in agreement with the
current netlist".

A hierarchical reference is a chain of immutable nodes (parent node, item).  `valid(x)` is defined from the CURRENT netlist, top-down
in meaning and by recursion over the parent node:

    item an Instance, no parent node   : it is the top instance of the netlist that holds the library of the definition it references
    item an Instance, parent node p    : p's item is an instance that REFERENCES the definition containing the item, and valid(p)
    item a Port / Cable, parent node p : p's item is an instance that references the definition containing the item, and valid(p)
    item a Wire / InnerPin, parent p   : p's item is the cable / port that contains it, and valid(p)
    anything else                      : not valid

The code tests membership in `definition.references`; the specification says `instance.reference is definition`: the two agree
because of Inv (I3, proved for every IR mutator under C02).  The while loop is cut at the invariant
"valid(self) == valid(current node)" (or the walk has left the chain and valid(self) is false)."""
from z3 import And, Or, Not, Implies, If, Const, ForAll, BoolVal, Function, BoolSort
from specs.ir import IRSpec, loop_spec
from pyvc.se import R, B, Unsupported

FILES = {'HRef': 'spydrnet/util/hierarchical_reference.py'}
FUNCTIONS = [('HRef', 'is_valid', 'getter', [])]


class HRefSpec(IRSpec):
    def __init__(self, ctx, ct):
        super().__init__(ctx, ct, listener='stock', check_cover=False)
        self._in_hook = False

    def getattr_hook(self, se, st, v, name, cont):
        """`parent` / `item` of an HRef node are plain slots; Instance.parent etc. go the usual way"""
        if name not in ('parent', 'item') or self._in_hook: return NotImplemented
        c = self.ctx; r = v[1]
        s1 = st.fork(); s1.pc.append(c.isa(r, 'HRef'))
        s2 = st.fork(); s2.pc.append(Not(c.isa(r, 'HRef')))
        f1, f2 = se.sat(s1, strong=True), se.sat(s2, strong=True)
        if f1:
            cont(s1, R(s1.heap['hr_parent' if name == 'parent' else 'hr_item'][r]))
        if f2:
            # the usual resolution for every other class; the flag only covers the dispatch itself, not the continuation
            def k(s, val):
                self._in_hook = False
                return cont(s, val)
            self._in_hook = True
            try: se.getattr_(s2, v, name, k)
            finally: self._in_hook = False
        return True

    def global_name(self, se, st, name):
        if name == 'ir': return ('module', 'ir')
        return super().global_name(se, st, name)


def valid_fn(ctx):
    if not hasattr(ctx, '_hvalid'): ctx._hvalid = Function('href_valid', ctx.Ref, BoolSort())
    return ctx._hvalid


def definition_of_valid(ctx, h):
    c = ctx; V = valid_fn(c)
    x = Const('xq_hv', c.Ref)
    it = h['hr_item'][x]; hp = h['hr_parent'][x]; pit = h['hr_item'][hp]
    ref = h['_reference'][it]; lib = h['_library'][ref]; nl = h['_netlist'][lib]; top = h['_top_instance'][nl]
    refers_to = lambda inst, d: And(c.isa(inst, 'Instance'), h['_reference'][inst] == d)
    body = If(c.isa(it, 'Instance'),
              If(hp == c.null, And(ref != c.null, lib != c.null, nl != c.null, top != c.null, top == it),
                 And(h['_parent'][it] != c.null, refers_to(pit, h['_parent'][it]), V(hp))),
           If(c.isa(it, 'Cable', 'Port'), And(hp != c.null, h['_definition'][it] != c.null, refers_to(pit, h['_definition'][it]), V(hp)),
           If(c.isa(it, 'Wire'), And(hp != c.null, h['_cable'][it] != c.null, pit == h['_cable'][it], V(hp)),
           If(c.isa(it, 'InnerPin'), And(hp != c.null, h['_port'][it] != c.null, pit == h['_port'][it], V(hp)), BoolVal(False)))))
    return ForAll([x], Implies(And(h['alloc'][x], c.isa(x, 'HRef')), V(x) == body), patterns=[V(x)])


def extra_pre(ctx, spec, h0):
    c = ctx
    x = Const('xq_hp', c.Ref)
    hp = h0['hr_parent'][x]; it = h0['hr_item'][x]
    return [definition_of_valid(c, h0),
            # nodes are well-typed: the parent is None or a node, the item is None or an allocated object that is not a node
            ForAll([x], Implies(And(h0['alloc'][x], c.isa(x, 'HRef')), And(Or(hp == c.null, And(h0['alloc'][hp], c.isa(hp, 'HRef'))),
                                                                            h0['alloc'][it], Not(c.isa(it, 'HRef')))), patterns=[h0['hr_parent'][x], h0['hr_item'][x]])]


@loop_spec('HRef.is_valid', 0, 'while', [], {'href': 'ref'})
def _inv_is_valid(lv):
    c = lv.ctx; h = lv.h; V = valid_fn(c)
    self_ = lv.env['self'][1]; cur = lv.cur['href'][1]
    return [('C11', 'walk', If(cur == c.null, Not(V(self_)), And(h['alloc'][cur], c.isa(cur, 'HRef'), V(self_) == V(cur))))]


def post(ctx, spec, h0, s, ekind, args, val):
    c = ctx; V = valid_fn(c); self_ = args[0][1]
    if ekind != 'normal':
        return [('C11', 'does-not-raise', BoolVal(False))]
    out = [('C11', 'netlist-untouched', And([s.heap[f_] == h0[f_] for f_ in h0 if f_ in s.heap and not f_.startswith(('t:', 'l:', 'lh:', 'lv:'))
                                              and not (s.heap[f_] is h0[f_])] or [BoolVal(True)]))]
    if val is not None and val[0] == 'ref':
        out.append(('C11', 'reports-validity-of-the-path-in-the-current-netlist', val[1] == If(V(self_), c.pyTrue, c.pyFalse)))
        return out
    if val is None or val[0] != 'bool':
        return out + [('C11', 'returns-a-bool', BoolVal(False))]
    out.append(('C11', 'reports-validity-of-the-path-in-the-current-netlist', val[1] == V(self_)))
    return out


POSTS = {'HRef.is_valid': post}
