"""Contracts for the leaf clone functions of spydrnet/ir (C07, element level): Wire.clone, InnerPin.clone.

    clone() returns a NEW object of the same class that belongs to nothing and is connected to nothing, every object that existed
    before is exactly as it was (field by field, order included), and the netlist invariant Inv holds afterwards (so the clone is
    well-formed and nothing of the original points at it).

The memo dictionary of the three-phase clone protocol (`_clone(memo)`, `_clone_rip()`) is a local object-keyed dictionary; stores
to the fresh object before it is returned are internal (no cover obligations: C19 is about what listeners are told, and the only
announcement here is the creation of the new object)."""
from z3 import And, Or, Not, Implies, Const, ForAll, BoolVal
from specs.ir import IRSpec
from pyvc.logic import FIELDS

FUNCTIONS = [
    ('Wire', 'clone', 'method', []),
    ('InnerPin', 'clone', 'method', []),
    ('OuterPin', 'clone', 'method', []),
]


class CloneSpec(IRSpec):
    memo_dicts = True

    def __init__(self, ctx, ct):
        super().__init__(ctx, ct, listener='stock', check_cover=False)


def post(fname):
    def f(ctx, spec, h0, s, ekind, args, val):
        c = ctx; h = s.heap; self_ = args[0][1]
        if ekind != 'normal':
            return [('C07', 'does-not-raise', BoolVal(False))]
        out = []
        if val is None or val[0] != 'ref':
            return [('C07', 'returns-an-object', BoolVal(False))]
        r = val[1]
        x = Const('xq_cl', c.Ref)
        out.append(('C07', 'result-is-new', And(Not(h0['alloc'][r]), h['alloc'][r], r != c.null)))
        out.append(('C07', 'result-has-the-class-of-the-original', c.cls(r) == c.cls(self_)))
        out.append(('C07', 'nothing-else-allocated', ForAll([x], Implies(And(h['alloc'][x], x != r), h0['alloc'][x]), patterns=[h['alloc'][x]])))
        # the original and everything else is as it was
        for f_, (owners, kind) in FIELDS.items():
            if kind in ('ref', 'val', 'list', 'set'):
                out.append(('C07', 'original-untouched.' + f_, ForAll([x], Implies(h0['alloc'][x], h[f_][x] == h0[f_][x]), patterns=[h[f_][x]])))
        for f_ in ('okeys', 'ovals', 'dhas', 'dval'):
            out.append(('C07', 'original-untouched.' + f_, ForAll([x], Implies(h0['alloc'][x], h[f_][x] == h0[f_][x]), patterns=[h[f_][x]])))
        # the clone stands alone
        if c.C.get('Wire') is not None:
            y = Const('yq_cl', c.Ref)
            out.append(('C07', 'clone-stands-alone', And(
                Implies(c.isa(r, 'Wire'), And(h['_cable'][r] == c.null, c.len(h['_pins'][r]) == 0, ForAll([y], c.cnt(h['_pins'][r], y) == 0, patterns=[c.cnt(h['_pins'][r], y)]))),
                Implies(c.isa(r, 'InnerPin'), And(h['_port'][r] == c.null, h['_wire'][r] == c.null)),
                Implies(c.isa(r, 'OuterPin'), And(h['_instance'][r] == c.null, h['_inner_pin'][r] == c.null, h['_wire'][r] == c.null)))))
        for prop, cname, g in spec.inv.clauses(h):
            out.append(('C07', 'Inv.' + cname, g))
        return out
    return f


POSTS = {'%s.%s' % (f[0], f[1]): post(f[1]) for f in FUNCTIONS}
