"""Contracts for the leaf clone functions of spydrnet/ir (C07, element level): Wire.clone, InnerPin.clone.

    clone() returns a NEW object of the same class that belongs to nothing and is connected to nothing, every object that existed
    before is exactly as it was (field by field, order included), and the netlist invariant Inv holds afterwards (so the clone is
    well-formed and nothing of the original points at it).

The memo dictionary of the three-phase clone protocol (`_clone(memo)`, `_clone_rip()`) is a local object-keyed dictionary; stores
to the fresh object before it is returned are internal (no cover obligations: C19 is about what listeners are told, and the only
announcement here is the creation of the new object)."""
from z3 import And, Or, Not, Implies, Const, ForAll, BoolVal
from z3 import If, Store
from specs.ir import IRSpec, loop_spec
from pyvc.logic import FIELDS

FUNCTIONS = [
    ('Wire', 'clone', 'method', []),
    ('InnerPin', 'clone', 'method', []),
    ('OuterPin', 'clone', 'method', []),
    ('Port', 'clone', 'method', []),
    ('Cable', 'clone', 'method', []),
    ('Instance', 'clone', 'method', []),
]


# ------------------------------------------------------------------ loop invariants of the compound clones
def _memo(lv, h):
    m = lv.cur['memo'] if 'memo' in lv.cur else lv.env['memo']
    return h['memo_k:%d' % m[1]], h['memo_v:%d' % m[1]]


def _copies_loop(lv, child_cls, parent_field, list_name):
    """`for p in self._children: new.append(p._clone(memo))`: one new child object per handled element, in the local list exactly once,
    belonging to nothing yet; the memo maps each handled element to its copy; nothing that existed before the loop is written"""
    c = lv.ctx; h, hl = lv.h, lv.hl
    A, A0 = h['alloc'], hl['alloc']
    new = lambda x: And(A[x], Not(A0[x]))
    NP = lv.cur[list_name][1]
    MK, MV = _memo(lv, h); MK0, MV0 = _memo(lv, hl)
    x = Const('xq_cp', c.Ref)
    out = [('C07', 'copies.local-list', ForAll([x], c.cnt(NP, x) == If(new(x), 1, 0), patterns=[c.cnt(NP, x)])),
           ('C07', 'copies.new-objects', ForAll([x], Implies(new(x), And(c.cls(x) == c.C[child_cls], h[parent_field][x] == c.null)),
                                                patterns=[A[x], h[parent_field][x]])),
           ('C07', 'copies.memo-handled', ForAll([x], Implies(lv.seen[x], And(MK[x], new(MV[x]))), patterns=[lv.seen[x], MV[x]])),
           ('C07', 'copies.memo-others', ForAll([x], Implies(Not(lv.seen[x]), And(MK[x] == MK0[x], MV[x] == MV0[x])), patterns=[MK[x], MV[x]])),
           ('C07', 'copies.count', c.len(NP) == c.card(lv.seen))]
    return out


def _old_untouched(lv, fields):
    c = lv.ctx; h, hl = lv.h, lv.hl
    x = Const('xq_ou', c.Ref)
    return [('C07', 'old-objects.' + f_, ForAll([x], Implies(hl['alloc'][x], h[f_][x] == hl[f_][x]), patterns=[h[f_][x]])) for f_ in fields]


@loop_spec('Port._clone', 0, 'list', ['alloc', '_port', '_wire', 'memo*'], {'new_pins': 'list'})
def _inv_port_clone_0(lv):
    return _copies_loop(lv, 'InnerPin', '_port', 'new_pins') + _old_untouched(lv, ['_port', '_wire'])


@loop_spec('Port._clone', 1, 'list', ['_port'])
def _inv_port_clone_1(lv):
    c = lv.ctx; h, hl = lv.h, lv.hl; cp = lv.cur['c'][1]
    x = Const('xq_p1', c.Ref)
    return [('C07', 'adopted', ForAll([x], h['_port'][x] == If(lv.seen[x], cp, hl['_port'][x]), patterns=[h['_port'][x]]))]


@loop_spec('Cable._clone', 0, 'list', ['alloc', '_cable', '_pins', 'memo*'], {'new_wires': 'list'})
def _inv_cable_clone_0(lv):
    return _copies_loop(lv, 'Wire', '_cable', 'new_wires') + _old_untouched(lv, ['_cable', '_pins'])


@loop_spec('Cable._clone', 1, 'list', ['_cable'])
def _inv_cable_clone_1(lv):
    c = lv.ctx; h, hl = lv.h, lv.hl; cp = lv.cur['c'][1]
    x = Const('xq_c1', c.Ref)
    return [('C07', 'adopted', ForAll([x], h['_cable'][x] == If(lv.seen[x], cp, hl['_cable'][x]), patterns=[h['_cable'][x]]))]


@loop_spec('Cable._clone_rip', 0, 'list', ['_pins', '_cable'])
def _inv_cable_rip_0(lv):
    c = lv.ctx; h, hl = lv.h, lv.hl; self_ = lv.env['self'][1]
    x = Const('xq_cr', c.Ref); y = Const('yq_cr', c.Ref)
    return [('C07', 'ripped.cable', ForAll([x], h['_cable'][x] == If(lv.seen[x], self_, hl['_cable'][x]), patterns=[h['_cable'][x]])),
            ('C07', 'ripped.pins', ForAll([x, y], Implies(lv.seen[x], c.cnt(h['_pins'][x], y) == 0), patterns=[c.cnt(h['_pins'][x], y)])),
            ('C07', 'ripped.pins-length', ForAll([x], Implies(lv.seen[x], c.len(h['_pins'][x]) == 0), patterns=[c.len(h['_pins'][x])])),
            ('C07', 'ripped.others', ForAll([x], Implies(Not(lv.seen[x]), h['_pins'][x] == hl['_pins'][x]), patterns=[h['_pins'][x]]))]


@loop_spec('Instance._clone', 0, 'opins', ['alloc', '_instance', '_inner_pin', '_wire', 'okeys', 'ovals', 'memo*'])
def _inv_instance_clone_0(lv):
    """one new outer pin per handled (inner pin, outer pin) item, stored in the clone under the same inner pin"""
    c = lv.ctx; h, hl = lv.h, lv.hl; cp = lv.cur['c'][1]; self_ = lv.env['self'][1]
    A, A0 = h['alloc'], hl['alloc']
    new = lambda x: And(A[x], Not(A0[x]))
    MK, MV = _memo(lv, h); MK0, MV0 = _memo(lv, hl)
    q = Const('qq_ic', c.Ref); x = Const('xq_ic', c.Ref); i = Const('iq_ic', c.Ref)
    o = lambda q_: h['ovals'][cp][q_]
    opk = lambda q_: c._opkey(self_, q_)
    out = [('C07', 'clone-keys', ForAll([q], h['okeys'][cp][q] == lv.seen[q], patterns=[h['okeys'][cp][q]])),
           ('C07', 'clone-values', ForAll([q], Implies(lv.seen[q], And(new(o(q)), c.cls(o(q)) == c.C['OuterPin'], h['_instance'][o(q)] == cp,
                                                                         h['_inner_pin'][o(q)] == q, h['_wire'][o(q)] == hl['_wire'][hl['ovals'][self_][q]])),
                                           patterns=[o(q)])),
           ('C07', 'new-objects-are-stored', ForAll([x], Implies(new(x), And(c.cls(x) == c.C['OuterPin'], h['_instance'][x] == cp, lv.seen[h['_inner_pin'][x]],
                                                                             o(h['_inner_pin'][x]) == x)), patterns=[A[x]])),
           ('C07', 'other-dictionaries', ForAll([i], Implies(i != cp, And(h['okeys'][i] == hl['okeys'][i], h['ovals'][i] == hl['ovals'][i])),
                                                 patterns=[h['okeys'][i], h['ovals'][i]]))]
    if True:
        out.append(('C07', 'memo-unhandled', ForAll([q], Implies(Not(lv.seen[q]), Not(MK[opk(q)])), patterns=[MK[opk(q)]])))
    return out + _old_untouched(lv, ['_instance', '_inner_pin', '_wire'])


@loop_spec('Instance._clone_rip', 0, 'opins', ['_wire'])
def _inv_instance_rip_0(lv):
    c = lv.ctx; h, hl = lv.h, lv.hl; self_ = lv.env['self'][1]
    x = Const('xq_ir', c.Ref)
    done = lambda x_: And(hl['_instance'][x_] == self_, c.cls(x_) == c.C['OuterPin'], lv.seen[hl['_inner_pin'][x_]], hl['ovals'][self_][hl['_inner_pin'][x_]] == x_)
    return [('C07', 'ripped', ForAll([x], h['_wire'][x] == If(done(x), c.null, hl['_wire'][x]), patterns=[h['_wire'][x]]))]


@loop_spec('Port._clone_rip', 0, 'list', ['_wire'])
def _inv_port_rip_0(lv):
    c = lv.ctx; h, hl = lv.h, lv.hl
    x = Const('xq_r0', c.Ref)
    return [('C07', 'ripped', ForAll([x], h['_wire'][x] == If(lv.seen[x], c.null, hl['_wire'][x]), patterns=[h['_wire'][x]]))]



class CloneSpec(IRSpec):
    memo_dicts = True

    def __init__(self, ctx, ct):
        super().__init__(ctx, ct, listener='stock', check_cover=False)
        from pyvc.se import ensure_opkey
        ensure_opkey(ctx)


def post(fname):
    def f(ctx, spec, h0, s, ekind, args, val):
        c = ctx; h = s.heap; self_ = args[0][1]
        if ekind != 'normal':
            return [('C07', 'does-not-raise', BoolVal(False))]
        out = []
        if val is None or val[0] != 'ref':
            return [('C07', 'returns-an-object', BoolVal(False))]
        r = val[1]
        x = Const('xq_cl', c.Ref)
        out.append(('C07', 'result-is-new', And(Not(h0['alloc'][r]), h['alloc'][r], r != c.null)))
        out.append(('C07', 'result-has-the-class-of-the-original', c.cls(r) == c.cls(self_)))
        owned = lambda y: BoolVal(False)
        if fname == 'Port.clone': owned = lambda y: c.cnt(h['_pins'][r], y) > 0
        if fname == 'Cable.clone': owned = lambda y: c.cnt(h['_wires'][r], y) > 0
        if fname == 'Instance.clone': owned = lambda y: And(h['okeys'][r][h['_inner_pin'][y]], h['ovals'][r][h['_inner_pin'][y]] == y)
        out.append(('C07', 'nothing-else-allocated', ForAll([x], Implies(And(h['alloc'][x], x != r, Not(owned(x))), h0['alloc'][x]), patterns=[h['alloc'][x]])))
        # the original and everything else is as it was
        for f_, (owners, kind) in FIELDS.items():
            if kind in ('ref', 'val', 'list', 'set'):
                if f_ == '_references' and fname == 'Instance.clone':
                    # documented: the clone joins the reference set of the definition it (still) references
                    d0 = h0['_reference'][self_]
                    out.append(('C07', 'original-untouched._references', ForAll([x], Implies(h0['alloc'][x], h[f_][x] == If(And(x == d0, d0 != c.null),
                                Store(h0[f_][x], r, True), h0[f_][x])), patterns=[h[f_][x]])))
                    continue
                out.append(('C07', 'original-untouched.' + f_, ForAll([x], Implies(h0['alloc'][x], h[f_][x] == h0[f_][x]), patterns=[h[f_][x]])))
        for f_ in ('okeys', 'ovals', 'dhas', 'dval'):
            out.append(('C07', 'original-untouched.' + f_, ForAll([x], Implies(h0['alloc'][x], h[f_][x] == h0[f_][x]), patterns=[h[f_][x]])))
        # the clone stands alone
        if c.C.get('Wire') is not None:
            y = Const('yq_cl', c.Ref)
            out.append(('C07', 'clone-stands-alone', And(
                Implies(c.isa(r, 'Wire'), And(h['_cable'][r] == c.null, c.len(h['_pins'][r]) == 0, ForAll([y], c.cnt(h['_pins'][r], y) == 0, patterns=[c.cnt(h['_pins'][r], y)]))),
                Implies(c.isa(r, 'InnerPin'), And(h['_port'][r] == c.null, h['_wire'][r] == c.null)),
                Implies(c.isa(r, 'OuterPin'), And(h['_instance'][r] == c.null, h['_inner_pin'][r] == c.null, h['_wire'][r] == c.null)))))
        if fname == 'Port.clone':
            y = Const('yq_pc', c.Ref)
            out.append(('C07', 'clone-stands-alone', And(h['_definition'][r] == c.null,
                        ForAll([y], Implies(c.cnt(h['_pins'][r], y) > 0, And(c.cnt(h['_pins'][r], y) == 1, Not(h0['alloc'][y]), c.cls(y) == c.C['InnerPin'],
                                                                              h['_port'][y] == r, h['_wire'][y] == c.null)), patterns=[c.cnt(h['_pins'][r], y)]))))
            out.append(('C07', 'faithful.width', c.len(h['_pins'][r]) == c.len(h0['_pins'][self_])))
            for f_ in ('_direction', '_is_downto', '_is_scalar', '_lower_index'):
                out.append(('C07', 'faithful.' + f_, h[f_][r] == h0[f_][self_]))
            out.append(('C07', 'faithful.data', And(h['dhas'][r] == h0['dhas'][self_], h['dval'][r] == h0['dval'][self_])))
        if fname == 'Instance.clone':
            q = Const('qq_ip', c.Ref)
            o = lambda q_: h['ovals'][r][q_]
            out.append(('C07', 'clone-stands-alone', And(h['_parent'][r] == c.null,
                        ForAll([q], Implies(h['okeys'][r][q], And(Not(h0['alloc'][o(q)]), c.cls(o(q)) == c.C['OuterPin'], h['_instance'][o(q)] == r,
                                                                   h['_inner_pin'][o(q)] == q, h['_wire'][o(q)] == c.null)), patterns=[o(q)]))))
            out.append(('C07', 'faithful.pins', ForAll([q], h['okeys'][r][q] == h0['okeys'][self_][q], patterns=[h['okeys'][r][q]])))
            out.append(('C07', 'faithful.reference', h['_reference'][r] == h0['_reference'][self_]))
            out.append(('C07', 'faithful.data', And(h['dhas'][r] == h0['dhas'][self_], h['dval'][r] == h0['dval'][self_])))
        if fname == 'Cable.clone':
            y = Const('yq_cc', c.Ref); z = Const('zq_cc', c.Ref)
            out.append(('C07', 'clone-stands-alone', And(h['_definition'][r] == c.null,
                        ForAll([y], Implies(c.cnt(h['_wires'][r], y) > 0, And(c.cnt(h['_wires'][r], y) == 1, Not(h0['alloc'][y]), c.cls(y) == c.C['Wire'],
                                                                               h['_cable'][y] == r, c.len(h['_pins'][y]) == 0)), patterns=[c.cnt(h['_wires'][r], y)]),
                        ForAll([y, z], Implies(c.cnt(h['_wires'][r], y) > 0, c.cnt(h['_pins'][y], z) == 0), patterns=[c.cnt(h['_pins'][y], z)]))))
            out.append(('C07', 'faithful.width', c.len(h['_wires'][r]) == c.len(h0['_wires'][self_])))
            for f_ in ('_is_downto', '_is_scalar', '_lower_index'):
                out.append(('C07', 'faithful.' + f_, h[f_][r] == h0[f_][self_]))
            out.append(('C07', 'faithful.data', And(h['dhas'][r] == h0['dhas'][self_], h['dval'][r] == h0['dval'][self_])))
        for prop, cname, g in spec.inv.clauses(h):
            out.append(('C07', 'Inv.' + cname, g))
        return out
    return f


POSTS = {'%s.%s' % (f[0], f[1]): post('%s.%s' % (f[0], f[1])) for f in FUNCTIONS}
