"""Contracts for the two adjacency steps of cross-hierarchy tracing (spydrnet/util/get_hwires.py, C12): "the narrower selections
return exactly the wire attached on the inside, respectively the outside, of a hierarchical pin".

    _get_inner_hwire_from_hpin(hpin)  ->  the reference [ ..instance path.., cable, wire ] of the wire the inner pin is on, inside the
                                          instance the pin belongs to; None iff the pin is on no wire (or the wire in no cable)
    _get_outer_hwire_from_hpin(hpin)  ->  the reference [ ..path of the parent instance.., cable, wire ] of the wire the instance's
                                          outer pin is on, one level up; None iff the instance is the root of the path, has no such
                                          outer pin, or that pin is on no wire (or the wire in no cable)

A hierarchical pin is a chain  hinst <- hport <- hpin  of reference nodes whose items are an instance, a port, an inner pin.
`HRef.from_parent_and_item(p, x)` is used through its contract: it returns a node whose parent is p and whose item is x (the
flyweight sharing of nodes is the bounded tier's business)."""
from z3 import And, Or, Not, Implies, If, Const, ForAll, BoolVal
from specs.href import HRefSpec
from pyvc.se import R, B, Unsupported

MODULE_FUNCTIONS = {'get_hwires': 'spydrnet/util/get_hwires.py'}
FUNCTIONS = [('get_hwires', '_get_inner_hwire_from_hpin', 'static', [('hpin', 'is:HRef')]),
             ('get_hwires', '_get_outer_hwire_from_hpin', 'static', [('hpin', 'is:HRef')])]


class HWiresSpec(HRefSpec):
    def global_name(self, se, st, name):
        if name == 'HRef': return ('class', 'HRef')
        return super().global_name(se, st, name)

    def special_call(self, se, st, e, fname, cont):
        if fname == 'HRef.from_parent_and_item' and len(e.args) == 2:
            def k(s, vs):
                c = self.ctx; h = s.heap
                p, x = vs
                if p[0] != 'ref' or x[0] != 'ref': raise Unsupported('from_parent_and_item(%s, %s)' % (p[0], x[0]))
                r = c.fresh('hnode', c.Ref)
                s.pc += [r != c.null, h['alloc'][r], c.isa(r, 'HRef'), h['hr_parent'][r] == p[1], h['hr_item'][r] == x[1]]
                return cont(s, R(r))
            return se.evs(st, e.args, k)
        return super().special_call(se, st, e, fname, cont)


def arg_pre(ctx, spec, h0, qual, args):
    """the argument is a hierarchical pin: nodes for an inner pin, its port and an instance"""
    c = ctx; hpin = args[0][1]
    hport = h0['hr_parent'][hpin]; hinst = h0['hr_parent'][hport]
    node = lambda z: And(z != c.null, h0['alloc'][z], c.isa(z, 'HRef'))
    return [node(hport), node(hinst), c.isa(h0['hr_item'][hpin], 'InnerPin'), h0['alloc'][h0['hr_item'][hpin]],
            c.isa(h0['hr_item'][hport], 'Port'), c.isa(h0['hr_item'][hinst], 'Instance'), h0['alloc'][h0['hr_item'][hinst]]]


def _is_hwire(c, h, r, above, cable, wire):
    hc = h['hr_parent'][r]
    return And(r != c.null, c.isa(r, 'HRef'), h['hr_item'][r] == wire, hc != c.null, c.isa(hc, 'HRef'), h['hr_item'][hc] == cable, h['hr_parent'][hc] == above)


def post(which):
    def f(ctx, spec, h0, s, ekind, args, val):
        c = ctx; h = s.heap; hpin = args[0][1]
        if ekind != 'normal':
            return [('C12', 'does-not-raise', BoolVal(False))]
        out = [('C12', 'netlist-untouched', And([h[f_] == h0[f_] for f_ in h0 if f_ in h and not (h[f_] is h0[f_])] or [BoolVal(True)]))]
        hport = h0['hr_parent'][hpin]; hinst = h0['hr_parent'][hport]
        pin = h0['hr_item'][hpin]; inst = h0['hr_item'][hinst]
        if which == 'inner':
            wire = h0['_wire'][pin]; above = hinst
            exists = And(wire != c.null, h0['_cable'][wire] != c.null)
        else:
            op = h0['ovals'][inst][pin]; wire = h0['_wire'][op]; above = h0['hr_parent'][hinst]
            exists = And(above != c.null, h0['okeys'][inst][pin], wire != c.null, h0['_cable'][wire] != c.null)
        cable = h0['_cable'][wire]
        r = val[1] if val is not None and val[0] == 'ref' else None
        if r is None:
            return out + [('C12', 'returns-a-reference-or-None', BoolVal(False))]
        out.append(('C12', 'None-iff-there-is-no-such-wire', (r == c.null) == Not(exists)))
        out.append(('C12', 'the-wire-attached-%s-the-pin' % ('inside' if which == 'inner' else 'outside'), Implies(exists, _is_hwire(c, h, r, above, cable, wire))))
        return out
    return f


POSTS = {'get_hwires._get_inner_hwire_from_hpin': post('inner'), 'get_hwires._get_outer_hwire_from_hpin': post('outer')}
from specs.href import extra_pre     # chains of nodes are well typed; `valid` / `same path` definitions (unused here)
