"""Loop invariants for spydrnet/ir, keyed by (function qualified name, loop ordinal).
They mention only frame-entry values (lv.env), heaps (lv.hf frame entry, lv.hl loop entry, lv.h current),
and the engine-bound symbols seen / it / i -- never local temporaries of the body."""
from z3 import And, Or, Not, Implies, If, Const, ForAll, Exists, BoolVal
from specs.ir import loop_spec, REL


def same_except(lv, fields):
    """every heap component not in `fields` is the term it was at loop entry"""
    return [('C01', 'unchanged.' + f, lv.h[f] == lv.hl[f]) for f in lv.hl if f not in fields]


def removal_loop(qual, ordinal, shape, parent_field, attr, locals_=None, list_field=None):
    """for x in <excluded>: self._remove_x(x)  -- parent pointer of every visited element cleared, announced as removed"""
    mods = [parent_field, 't:' + attr, 'l:' + attr, 'ns']
    @loop_spec(qual, ordinal, shape, mods, locals_)
    def inv(lv):
        c = lv.ctx; h = lv.h; hl = lv.hl; seen = lv.seen; self_ = lv.env['self'][1]
        out = []
        out.append(('C01', 'parent-cleared', c.forall(['x'], lambda x: h[parent_field][x] == If(seen[x], c.null, hl[parent_field][x]),
                                                      lambda x: h[parent_field][x])))
        out.append(('C19', 'touched', c.forall(['x'], lambda x: h['t:' + attr][x] == Or(seen[x], hl['t:' + attr][x]), lambda x: h['t:' + attr][x])))
        out.append(('C19', 'last', c.forall(['x'], lambda x: h['l:' + attr][x] == If(seen[x], c.null, hl['l:' + attr][x]), lambda x: h['l:' + attr][x])))
        return out
    return inv


removal_loop('Cable.remove_wires_from', 0, 'set', '_cable', 'par:_wires')
