"""Loop invariants for spydrnet/ir, keyed by (function qualified name, loop ordinal in source order).
They mention only frame-entry values (lv.env), heaps (lv.hf frame entry, lv.hl loop entry, lv.h current),
and the engine-bound symbols seen / it / i / D (iteration domain).  Where an invariant needs the value of a local
(the `excluded_*` set of the bulk removals) it reads it by name; if the local no longer exists the function is
DEGRADED (bounded tier only), never reported as a violation."""
from z3 import And, Or, Not, Implies, If, Const, ForAll, Exists, BoolVal, K, Store
from specs.ir import loop_spec, REL, Unsupported


def local(lv, name):
    if name not in lv.cur:
        raise Unsupported('invariant refers to local %r which no longer exists' % name)
    return lv.cur[name]


def base_of(lv):
    """heap at entry of the outermost enclosing loop of the same frame"""
    while lv.outer is not None:
        lv = lv.outer
    return lv.hl


def emem_of(lv, v):
    """==-membership predicate of a set / list value"""
    se, st = lv.se, lv.st
    if v[0] == 'set':
        E = se.emem(st, v[1]); return lambda y: E[y]
    if v[0] == 'list':
        return lambda y: se.list_contains_eq(st, v[1], y)
    raise Unsupported('membership in %s' % v[0])


def ns_frame(lv, owner):
    c = lv.ctx
    return ('C14', 'ns-others', c.forall(['x'], lambda x: Implies(x != owner, lv.h['ns'][x] == lv.hl['ns'][x]), lambda x: lv.h['ns'][x]))


# ------------------------------------------------------------------------------------------------ bulk removals
def removal_set_loop(qual, ordinal, parent_field, attr, extra=None, extra_mods=()):
    """for x in <excluded set>: self._remove_x(x)   (parent pointers of visited elements cleared and announced)"""
    mods = [parent_field, 't:' + attr, 'l:' + attr, 'ns'] + list(extra_mods)
    @loop_spec(qual, ordinal, 'set', mods)
    def inv(lv):
        c = lv.ctx; h = lv.h; hl = lv.hl; seen = lv.seen; self_ = lv.env['self'][1]
        out = [('C01', 'parent-cleared', c.forall(['x'], lambda x: h[parent_field][x] == If(seen[x], c.null, hl[parent_field][x]),
                                                  lambda x: h[parent_field][x])),
               ('C19', 'touched', c.forall(['x'], lambda x: h['t:' + attr][x] == Or(seen[x], hl['t:' + attr][x]), lambda x: h['t:' + attr][x])),
               ('C19', 'last', c.forall(['x'], lambda x: h['l:' + attr][x] == If(seen[x], c.null, hl['l:' + attr][x]), lambda x: h['l:' + attr][x])),
               ns_frame(lv, self_)]
        if extra: out += extra(lv)
        return out
    return inv


def removal_list_loop(qual, ordinal, list_field, parent_field, attr, included, excluded):
    """included = []; for x in self._L: (included.append(x) if x not in excluded else self._remove_x(x))"""
    mods = [parent_field, 't:' + attr, 'l:' + attr, 'ns']
    @loop_spec(qual, ordinal, 'list', mods, {included: 'list'})
    def inv(lv):
        c = lv.ctx; h = lv.h; hl = lv.hl; seen = lv.seen; self_ = lv.env['self'][1]
        ex = emem_of(lv, local(lv, excluded))
        inc = local(lv, included)[1]
        gone = lambda x: And(seen[x], ex(x))
        return [('C01', 'included', c.forall(['x'], lambda x: c.cnt(inc, x) == If(And(seen[x], Not(ex(x))), 1, 0), lambda x: c.cnt(inc, x))),
                ('C01', 'parent-cleared', c.forall(['x'], lambda x: h[parent_field][x] == If(gone(x), c.null, hl[parent_field][x]),
                                                   lambda x: h[parent_field][x])),
                ('C19', 'touched', c.forall(['x'], lambda x: h['t:' + attr][x] == Or(gone(x), hl['t:' + attr][x]), lambda x: h['t:' + attr][x])),
                ('C19', 'last', c.forall(['x'], lambda x: h['l:' + attr][x] == If(gone(x), c.null, hl['l:' + attr][x]), lambda x: h['l:' + attr][x])),
                ns_frame(lv, self_)]
    return inv


removal_set_loop('Cable.remove_wires_from', 0, '_cable', 'par:_wires')
removal_list_loop('Definition.remove_cables_from', 0, '_cables', '_definition', 'par:_cables', 'included_cables', 'excluded_cables')
removal_list_loop('Definition.remove_children_from', 0, '_children', '_parent', 'par:_children', 'included_children', 'excluded_children')
removal_list_loop('Library.remove_definitions_from', 0, '_definitions', '_library', 'par:_definitions', 'included_definitions', 'excluded_definitions')
removal_list_loop('Netlist.remove_libraries_from', 0, '_libraries', '_netlist', 'par:_libraries', 'included_libraries', 'excluded_libraries')


# ------------------------------------------------------------------------------------------------ outer-pin creation
OPIN_CREATE_MODS = ['okeys', 'ovals', 'alloc', '_instance', '_inner_pin', '_wire']


def opins_created(lv, created, base):
    """outer pins created for exactly the (instance, inner pin) pairs `created`; nothing else of the heap moves"""
    c = lv.ctx; h = lv.h; A = h['alloc']; A0 = base['alloc']
    isOP = lambda x: c.cls(x) == c.C['OuterPin']
    o = lambda i, q: h['ovals'][i][q]
    return [
        ('C02', 'keys', c.forall(['i', 'q'], lambda i, q: h['okeys'][i][q] == Or(base['okeys'][i][q], created(i, q)), lambda i, q: h['okeys'][i][q])),
        ('C02', 'old-values', c.forall(['i', 'q'], lambda i, q: Implies(base['okeys'][i][q], o(i, q) == base['ovals'][i][q]), lambda i, q: o(i, q))),
        ('C02', 'new-values', c.forall(['i', 'q'], lambda i, q: Implies(created(i, q),
            And(Not(A0[o(i, q)]), A[o(i, q)], isOP(o(i, q)), h['_instance'][o(i, q)] == i, h['_inner_pin'][o(i, q)] == q,
                h['_wire'][o(i, q)] == c.null)), lambda i, q: o(i, q))),
        ('C02', 'fresh-are-created', c.forall(['x'], lambda x: Implies(And(A[x], Not(A0[x])),
            And(isOP(x), created(h['_instance'][x], h['_inner_pin'][x]), o(h['_instance'][x], h['_inner_pin'][x]) == x)), lambda x: A[x])),
        ('C14', 'old-objects', c.forall(['x'], lambda x: Implies(Not(And(A[x], Not(A0[x]))), And(h['_instance'][x] == base['_instance'][x],
            h['_inner_pin'][x] == base['_inner_pin'][x], h['_wire'][x] == base['_wire'][x])), lambda x: [A[x], A0[x]])),
        ('C14', 'alloc-grows', c.forall(['x'], lambda x: Implies(A0[x], A[x]), lambda x: [A0[x]])),
    ]


@loop_spec('Port.add_pin', 0, 'set', OPIN_CREATE_MODS)
def _inv_add_pin(lv):
    pin = lv.env['pin'][1]
    return opins_created(lv, lambda i, q: And(lv.seen[i], q == pin), lv.hl)


@loop_spec('Definition.add_port', 0, 'set', OPIN_CREATE_MODS)
def _inv_add_port_outer(lv):
    c = lv.ctx; port = lv.env['port'][1]
    pins = lv.hl['_pins'][port]
    return opins_created(lv, lambda i, q: And(lv.seen[i], c.cnt(pins, q) > 0), lv.hl)


@loop_spec('Definition.add_port', 1, 'list', OPIN_CREATE_MODS)
def _inv_add_port_inner(lv):
    c = lv.ctx; port = lv.env['port'][1]; o = lv.outer; base = o.hl
    pins = base['_pins'][port]
    return opins_created(lv, lambda i, q: Or(And(o.seen[i], c.cnt(pins, q) > 0), And(i == o.it, lv.seen[q])), base)


# ------------------------------------------------------------------------------------------------ create_wires / create_pins
@loop_spec('Cable.create_wires', 0, 'range', ['_wires', '_cable', '_pins', 'alloc', 't:par:_wires', 'l:par:_wires'])
def _inv_create_wires(lv):
    c = lv.ctx; h = lv.h; hl = lv.hl; self_ = lv.env['self'][1]; A = h['alloc']; A0 = hl['alloc']
    new = lambda x: And(A[x], Not(A0[x]))
    return [
        ('C01', 'new-wires', c.forall(['x'], lambda x: Implies(new(x), And(c.cls(x) == c.C['Wire'], h['_cable'][x] == self_,
            c.cnt(h['_wires'][self_], x) == 1, h['t:par:_wires'][x], h['l:par:_wires'][x] == self_)),
            lambda x: [A[x], h['t:par:_wires'][x], h['_cable'][x]])),
        ('C01', 'one-wire-per-iteration', c.len(h['_wires'][self_]) == c.len(hl['_wires'][self_]) + lv.i),
        ('C01', 'new-wires-unconnected', c.forall(['x', 'y'], lambda x, y: Implies(new(x), c.cnt(h['_pins'][x], y) == 0), lambda x, y: c.cnt(h['_pins'][x], y))),
        ('C01', 'old-members', c.forall(['y'], lambda y: Implies(Not(new(y)), c.cnt(h['_wires'][self_], y) == c.cnt(hl['_wires'][self_], y)),
                                        lambda y: c.cnt(h['_wires'][self_], y))),
        ('C14', 'old-objects', c.forall(['x'], lambda x: Implies(Not(new(x)), And(h['_cable'][x] == hl['_cable'][x], h['_pins'][x] == hl['_pins'][x],
            h['t:par:_wires'][x] == hl['t:par:_wires'][x], h['l:par:_wires'][x] == hl['l:par:_wires'][x],
            Implies(x != self_, h['_wires'][x] == hl['_wires'][x]))), lambda x: [A[x], h['t:par:_wires'][x], h['_cable'][x]])),
    ]


CREATE_PINS_MODS = ['_pins', '_port', 'alloc', 't:par:_pins', 'l:par:_pins'] + [m for m in OPIN_CREATE_MODS if m != 'alloc']


@loop_spec('Port.create_pins', 0, 'range', CREATE_PINS_MODS)
def _inv_create_pins(lv):
    c = lv.ctx; h = lv.h; hl = lv.hl; self_ = lv.env['self'][1]; A = h['alloc']; A0 = hl['alloc']
    isIP = lambda x: c.cls(x) == c.C['InnerPin']; isOP = lambda x: c.cls(x) == c.C['OuterPin']
    newpin = lambda q: And(A[q], Not(A0[q]), isIP(q))
    d = hl['_definition'][self_]
    refs = lambda i: And(d != c.null, hl['_references'][d][i])
    created = lambda i, q: And(refs(i), newpin(q))
    o = lambda i, q: h['ovals'][i][q]
    return [
        ('C01', 'new-pins', c.forall(['q'], lambda q: Implies(newpin(q), And(h['_port'][q] == self_, c.cnt(h['_pins'][self_], q) == 1,
            h['_wire'][q] == c.null, h['t:par:_pins'][q], h['l:par:_pins'][q] == self_)),
            lambda q: [A[q], h['t:par:_pins'][q], h['_port'][q]])),
        ('C01', 'one-pin-per-iteration', c.len(h['_pins'][self_]) == c.len(hl['_pins'][self_]) + lv.i),
        ('C01', 'old-members', c.forall(['y'], lambda y: Implies(Not(newpin(y)), c.cnt(h['_pins'][self_], y) == c.cnt(hl['_pins'][self_], y)),
                                        lambda y: c.cnt(h['_pins'][self_], y))),
        ('C14', 'old-objects', c.forall(['x'], lambda x: Implies(Not(And(A[x], Not(A0[x]))), And(h['_port'][x] == hl['_port'][x], h['_instance'][x] == hl['_instance'][x],
            h['_inner_pin'][x] == hl['_inner_pin'][x], h['_wire'][x] == hl['_wire'][x], h['t:par:_pins'][x] == hl['t:par:_pins'][x],
            h['l:par:_pins'][x] == hl['l:par:_pins'][x], Implies(x != self_, h['_pins'][x] == hl['_pins'][x]))),
            lambda x: [A[x], h['t:par:_pins'][x], h['_port'][x]])),
        ('C02', 'keys', c.forall(['i', 'q'], lambda i, q: h['okeys'][i][q] == Or(hl['okeys'][i][q], created(i, q)), lambda i, q: h['okeys'][i][q])),
        ('C02', 'old-values', c.forall(['i', 'q'], lambda i, q: Implies(hl['okeys'][i][q], o(i, q) == hl['ovals'][i][q]), lambda i, q: o(i, q))),
        ('C02', 'new-values', c.forall(['i', 'q'], lambda i, q: Implies(created(i, q), And(Not(A0[o(i, q)]), A[o(i, q)], isOP(o(i, q)),
            h['_instance'][o(i, q)] == i, h['_inner_pin'][o(i, q)] == q, h['_wire'][o(i, q)] == c.null)), lambda i, q: o(i, q))),
        ('C02', 'fresh-are-created', c.forall(['x'], lambda x: Implies(And(A[x], Not(A0[x])), Or(isIP(x),
            And(isOP(x), created(h['_instance'][x], h['_inner_pin'][x]), o(h['_instance'][x], h['_inner_pin'][x]) == x))), lambda x: A[x])),
    ]


# ------------------------------------------------------------------------------------------------ outer-pin deletion
OPIN_DELETE_MODS = ['okeys', '_instance', '_inner_pin', '_wire', '_pins', 't:wire', 'l:wire']


def stored_in(lv, hp, o):
    c = lv.ctx
    i = hp['_instance'][o]; q = hp['_inner_pin'][o]
    return And(hp['alloc'][o], c.cls(o) == c.C['OuterPin'], hp['alloc'][i], c.cls(i) == c.C['Instance'], hp['okeys'][i][q], hp['ovals'][i][q] == o)


def opins_deleted(lv, deleted, base, keys_deleted=True, full=None):
    """the outer pins stored under the (instance, inner pin) pairs `deleted` were taken off their wire (announced) and detached"""
    c = lv.ctx; h = lv.h
    done = lambda o: And(stored_in(lv, base, o), deleted(base['_instance'][o], base['_inner_pin'][o]))
    wired = lambda o: And(done(o), base['_wire'][o] != c.null)
    isW = lambda w: And(base['alloc'][w], c.cls(w) == c.C['Wire'])
    out = []
    if keys_deleted:
        out.append(('C02', 'keys', c.forall(['i', 'q'], lambda i, q: h['okeys'][i][q] == And(base['okeys'][i][q], Not(deleted(i, q))),
                                            lambda i, q: [h['okeys'][i][q], base['okeys'][i][q]])))
    else:
        out.append(('C02', 'keys', h['okeys'] == base['okeys']))
    out += [
        ('C02', 'detached', c.forall(['o'], lambda o: Implies(done(o), And(h['_instance'][o] == c.null, h['_inner_pin'][o] == c.null,
                 h['_wire'][o] == c.null)), lambda o: [h['_instance'][o], h['_inner_pin'][o], h['_wire'][o], base['_instance'][o]])),
        ('C14', 'others', c.forall(['o'], lambda o: Implies(Not(done(o)), And(h['_instance'][o] == base['_instance'][o],
                 h['_inner_pin'][o] == base['_inner_pin'][o], h['_wire'][o] == base['_wire'][o])),
                 lambda o: [h['_instance'][o], h['_inner_pin'][o], h['_wire'][o], base['_instance'][o]])),
        ('C01', 'wire-lists', c.forall(['w', 'p'], lambda w, p: Implies(isW(w), c.cnt(h['_pins'][w], p) == If(done(p), 0, c.cnt(base['_pins'][w], p))),
                 lambda w, p: [c.cnt(h['_pins'][w], p), c.cnt(base['_pins'][w], p)])),
        ('C01', 'other-lists', c.forall(['w'], lambda w: Implies(Not(isW(w)), h['_pins'][w] == base['_pins'][w]), lambda w: [h['_pins'][w]])),
        ('C19', 'touched', c.forall(['o'], lambda o: h['t:wire'][o] == Or(base['t:wire'][o], wired(o)), lambda o: [h['t:wire'][o], base['t:wire'][o]])),
        ('C19', 'last', c.forall(['o'], lambda o: h['l:wire'][o] == If(wired(o), c.null, base['l:wire'][o]), lambda o: [h['l:wire'][o], base['l:wire'][o]])),
    ]
    if full is not None:
        # when none of the pins the loop is going to drop is wired, no wire list is stored to at all (order included)
        o_ = Const('oq_full', c.Ref)
        none_wired = ForAll([o_], Implies(And(stored_in(lv, base, o_), full(base['_instance'][o_], base['_inner_pin'][o_])),
                                           base['_wire'][o_] == c.null), patterns=[base['_wire'][o_]])
        out.append(('C14', 'nothing-wired-nothing-stored', Implies(none_wired, And(h['_pins'] == base['_pins'], h['t:wire'] == base['t:wire'],
                                                                                    h['l:wire'] == base['l:wire']))))
    return out


@loop_spec('Port._remove_pin', 0, 'set', OPIN_DELETE_MODS)
def _inv_remove_pin(lv):
    pin = lv.env['pin'][1]
    return opins_deleted(lv, lambda i, q: And(lv.seen[i], q == pin), lv.hl)


def _extra_remove_pins_from(lv):
    c = lv.ctx; self_ = lv.env['self'][1]; hl = lv.hl
    d = hl['_definition'][self_]
    return opins_deleted(lv, lambda i, q: And(d != c.null, hl['_references'][d][i], lv.seen[q]), hl)


removal_set_loop('Port.remove_pins_from', 0, '_port', 'par:_pins', extra=_extra_remove_pins_from, extra_mods=OPIN_DELETE_MODS)


@loop_spec('Definition._remove_port', 0, 'set', OPIN_DELETE_MODS)
def _inv_remove_port_outer(lv):
    c = lv.ctx; port = lv.env['port'][1]; pins = lv.hl['_pins'][port]
    return opins_deleted(lv, lambda i, q: And(lv.seen[i], c.cnt(pins, q) > 0), lv.hl)


@loop_spec('Definition._remove_port', 1, 'list', OPIN_DELETE_MODS)
def _inv_remove_port_inner(lv):
    c = lv.ctx; port = lv.env['port'][1]; o = lv.outer; base = o.hl; pins = base['_pins'][port]
    return opins_deleted(lv, lambda i, q: Or(And(o.seen[i], c.cnt(pins, q) > 0), And(i == o.it, lv.seen[q])), base)


def _extra_remove_ports_from(lv):
    c = lv.ctx; self_ = lv.env['self'][1]; hl = lv.hl
    return opins_deleted(lv, lambda i, q: And(hl['_references'][self_][i], hl['alloc'][q], c.cls(q) == c.C['InnerPin'],
                                              hl['_port'][q] != c.null, lv.seen[hl['_port'][q]]), hl)


removal_set_loop('Definition.remove_ports_from', 0, '_definition', 'par:_ports', extra=_extra_remove_ports_from, extra_mods=OPIN_DELETE_MODS)


# ------------------------------------------------------------------------------------------------ Wire.disconnect_pins_from
def _stored_of(lv, hp, p):
    """the real pin a (possibly look-alike) pin object stands for"""
    c = lv.ctx
    return If(c.cls(p) == c.C['OuterPin'], hp['ovals'][hp['_instance'][p]][hp['_inner_pin'][p]], p)


def _can_disconnect(lv, hp, p, w):
    c = lv.ctx
    inst, q = hp['_instance'][p], hp['_inner_pin'][p]
    return If(c.cls(p) == c.C['OuterPin'],
              And(c.cls(inst) == c.C['Instance'], q != c.null, hp['okeys'][inst][q], hp['_wire'][hp['ovals'][inst][q]] == w),
              And(c.cls(p) == c.C['InnerPin'], hp['_wire'][p] == w))


@loop_spec('Wire.disconnect_pins_from', 0, 'set', [], {'all_pins_can_be_disconnected': 'bool'})
def _inv_disc_check(lv):
    c = lv.ctx; self_ = lv.env['self'][1]
    flag = local(lv, 'all_pins_can_be_disconnected')[1]
    return [('C14', 'flag', flag),
            ('C14', 'checked', c.forall(['p'], lambda p: Implies(lv.seen[p], _can_disconnect(lv, lv.h, p, self_)), lambda p: lv.seen[p]))]


@loop_spec('Wire.disconnect_pins_from', 1, 'set', ['_wire', 't:wire', 'l:wire'])
def _inv_disc_do(lv):
    c = lv.ctx; h = lv.h; hl = lv.hl; self_ = lv.env['self'][1]
    E = lv.se.emem(lv.st, lv.D)
    S = lambda p: _stored_of(lv, hl, p)
    return [
        ('C01', 'only-excluded-cleared', c.forall(['x'], lambda x: Or(h['_wire'][x] == hl['_wire'][x], And(h['_wire'][x] == c.null, E[x])),
                                                  lambda x: h['_wire'][x])),
        ('C01', 'visited-cleared', c.forall(['p'], lambda p: Implies(lv.seen[p], And(h['_wire'][p] == c.null, h['_wire'][S(p)] == c.null,
                                            h['t:wire'][S(p)], h['l:wire'][S(p)] == c.null)), lambda p: lv.seen[p])),
        ('C19', 'ghost', c.forall(['x'], lambda x: Or(And(h['t:wire'][x] == hl['t:wire'][x], h['l:wire'][x] == hl['l:wire'][x]),
                                                      And(h['t:wire'][x], h['l:wire'][x] == c.null, h['_wire'][x] == c.null)),
                                  lambda x: [h['t:wire'][x], h['l:wire'][x]])),
    ]


# ------------------------------------------------------------------------------------------------ Instance.reference =
@loop_spec('Instance.reference=', 0, 'opins', OPIN_DELETE_MODS)
def _inv_ref_none(lv):
    self_ = lv.env['self'][1]
    return opins_deleted(lv, lambda i, q: And(i == self_, lv.seen[q]), lv.hl, keys_deleted=False, full=lambda i, q: i == self_)


@loop_spec('Instance.reference=', 3, 'list', OPIN_CREATE_MODS)
def _inv_ref_new_outer(lv):
    c = lv.ctx; self_ = lv.env['self'][1]; hl = lv.hl
    return opins_created(lv, lambda i, q: And(i == self_, hl['alloc'][q], c.cls(q) == c.C['InnerPin'], hl['_port'][q] != c.null,
                                              lv.seen[hl['_port'][q]]), hl)


@loop_spec('Instance.reference=', 4, 'list', OPIN_CREATE_MODS)
def _inv_ref_new_inner(lv):
    c = lv.ctx; self_ = lv.env['self'][1]; o = lv.outer; base = o.hl
    return opins_created(lv, lambda i, q: And(i == self_, base['alloc'][q], c.cls(q) == c.C['InnerPin'], base['_port'][q] != c.null,
                                              Or(o.seen[base['_port'][q]], And(base['_port'][q] == o.it, lv.seen[q]))), base)


# ------------------------------------------------------------------------------------------------ Instance.reference = v  (re-pointing)
REPOINT_MODS = ['okeys', 'ovals', '_inner_pin']


def _repoint_inv(lv, A, B, base):
    """after the positions lexicographically below (A, B) have been re-keyed: the outer pin that sat on pin (a, b) of the old
    definition now sits on pin (a, b) of the new one -- same object, inner_pin updated; everything else untouched"""
    c = lv.ctx; h = lv.h; self_ = lv.env['self'][1]; v = lv.env['value'][1]
    d = lv.hf['_reference'][self_]
    at, idx, cnt = c.at, c.idx, c.cnt
    ports = base['_ports']; pins = base['_pins']; portof = base['_port']; defof = base['_definition']; A0 = base['alloc']
    isIP = lambda q: And(A0[q], c.cls(q) == c.C['InnerPin'])
    isOld = lambda q: And(isIP(q), portof[q] != c.null, defof[portof[q]] == d)
    isNew = lambda q: And(isIP(q), portof[q] != c.null, defof[portof[q]] == v)
    posOld = lambda q: (idx(ports[d], portof[q]), idx(pins[portof[q]], q))
    posNew = lambda q: (idx(ports[v], portof[q]), idx(pins[portof[q]], q))
    oldpin = lambda a, b: at(pins[at(ports[d], a)], b)
    newpin = lambda a, b: at(pins[at(ports[v], a)], b)
    proc = lambda ab: Or(ab[0] < A, And(ab[0] == A, ab[1] < B))
    keys0, vals0, ip0 = base['okeys'][self_], base['ovals'][self_], base['_inner_pin']
    keys, vals, ip = h['okeys'][self_], h['ovals'][self_], h['_inner_pin']
    doneOld = lambda q: And(isOld(q), proc(posOld(q)))
    doneNew = lambda q: And(isNew(q), proc(posNew(q)))
    mine = lambda o: And(A0[o], c.cls(o) == c.C['OuterPin'], base['_instance'][o] == self_, keys0[ip0[o]], vals0[ip0[o]] == o)
    return [
        ('C02', 'keys', c.forall(['q'], lambda q: keys[q] == Or(And(keys0[q], Not(doneOld(q))), doneNew(q)), lambda q: [keys[q]])),
        ('C02', 'moved-values', c.forall(['q'], lambda q: Implies(doneNew(q), And(vals[q] == vals0[oldpin(*posNew(q))], ip[vals[q]] == q)),
                                         lambda q: [vals[q]])),
        ('C02', 'kept-values', c.forall(['q'], lambda q: Implies(And(keys0[q], Not(doneOld(q)), Not(doneNew(q))),
                                        And(vals[q] == vals0[q], ip[vals[q]] == q)), lambda q: [vals[q]])),
        ('C02', 'moved-pins', c.forall(['o'], lambda o: Implies(mine(o), If(doneOld(ip0[o]),
                                       And(ip[o] == newpin(*posOld(ip0[o])), keys[ip[o]], vals[ip[o]] == o), ip[o] == ip0[o])),
                                       lambda o: [ip[o], ip0[o]])),
        ('C14', 'other-pins', c.forall(['o'], lambda o: Implies(Not(mine(o)), ip[o] == ip0[o]), lambda o: [ip[o]])),
        ('C14', 'other-instances', c.forall(['i'], lambda i: Implies(i != self_, And(h['okeys'][i] == base['okeys'][i],
                                            h['ovals'][i] == base['ovals'][i])), lambda i: [h['okeys'][i], h['ovals'][i]])),
    ]


@loop_spec('Instance.reference=', 1, 'zip', REPOINT_MODS)
def _inv_repoint_outer(lv):
    from z3 import IntVal
    return _repoint_inv(lv, lv.i, IntVal(0), lv.hl)


@loop_spec('Instance.reference=', 2, 'zip', REPOINT_MODS)
def _inv_repoint_inner(lv):
    return _repoint_inv(lv, lv.outer.i, lv.i, lv.outer.hl)
