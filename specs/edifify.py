"""Contracts for spydrnet/composers/edif/edifify_names.py (C17), over strings as code-point arrays (pyvc/strvc.py).

LEGAL(s)   : what EdifNamespace._check_EDIF_identifier accepts:  [A-Za-z][0-9A-Za-z_]{0,254}  |  &[0-9A-Za-z_]{1,255}
CG(s)      : uninterpreted -- "_conflicts_good(obj, s, objects)" (its loop over the siblings is checked in the bounded tier)

Obligations (names C17/<function>/...):
  _length_fix(s), len>=1       : 1 <= len' <= 255, first character kept, "all characters after the first are legal" preserved,
                                 lower-case-ness preserved, identity when len <= 255
  _characters_good(s), len>=1  : result  <=>  first is a letter and all others are letters/digits/_
  _characters_fix(s), 1<=len<=255, printable : LEGAL(result)
  _conflicts_fix(obj, s, objs), LEGAL(s) : LEGAL(result) and CG(lower(result))      (partial correctness: the recursive call is used
                                 through this very contract; termination is not proved)
  make_valid(obj, objs), 1<=len(name), printable : LEGAL(result) and CG(lower(result))
"""
import ast, os, sys
sys.path.insert(0, os.path.dirname(os.path.dirname(os.path.abspath(__file__))))
from z3 import (Int, IntVal, BoolVal, And, Or, Not, Implies, If, ForAll, Function, IntSort, BoolSort, ArraySort, Const)
from pyvc import strvc as S

FILE = 'spydrnet/composers/edif/edifify_names.py'
CLASS = 'EdififyNames'


def okrest(s):
    k = Int('kq_ok%d' % next(S._n))
    return ForAll([k], Implies(And(1 <= k, k < s.n), S.c_ok(s.a[k])), patterns=[s.a[k]])


def legal(s):
    return And(okrest(s), Or(And(s.n >= 1, s.n <= 255, S.c_alpha(s.a[0])), And(s.n >= 2, s.n <= 256, s.a[0] == 38)))


def printable(s):
    k = Int('kq_pr%d' % next(S._n))
    return ForAll([k], Implies(And(0 <= k, k < s.n), S.c_print(s.a[k])), patterns=[s.a[k]])


def is_lower(s):
    k = Int('kq_lo%d' % next(S._n))
    return ForAll([k], Implies(And(0 <= k, k < s.n), Not(S.c_upper(s.a[k]))), patterns=[s.a[k]])


def same(x, y):
    k = Int('kq_sm%d' % next(S._n))
    return And(x.n == y.n, ForAll([k], Implies(And(0 <= k, k < x.n), x.a[k] == y.a[k]), patterns=[x.a[k]]))


# CG over the code-point array: an uninterpreted predicate of (length, characters)
CG = Function('conflicts_good', IntSort(), ArraySort(IntSort(), IntSort()), BoolSort())


def cg(s):
    return CG(s.n, s.a)


def cg_extensional_axiom():
    """_conflicts_good depends on the characters below len only"""
    n = Int('n_cg'); a = Const('a_cg', S.CHR); b = Const('b_cg', S.CHR); k = Int('k_cg')
    return ForAll([n, a, b], Implies(ForAll([k], Implies(And(0 <= k, k < n), a[k] == b[k])), CG(n, a) == CG(n, b)))


# ------------------------------------------------------------------ contracts used at call sites
def _apply_conflicts_good(se, st, args, k):
    s = args[1][1]
    k(st, ('bool', cg(s)))


def _apply_conflicts_fix(se, st, args, k):
    """recursive use of _conflicts_fix: requires LEGAL(arg) (obligation), ensures LEGAL(result) and CG(lower(result))"""
    s = args[1][1]
    se.obligations.append(('_conflicts_fix/recursive-call/precondition-LEGAL', list(st.pc), legal(s)))
    r = S.fresh_str('rec')
    lr = S.lower(r); st.pc += lr.facts
    st.pc += [legal(r), cg(lr)]
    k(st, ('str', r))


CONTRACTS = {
    '_conflicts_good': {'always': True, 'apply': _apply_conflicts_good},
    '_conflicts_fix': {'always': False, 'apply': _apply_conflicts_fix},
}


# ------------------------------------------------------------------ loop invariants
def _inv_chars_good(entry, env, lo, i, hi):
    s = entry['identifier'][1]; k = Int('kq_cgd%d' % next(S._n))
    return [('prefix-legal', ForAll([k], Implies(And(lo <= k, k < i), S.c_ok(s.a[k])), patterns=[s.a[k]]))]


def _inv_chars_fix(entry, env, lo, i, hi):
    s0 = entry['identifier'][1]; s = env['identifier'][1]; k = Int('kq_cfx%d' % next(S._n))
    return [('length-kept', s.n == s0.n),
            ('prefix-fixed', ForAll([k], Implies(And(lo <= k, k < i, k < s.n), s.a[k] == If(S.c_ok(s0.a[k]), s0.a[k], 95)), patterns=[s.a[k]])),
            ('rest-untouched', ForAll([k], Implies(And(0 <= k, k < s.n, Or(k < lo, k >= i)), s.a[k] == s0.a[k]), patterns=[s.a[k]]))]


LOOPS = {('_characters_good', 0): {'modifies': [], 'inv': _inv_chars_good},
         ('_characters_fix', 0): {'modifies': ['identifier'], 'inv': _inv_chars_fix}}


def _inv_abs(entry, env, lo, i, hi):
    s = entry['pattern'][1]; k = Int('kq_abs%d' % next(S._n))
    return [('no-wildcard-so-far', ForAll([k], Implies(And(lo <= k, k < i), And(s.a[k] != 42, s.a[k] != 63)), patterns=[s.a[k]]))]


PATTERN_LOOPS = {('_is_pattern_absolute', 0): {'modifies': [], 'inv': _inv_abs}}


def run_patterns(repo):
    """C13: _is_pattern_absolute(pattern, is_case, is_re)  <=>  is_case and not is_re and no '*' / '?' in pattern  (for Boolean flags)"""
    import hashlib
    from z3 import Bool
    tree = ast.parse(open(os.path.join(repo, 'spydrnet/util/patterns.py')).read())
    fns = [n for n in tree.body if isinstance(n, ast.FunctionDef) and n.name == '_is_pattern_absolute']
    results = []; shas = {}; degraded = {}
    if not fns:
        return results, shas, {'_is_pattern_absolute': 'function not found'}
    fn = fns[0]
    shas['patterns._is_pattern_absolute'] = hashlib.sha256(ast.dump(fn).encode()).hexdigest()[:16]
    # wrap the module-level function as a method of a synthetic class (the body is the real AST, unchanged)
    m = ast.FunctionDef(name=fn.name, args=ast.arguments(posonlyargs=[], args=[ast.arg(arg='self')] + fn.args.args, kwonlyargs=[], kw_defaults=[], defaults=[]),
                        body=fn.body, decorator_list=[], lineno=fn.lineno, col_offset=0)
    cls = ast.ClassDef(name='Patterns', bases=[], keywords=[], body=[m], decorator_list=[])
    se = S.StrSE(cls, {}, {}, PATTERN_LOOPS)
    st = S.St([])
    p = S.fresh_str('pattern'); ic = Bool('is_case'); ir = Bool('is_re')
    st.pc += [p.n >= 0]
    try:
        se.call_method(st, '_is_pattern_absolute', [('str', p), ('bool', ic), ('bool', ir)], lambda s_, v: se.exit(s_, 'normal', v))
    except S.Unsupported as e:
        return results, shas, {'_is_pattern_absolute': 'left-subset: %s' % e}
    k = Int('kq_pa')
    spec = And(ic, Not(ir), ForAll([k], Implies(And(0 <= k, k < p.n), And(p.a[k] != 42, p.a[k] != 63)), patterns=[p.a[k]]))
    agg = {}
    for name, hyps, goal in se.obligations:
        r = S.discharge(hyps, goal); agg['C13/%s' % name] = r
    for s_, kind, val in se.outcomes:
        if kind != 'normal':
            r = S.discharge(s_.pc, BoolVal(False)); nm = 'C13/_is_pattern_absolute/exit=%s/does-not-raise' % kind
        else:
            r = S.discharge(s_.pc, val[1] == spec); nm = 'C13/_is_pattern_absolute/exit=normal/result-iff-exact-pattern'
        cur = agg.get(nm)
        if cur is None or (cur[0] == 'discharged' and r[0] != 'discharged'): agg[nm] = r
    for n_, r in sorted(agg.items()):
        results.append((n_, r[0], round(r[1], 3), r[2], r[3]))
    if not agg: results.append(('VACUITY/_is_pattern_absolute/no-obligations', 'failed', 0.0, 'zero obligations', ''))
    return results, shas, degraded


def load(repo):
    tree = ast.parse(open(os.path.join(repo, FILE)).read())
    cls = [n for n in tree.body if isinstance(n, ast.ClassDef) and n.name == CLASS][0]
    consts = {}
    for f in cls.body:
        if isinstance(f, ast.FunctionDef) and f.name == '__init__':
            for st in f.body:
                if isinstance(st, ast.Assign) and isinstance(st.targets[0], ast.Attribute) and isinstance(st.value, ast.Constant) \
                        and isinstance(st.value.value, int):
                    consts[st.targets[0].attr] = st.value.value
    return cls, consts


def run(repo, only=None):
    """returns (results, functions{name: sha}, degraded{name: reason})"""
    import hashlib
    cls, consts = load(repo)
    results = []; shas = {}; degraded = {}
    axioms = [cg_extensional_axiom()]
    failed_before = set()

    def verify(fname, mk_args, pre, posts):
        """posts: function(args, kind, value, state) -> [(name, goal)]"""
        if only and fname not in only: return
        fn = [f for f in cls.body if isinstance(f, ast.FunctionDef) and f.name == fname]
        if not fn:
            degraded[fname] = 'function not found'; return
        shas['EdififyNames.' + fname] = hashlib.sha256(ast.dump(fn[0]).encode()).hexdigest()[:16]
        se = S.StrSE(cls, consts, CONTRACTS, LOOPS)
        st = S.St(list(axioms))
        args = mk_args(st)
        st.pc += pre(args)
        if not se.sat(st):
            results.append(('VACUITY/%s/precondition-satisfiable' % fname, 'failed', 0.0, 'contradictory precondition', '')); return
        try:
            se.call_method(st, fname, args, lambda s, v: se.exit(s, 'normal', v))
        except S.Unsupported as e:
            degraded[fname] = 'left-subset: %s' % e; return
        except RecursionError:
            degraded[fname] = 'left-subset: recursion depth'; return
        agg = {}
        def rec(name, r):
            cur = agg.get(name)
            rank = {'discharged': 0, 'undecided': 1, 'failed': 2}
            if cur is None or rank[r[0]] > rank[cur[0]]: agg[name] = [r[0], r[1] + (cur[1] if cur else 0), r[2], r[3]]
            else: cur[1] += r[1]
        for name, hyps, goal in se.obligations:
            full = 'C17/%s/%s' % (fname, name) if not name.startswith('_') else 'C17/' + name
            r = S.discharge(hyps, goal, cheap=full in failed_before)
            if r[0] != 'discharged': failed_before.add(full)
            rec(full, r)
        for s, kind, val in se.outcomes:
            for name, goal in posts(args, kind, val, s):
                full = 'C17/%s/exit=%s/%s' % (fname, kind, name)
                ins = {}
                for a_ in args:
                    if a_[0] == 'str': ins['identifier'] = a_[1]
                    if a_[0] == 'obj': ins['name'] = a_[1]['name'][1]
                r = S.discharge(s.pc, goal, cheap=full in failed_before, inputs=ins)
                if r[0] != 'discharged': failed_before.add(full)
                if r[0] != 'discharged' and 'not tried' not in r[2]:
                    f = S.discharge(s.pc, BoolVal(False))
                    if f[0] == 'discharged': r = ('discharged', r[1] + f[1], 'path infeasible', f[3])
                rec('C17/%s/exit=%s/%s' % (fname, kind, name), r)
        if not agg:
            results.append(('VACUITY/%s/no-obligations' % fname, 'failed', 0.0, 'zero obligations', ''))
        for n, v in sorted(agg.items()):
            results.append((n, v[0], round(v[1], 3), v[2], v[3]))

    def str_arg(name):
        def mk(st):
            s = S.fresh_str(name); st.pc.append(s.n >= 0)
            return [('str', s)]
        return mk

    # _length_fix
    def post_length_fix(args, kind, val, s):
        x = args[0][1]
        if kind != 'normal': return [('does-not-raise', BoolVal(False))]
        r = val[1]
        return [('length<=255', And(r.n >= 1, r.n <= 255)), ('first-character-kept', r.a[0] == x.a[0]),
                ('legal-rest-preserved', Implies(okrest(x), okrest(r))), ('lower-case-preserved', Implies(is_lower(x), is_lower(r))),
                ('identity-when-short', Implies(x.n <= 255, same(r, x)))]
    verify('_length_fix', str_arg('identifier'), lambda a: [a[0][1].n >= 1], post_length_fix)

    # _characters_good
    def post_chars_good(args, kind, val, s):
        x = args[0][1]
        if kind != 'normal': return [('does-not-raise', BoolVal(False))]
        k = Int('kq_pg%d' % next(S._n))
        spec = And(S.c_alpha(x.a[0]), ForAll([k], Implies(And(0 <= k, k < x.n), S.c_ok(x.a[k])), patterns=[x.a[k]]))
        return [('result-iff-legal-characters', val[1] == spec)]
    verify('_characters_good', str_arg('identifier'), lambda a: [a[0][1].n >= 1], post_chars_good)

    # _characters_fix
    def post_chars_fix(args, kind, val, s):
        if kind != 'normal': return [('does-not-raise', BoolVal(False))]
        return [('result-LEGAL', legal(val[1]))]
    verify('_characters_fix', str_arg('identifier'), lambda a: [a[0][1].n >= 1, a[0][1].n <= 255, printable(a[0][1])], post_chars_fix)

    # _conflicts_fix
    def mk_cf(st):
        s = S.fresh_str('identifier')
        return [('obj', {'name': ('str', S.fresh_str('objname'))}), ('str', s), ('opaque', 'objects')]
    def post_conflicts_fix(args, kind, val, s):
        if kind != 'normal': return [('does-not-raise', BoolVal(False))]
        r = val[1]; lr = S.lower(r)
        return [('result-LEGAL', legal(r)), ('result-conflict-free', Implies(And(*lr.facts), cg(lr)))]
    verify('_conflicts_fix', mk_cf, lambda a: [legal(a[1][1])], post_conflicts_fix)

    # make_valid
    def mk_mv(st):
        nm = S.fresh_str('name')
        return [('obj', {'name': ('str', nm)}), ('opaque', 'objects')]
    def post_make_valid(args, kind, val, s):
        if kind != 'normal': return [('does-not-raise', BoolVal(False))]
        r = val[1]; lr = S.lower(r)
        return [('result-LEGAL', legal(r)), ('result-conflict-free', Implies(And(*lr.facts), cg(lr)))]
    verify('make_valid', mk_mv, lambda a: [a[0][1]['name'][1].n >= 1, printable(a[0][1]['name'][1])], post_make_valid)
    return results, shas, degraded


if __name__ == '__main__':
    import sys
    sys.setrecursionlimit(20000)
    if sys.argv[1:] == ['patterns']:
        res, shas, deg = run_patterns(os.environ.get('VERIF_REPO', '/repo'))
    else:
        res, shas, deg = run(os.environ.get('VERIF_REPO', '/repo'), only=sys.argv[1:] or None)
    for r in res:
        print('%-70s %-11s %6.2fs %s %s' % (r[0], r[1], r[2], r[4], r[3][:90]))
    print('degraded:', deg)
