"""Contract for EdififyNames._conflicts_good (spydrnet/composers/edif/edifify_names.py), the sibling scan behind C17's
"every identifier the EDIF writer assigns differs, ignoring case, from the names and identifiers of all its siblings".

The string proof (specs/edifify.py) shows  _conflicts_good(obj, lower(result), objects) is True  for the result of make_valid, with
_conflicts_good as an uninterpreted predicate.  Here its body is put under contract over the IR heap:

    returns True   ==>  no element of `objects` other than obj has lower(name) == identifier or lower(EDIF.identifier) == identifier
    returns False  ==>  some element of `objects` other than obj has

Names are opaque values with value equality; `lower` is an uninterpreted map on values (as in specs/ns.py).  The checking loop needs
no invariant (IRSpec.pure_loop, with the early `return False`)."""
from z3 import And, Or, Not, Implies, If, Const, ForAll, Exists, BoolVal, Function, Int, is_true, is_false
from specs.ir import IRSpec
from pyvc.se import R, B, Unsupported
from pyvc.logic import FIRST_CLASS

FILES = {'EdififyNames': 'spydrnet/composers/edif/edifify_names.py'}
_EL = 'is:' + '|'.join(FIRST_CLASS)
FUNCTIONS = [('EdififyNames', '_conflicts_good', 'method', [('obj', _EL), ('identifier', 'is:Foreign'), ('objects', 'list')])]
POSITIONAL = {('EdififyNames', '_conflicts_good', 'method')}


class EdifNamesSpec(IRSpec):
    value_equality = True
    pure_loops = True

    def __init__(self, ctx, ct):
        super().__init__(ctx, ct, listener='stock', check_cover=False)
        c = ctx
        self.sv = Function('sv', c.Ref, c.Ref)
        self.lowerf = Function('lowerf', c.Ref, c.Ref)
        x = Const('xq_en', c.Ref)
        c.axioms += [ForAll([x], self.sv(self.sv(x)) == self.sv(x), patterns=[self.sv(x)]),
                     ForAll([x], c.cls(self.lowerf(x)) == c.C['Foreign'], patterns=[self.lowerf(x)])]

    def veq(self, a, b):
        return self.sv(a) == self.sv(b)

    def method_hook(self, se, st, recv, name, args, kw, cont):
        if name == 'lower' and recv[0] == 'ref':
            cont(st, R(self.lowerf(recv[1]))); return True
        return NotImplemented

    def special_call(self, se, st, e, fname, cont):
        import ast
        if fname.endswith('.lower') and isinstance(e.func, ast.Attribute) and not e.args:
            return se.ev(st, e.func.value, lambda s, v: cont(s, R(self.lowerf(v[1]))) if v[0] == 'ref' else se._unsup('lower of %s' % v[0]))
        return super().special_call(se, st, e, fname, cont)


def extra_pre(ctx, spec, h0):
    c = ctx
    x = Const('xq_np', c.Ref); kq = Const('kq_np', c.Key)
    # names and identifiers are strings (plain values), never IR objects or None
    return [ForAll([x, kq], Implies(h0['dhas'][x][kq], c.cls(h0['dval'][x][kq]) == c.C['Foreign']), patterns=[h0['dval'][x][kq]])]


def collides(c, spec, h, e, ident):
    name_hit = And(h['dhas'][e][c.KEY_NAME], spec.sv(spec.lowerf(h['dval'][e][c.KEY_NAME])) == spec.sv(ident))
    id_hit = And(h['dhas'][e][c.KEY_EDIF], spec.sv(spec.lowerf(h['dval'][e][c.KEY_EDIF])) == spec.sv(ident))
    return Or(name_hit, id_hit)


def post(ctx, spec, h0, s, ekind, args, val):
    c = ctx; h = s.heap
    obj, ident, objs = args[1][1], args[2][1], args[3][1]
    out = [('C17', 'netlist-untouched', And([h[f_] == h0[f_] for f_ in h0 if f_ in h and not (h[f_] is h0[f_])] or [BoolVal(True)]))]
    if ekind != 'normal':
        # elements of `objects` that are not first-class elements make the scan raise; with first-class elements only it never does
        k = Int('kq_fc')
        fc = ForAll([k], Implies(And(0 <= k, k < c.len(objs)), c.isa(c.at(objs, k), *FIRST_CLASS)))
        return out + [('C17', 'raises-only-for-a-foreign-element', Not(fc))]
    if val is None or val[0] != 'bool':
        return out + [('C17', 'returns-a-bool', BoolVal(False))]
    k = Int('kq_cg')
    sib = lambda k_: And(0 <= k_, k_ < c.len(objs), c.at(objs, k_) != obj)
    some = Exists([k], And(sib(k), collides(c, spec, h0, c.at(objs, k), ident)))
    out.append(('C17', 'true-iff-no-sibling-carries-the-identifier-ignoring-case', val[1] == Not(some)))
    return out


POSTS = {'EdififyNames._conflicts_good': post}
