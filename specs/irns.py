"""C10 at the level of histories: the name tables of the stock listener agree with a scan of the children after EVERY public IR mutator.

The IR mutators are executed symbolically as in the `ir` suite, but the hooks of the NamespaceManager are not opaque here: each
announcement updates abstract per-parent tables

        nt[P][class][key]   -> the element found under that name,             or None
        ntE[P][class][key]  -> the element found under that lower-cased identifier (EDIF policy parents only), or None
        nhas[P]             -> P has tables at all (it was created while the listener was registered)
        ned(P)              -> P's tables follow the EDIF policy (fixed per parent: one policy per history)

exactly as the hook contracts proved against the real NamespaceManager say (suite `ns`, specs/ns.py: `mpost`): an accepted `add`
records the child under its name / identifier and implies that no other element owned them, `remove` clears the child's entries,
`dictionary_set` moves the entry, `dictionary_delete/pop` clear it, the `create_*` hooks of a netlist / library / definition start
empty tables; a refusal (the ValueError@hook exit of the `ir` suite) leaves the tables alone.  The refinement between the two models
is  nt[P][cls][k] = tab(namespaces[P], type, k),  nhas[P] = (P in namespaces),  ned(P) = isinstance(namespaces[P], EdifNamespace).

Inv_NS (assumed of the heap before the call, proved at every exit of every function, normal or exceptional, and at every loop head):
    A  every entry of P's tables is a child of P, of that class, carrying that name / identifier
    B  every named child of a parent with tables is the entry under its name (identifier: EDIF parents)
Sibling uniqueness and "lookup agrees with a scan" are consequences (lemmas in specs/ns.py).

Obligation names: C10/<function>/exit=<kind>/Inv_NS.<clause>, C10/<function>/<loop>/(init|preserve)/Inv_NS.<clause>."""
from z3 import And, Or, Not, Implies, If, Const, ForAll, BoolVal, Function, BoolSort, Store, K
from specs.ir import IRSpec, REL, FIELDS
from specs.ir_functions import FUNCTIONS, POSITIONAL           # the same 67 functions as the `ir` suite
from pyvc.se import R, B, Unsupported

NS_REL = REL[:5]          # (container class, list field, element class, parent field, add kind, remove kind)
ADD = {r[4]: r for r in NS_REL}
REM = {r[5]: r for r in NS_REL}
PARENTS = ('Netlist', 'Library', 'Definition')


def parent_of(c, h, e):
    return If(c.isa(e, 'Library'), h['_netlist'][e], If(c.isa(e, 'Definition'), h['_library'][e],
           If(c.isa(e, 'Port', 'Cable'), h['_definition'][e], If(c.isa(e, 'Instance'), h['_parent'][e], c.null))))


class IRNSSpec(IRSpec):
    def __init__(self, ctx, ct):
        super().__init__(ctx, ct, listener='stock', check_cover=False)
        c = ctx
        self.sv = Function('sv', c.Ref, c.Ref)            # canonical representative of a string value
        self.lowerf = Function('lowerf', c.Ref, c.Ref)
        self.ned = Function('ned', c.Ref, BoolSort())     # the parent's tables follow the EDIF policy
        x = Const('xq_ins', c.Ref)
        c.axioms += [ForAll([x], self.sv(self.sv(x)) == self.sv(x), patterns=[self.sv(x)])]

    # ---- keys
    def nk(self, h, e): return self.sv(h['dval'][e][self.ctx.KEY_NAME])
    def ik(self, h, e): return self.sv(self.lowerf(h['dval'][e][self.ctx.KEY_EDIF]))

    def callback(self, se, st, kind, args, cont):
        c = self.ctx
        def accepted(s, v):
            h = s.heap
            a0 = args[0][1]
            eff = None
            if kind in ADD or kind in REM:
                if args[1][0] == 'ref':
                    eff = hook_effect(c, self, 'add' if kind in ADD else 'remove', h['nt'], h['ntE'], h['nhas'], h['dhas'], h['dval'], a0, args[1][1], None, None)
            elif kind in ('dictionary_set', 'dictionary_delete', 'dictionary_pop'):
                P = se.name_term(s, parent_of(c, h, a0))
                val = se.as_ref(s, args[2]) if kind == 'dictionary_set' else None
                eff = hook_effect(c, self, kind, h['nt'], h['ntE'], h['nhas'], h['dhas'], h['dval'], P, a0, se.to_key(s, args[1]), val)
            elif kind in ('create_netlist', 'create_library', 'create_definition'):
                self.fresh_tables(s, a0)
            if eff is not None:
                assume, nt1, nte1 = eff
                s.pc.append(assume)
                # ite-free heap terms: the conditional update is named
                h['nt'] = se.name_term(s, nt1); h['ntE'] = se.name_term(s, nte1)
            return cont(s, v)
        return super().callback(se, st, kind, args, accepted)

    def fresh_tables(self, s, P):
        c = self.ctx; h = s.heap
        empty = K(c.Cls, K(c.Ref, c.null))
        h['nhas'] = Store(h['nhas'], P, True)
        h['nt'] = Store(h['nt'], P, empty); h['ntE'] = Store(h['ntE'], P, empty)

    def ctor_contract(self, se, st, fi, args, kw, cont):
        def k(s, v):
            if fi.cls in PARENTS: self.fresh_tables(s, args[0][1])
            return cont(s, v)
        return super().ctor_contract(se, st, fi, args, kw, k)

    # loops that announce to the name tables once per iteration (each iteration is a complete removal: hook, then the pointer)
    NS_LOOPS = ('Netlist.remove_libraries_from', 'Library.remove_definitions_from', 'Definition.remove_ports_from',
                'Definition.remove_cables_from', 'Definition.remove_children_from')

    def loop_extra(self, qual, ordinal):
        if qual in self.NS_LOOPS:
            return ['nt', 'ntE', 'nhas'], (lambda lv: [('C10', 'Inv_NS.' + n, g) for n, g in inv_ns(lv.ctx, self, lv.h)])
        # every other loop makes no announcement that reaches a table: the tables are as they were when the loop was entered
        return ['nt', 'ntE', 'nhas'], (lambda lv: [('C10', 'tables-untouched', And(lv.h['nt'] == lv.hl['nt'], lv.h['ntE'] == lv.hl['ntE'],
                                                                                   lv.h['nhas'] == lv.hl['nhas']))])


def hook_effect(c, F, kind, NT, NTE, nhas, dhas, dval, P, x, key, val):
    """The abstract effect of one ACCEPTED hook call on the tables (F supplies sv, lowerf, ned).  Returns (what acceptance implies,
    NT', NTE').  P is the parent the hook works on: the announced parent for add / remove, the element's current parent for the data
    hooks.  This is the model the executor uses; the lemmas of specs/ns.py (family `refinement`) check it against the hook contracts."""
    T = c.cls(x)
    upd = lambda A_, cond, k_, v_: If(cond, Store(A_, P, Store(A_[P], T, Store(A_[P][T], k_, v_))), A_)
    hadN, hadE = dhas[x][c.KEY_NAME], dhas[x][c.KEY_EDIF]
    kn, ke = F.sv(dval[x][c.KEY_NAME]), F.sv(F.lowerf(dval[x][c.KEY_EDIF]))
    ed = F.ned(P)
    if kind in ('add', 'remove'):
        act = nhas[P]
        if kind == 'add':
            curN, curE = NT[P][T][kn], NTE[P][T][ke]
            assume = Not(And(act, Or(And(hadN, curN != c.null, curN != x), And(ed, hadE, curE != c.null, curE != x))))
            return assume, upd(NT, And(act, hadN), kn, x), upd(NTE, And(act, ed, hadE), ke, x)
        return BoolVal(True), upd(NT, And(act, hadN), kn, c.null), upd(NTE, And(act, ed, hadE), ke, c.null)
    act = And(P != c.null, nhas[P], c.isa(x, 'Library', 'Definition', 'Port', 'Cable', 'Instance'))
    isN, isE = key == c.KEY_NAME, key == c.KEY_EDIF
    if kind == 'dictionary_set':
        nn, ne = F.sv(val), F.sv(F.lowerf(val))
        curN, curE = NT[P][T][nn], NTE[P][T][ne]
        assume = Not(And(act, Or(And(isN, curN != c.null, curN != x), And(ed, isE, curE != c.null, curE != x))))
        nt1 = upd(NT, And(act, isN, hadN), kn, c.null)
        nt1 = If(And(act, isN), Store(nt1, P, Store(nt1[P], T, Store(nt1[P][T], nn, x))), nt1)
        nte1 = upd(NTE, And(act, ed, isE, hadE), ke, c.null)
        nte1 = If(And(act, ed, isE), Store(nte1, P, Store(nte1[P], T, Store(nte1[P][T], ne, x))), nte1)
        return assume, nt1, nte1
    return BoolVal(True), upd(NT, And(act, isN, hadN), kn, c.null), upd(NTE, And(act, ed, isE, hadE), ke, c.null)


def inv_ns(c, spec, h):
    P, e, k = Const('Pq_n', c.Ref), Const('eq_n', c.Ref), Const('kq_n', c.Ref)
    T = Const('Tq_n', c.Cls)
    A = h['alloc']
    out = []
    is_child = lambda e_, P_: Or([And(c.cls(e_) == c.C[r[2]], h[r[3]][e_] == P_) for r in NS_REL])
    for edif in (False, True):
        fld = 'ntE' if edif else 'nt'; KEY = c.KEY_EDIF if edif else c.KEY_NAME
        keyv = (lambda e_: spec.ik(h, e_)) if edif else (lambda e_: spec.nk(h, e_))
        tag = 'identifiers' if edif else 'names'
        ent = h[fld][P][T][k]
        scope = And(h['nhas'][P], spec.ned(P)) if edif else h['nhas'][P]
        out.append(('entries-are-children.' + tag, ForAll([P, T, k], Implies(And(scope, ent != c.null),
                    And(A[ent], c.cls(ent) == T, is_child(ent, P), h['dhas'][ent][KEY], keyv(ent) == k)), patterns=[h[fld][P][T][k]])))
        for r in NS_REL:
            pf, E_ = r[3], r[2]
            Pe = h[pf][e]
            sc = And(h['nhas'][Pe], spec.ned(Pe)) if edif else h['nhas'][Pe]
            out.append(('children-are-entries.%s.%s' % (tag, r[1]), ForAll([e], Implies(And(A[e], c.cls(e) == c.C[E_], Pe != c.null, sc, h['dhas'][e][KEY]),
                        h[fld][Pe][c.C[E_]][keyv(e)] == e), patterns=[h[pf][e]])))
    # only netlists, libraries and definitions have tables
    out.append(('tables-belong-to-containers', ForAll([P], Implies(h['nhas'][P], And(A[P], c.isa(P, *PARENTS))), patterns=[h['nhas'][P]])))
    return out


def extra_pre(ctx, spec, h0):
    return [g for _, g in inv_ns(ctx, spec, h0)]


def post(ctx, spec, h0, s, ekind, args, val):
    out = [('C10', 'Inv_NS.' + n, g) for n, g in inv_ns(ctx, spec, s.heap)]
    fr = s.frames[0] if s.frames else None
    c = ctx; h = s.heap
    if spec.h0 is h0 and args and args[0][0] == 'ref' and getattr(spec, '_ctor_run', None):
        # the table part of the constructor contract used in the compound creators (IRNSSpec.ctor_contract)
        r = args[0][1]; x = Const('xq_ct', c.Ref)
        out.append(('C10', 'ctor.other-tables-untouched', ForAll([x], Implies(x != r, And(h['nt'][x] == h0['nt'][x], h['ntE'][x] == h0['ntE'][x],
                    h['nhas'][x] == h0['nhas'][x])), patterns=[h['nt'][x], h['ntE'][x], h['nhas'][x]])))
        if spec._ctor_run in PARENTS:
            empty = K(c.Cls, K(c.Ref, c.null))
            out.append(('C10', 'ctor.own-tables-start-empty', And(h['nhas'][r], h['nt'][r] == empty, h['ntE'][r] == empty)))
        else:
            out.append(('C10', 'ctor.no-tables-of-its-own', h['nhas'][r] == h0['nhas'][r]))
    return out


class _Every(dict):
    """the same postcondition (Inv_NS) for every function of the suite, whatever class defines it"""
    def get(self, key, default=None):
        return post


POSTS = _Every()
