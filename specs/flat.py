"""Contract for the test by which flatten (spydrnet/flatten.py, C09) decides whether an instance it has brought to the top is kept as a
primitive or dissolved into its contents:

    Definition.is_leaf()  ==  the definition has no child instances and no cables

for every definition in every heap satisfying Inv; it writes nothing and does not raise.  ("only leaf instances remain" rests on it: an
instance whose definition answers False is dissolved and removed.)  _bring_to_top, _redo_connections and the work-list are covered by the
bounded tier only."""
from z3 import And, BoolVal
from specs.ir import IRSpec

FUNCTIONS = [('Definition', 'is_leaf', 'method', []), ('Instance', 'is_leaf', 'method', [])]


class FlatSpec(IRSpec):
    def __init__(self, ctx, ct):
        super().__init__(ctx, ct, listener='stock', check_cover=False)


def post(ctx, spec, h0, s, ekind, args, val):
    c = ctx; h = s.heap; d = args[0][1]
    if ekind != 'normal':
        return [('C09', 'does-not-raise', BoolVal(False))]
    out = [('C09', 'netlist-untouched', And([h[f_] == h0[f_] for f_ in h0 if f_ in h and not (h[f_] is h0[f_])] or [BoolVal(True)]))]
    if val is None or val[0] != 'bool':
        return out + [('C09', 'returns-a-bool', BoolVal(False))]
    out.append(('C09', 'true-iff-no-children-and-no-cables', val[1] == And(c.len(h0['_children'][d]) == 0, c.len(h0['_cables'][d]) == 0)))
    return out


def post_inst(ctx, spec, h0, s, ekind, args, val):
    """Instance.is_leaf(): the public form of the same test -- False for an instance without a definition, otherwise the answer of its
    definition (stated against the lists directly, so the two implementations are tied to one specification)"""
    c = ctx; h = s.heap; i = args[0][1]; d = h0['_reference'][i]
    if ekind != 'normal':
        return [('C09', 'does-not-raise', BoolVal(False))]
    out = [('C09', 'netlist-untouched', And([h[f_] == h0[f_] for f_ in h0 if f_ in h and not (h[f_] is h0[f_])] or [BoolVal(True)]))]
    if val is None or val[0] != 'bool':
        return out + [('C09', 'returns-a-bool', BoolVal(False))]
    out.append(('C09', 'true-iff-has-a-definition-without-children-and-cables', val[1] == And(d != c.null, c.len(h0['_children'][d]) == 0, c.len(h0['_cables'][d]) == 0)))
    return out


POSTS = {'Definition.is_leaf': post, 'Instance.is_leaf': post_inst}
