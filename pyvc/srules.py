"""Syntactic (S) obligations: closed-world / frame side conditions whose truth is a decidable property of the AST of /repo.
Evaluated on every run from the current working tree.  Each rule returns a list of (name, ok, detail)."""
import ast, glob, os, re

MUT = {'append', 'insert', 'remove', 'pop', 'clear', 'add', 'discard', 'update', 'extend', 'sort', 'reverse', 'popitem',
       'setdefault', '__setitem__', '__delitem__'}
IR_MUTATORS = {'add_library', 'add_definition', 'add_port', 'add_cable', 'add_child', 'add_pin', 'add_wire', 'remove_library',
               'remove_definition', 'remove_port', 'remove_cable', 'remove_child', 'remove_pin', 'remove_wire',
               'remove_libraries_from', 'remove_definitions_from', 'remove_ports_from', 'remove_cables_from',
               'remove_children_from', 'remove_pins_from', 'remove_wires_from', 'create_library', 'create_definition',
               'create_port', 'create_cable', 'create_child', 'create_pin', 'create_pins', 'create_wire', 'create_wires',
               'connect_pin', 'disconnect_pin', 'disconnect_pins_from', 'set_top_instance'}


def _parse(p):
    return ast.parse(open(p).read())


def private_slots(repo):
    slots = set()
    for f in sorted(glob.glob(repo + '/spydrnet/ir/*.py')):
        for c in [n for n in ast.walk(_parse(f)) if isinstance(n, ast.ClassDef)]:
            for st in c.body:
                if isinstance(st, ast.Assign) and any(isinstance(t, ast.Name) and t.id == '__slots__' for t in st.targets):
                    for e in ast.walk(st.value):
                        if isinstance(e, ast.Constant) and isinstance(e.value, str):
                            slots.add(e.value)
    return slots - {'_dict', '_list', '_set'}


def rule_encapsulation(repo):
    """outside spydrnet/ir no code touches a private slot of an IR object other than through `self`
    (classes elsewhere may have their own attributes of the same name on self)"""
    slots = private_slots(repo)
    out = []
    bad = []
    for f in sorted(glob.glob(repo + '/spydrnet/**/*.py', recursive=True)):
        rel = f[len(repo) + 1:]
        if '/tests/' in rel or rel.startswith('spydrnet/ir/'):
            continue
        for n in ast.walk(_parse(f)):
            if isinstance(n, ast.Attribute) and n.attr in slots and not (isinstance(n.value, ast.Name) and n.value.id == 'self'):
                bad.append('%s:%d %s' % (rel, n.lineno, ast.unparse(n)))
    out.append(('S/encapsulation/no-private-slot-access-outside-ir', not bad, '; '.join(bad[:8])))
    return out


def rule_views_read_only(repo):
    out = []
    for f in sorted(glob.glob(repo + '/spydrnet/ir/views/*.py')):
        for c in [n for n in _parse(f).body if isinstance(n, ast.ClassDef)]:
            bad = []
            for fn in [n for n in c.body if isinstance(n, ast.FunctionDef) and n.name != '__init__']:
                for n in ast.walk(fn):
                    if isinstance(n, ast.Call) and isinstance(n.func, ast.Attribute) and n.func.attr in MUT:
                        bad.append('%s calls %s' % (fn.name, n.func.attr))
                    if isinstance(n, (ast.Assign, ast.AugAssign, ast.Delete)):
                        bad.append('%s stores' % fn.name)
            out.append(('S/views-read-only/' + c.name, not bad, '; '.join(bad[:5])))
    return out


def rule_owned_containers(repo):
    """every store to a container slot in spydrnet/ir assigns a freshly built container (or a local bound to one);
    no method hands out a private container unwrapped except the private _items"""
    CONT = {'_libraries', '_definitions', '_ports', '_cables', '_children', '_pins', '_wires', '_references', '_data'}
    bad = []
    for f in sorted(glob.glob(repo + '/spydrnet/ir/*.py')):
        t = _parse(f)
        for fn in [n for n in ast.walk(t) if isinstance(n, ast.FunctionDef)]:
            fresh_locals = set()
            for n in ast.walk(fn):
                if isinstance(n, ast.Assign) and len(n.targets) == 1 and isinstance(n.targets[0], ast.Name):
                    v = n.value
                    if isinstance(v, (ast.List, ast.Dict, ast.Set, ast.ListComp, ast.DictComp, ast.SetComp)) or (
                            isinstance(v, ast.Call) and ast.unparse(v.func) in ('list', 'dict', 'set', 'OrderedDict', 'copy', 'deepcopy')):
                        fresh_locals.add(n.targets[0].id)
            for n in ast.walk(fn):
                if isinstance(n, ast.Assign):
                    for tg in n.targets:
                        if isinstance(tg, ast.Attribute) and tg.attr in CONT:
                            v = n.value
                            ok = isinstance(v, (ast.List, ast.Dict, ast.ListComp, ast.Set, ast.SetComp, ast.DictComp)) or (
                                isinstance(v, ast.Call) and ast.unparse(v.func) in ('list', 'set', 'dict', 'OrderedDict', 'copy', 'deepcopy', 'sorted')) or (
                                isinstance(v, ast.Name) and v.id in fresh_locals)
                            if not ok:
                                bad.append('%s:%d %s = %s' % (os.path.basename(f), n.lineno, ast.unparse(tg), ast.unparse(v)[:40]))
                if isinstance(n, ast.Return) and isinstance(n.value, ast.Attribute) and n.value.attr in CONT and fn.name != '_items':
                    bad.append('%s:%d raw return %s' % (os.path.basename(f), n.lineno, ast.unparse(n.value)))
    return [('S/owned-containers/ir', not bad, '; '.join(bad[:8]))]


def rule_static_dispatch(repo):
    """no IR class (nor the active plugin's extension classes) defines attribute hooks or truthiness dunders, and no extension
    class overrides a method under contract"""
    out = []
    bad = []
    names_under_contract = set()
    try:
        from specs.ir_functions import FUNCTIONS
        names_under_contract = {f[1] for f in FUNCTIONS}
    except Exception:
        pass
    for f in sorted(glob.glob(repo + '/spydrnet/ir/*.py')) + sorted(glob.glob(repo + '/spydrnet_extension/ir/*.py')):
        ext = 'spydrnet_extension' in f
        for c in [n for n in ast.walk(_parse(f)) if isinstance(n, ast.ClassDef)]:
            names = [fn.name for fn in c.body if isinstance(fn, ast.FunctionDef)]
            for x in names:
                if x in ('__setattr__', '__getattr__', '__getattribute__', '__bool__', '__len__'):
                    bad.append('%s.%s' % (c.name, x))
                if ext and (x in names_under_contract or x in IR_MUTATORS):
                    bad.append('extension %s overrides %s' % (c.name, x))
    out.append(('S/static-dispatch/ir-and-active-plugins', not bad, '; '.join(bad[:8])))
    return out


def _probe_dispatcher(repo, kinds):
    import subprocess, json
    here = os.path.dirname(os.path.dirname(os.path.abspath(__file__)))
    env = dict(os.environ); env['PYTHONPATH'] = repo; env['PYTHONDONTWRITEBYTECODE'] = '1'
    try:
        p = subprocess.run(['/venv/bin/python', os.path.join(here, 'native', 'probe_dispatch.py')], input=json.dumps({'kinds': kinds}),
                           capture_output=True, text=True, timeout=120, env=env, cwd=repo)
        return json.loads(p.stdout.split('@@JSON@@')[-1])
    except Exception as e:
        return {k: 'probe failed to run: %r' % (e,) for k in kinds}


def rule_dispatcher_wiring(repo):
    """for each callback kind K: _call_K iterates exactly _container_K and calls func(*args, **kwargs);
    register_K / deregister_K touch exactly _container_K; CallbackListener.register_all_listeners registers K iff overridden"""
    out = []
    t = _parse(repo + '/spydrnet/global_state/global_callback.py')
    conts = [tg.id for n in t.body if isinstance(n, ast.Assign) for tg in n.targets if isinstance(tg, ast.Name) and tg.id.startswith('_container_')]
    fns = {n.name: n for n in t.body if isinstance(n, ast.FunctionDef)}
    unrecognised = []
    for cn in conts:
        k = cn[len('_container_'):]
        c, r, d = fns.get('_call_' + k), fns.get('register_' + k), fns.get('deregister_' + k)
        ok = c is not None and r is not None and d is not None
        detail = ''
        if ok:
            loops = [n for n in ast.walk(c) if isinstance(n, ast.For)]
            ok = (len(loops) == 1 and ast.unparse(loops[0].iter) == cn and len(loops[0].body) == 1
                  and ast.unparse(loops[0].body[0]) == '%s(*args, **kwargs)' % ast.unparse(loops[0].target) and len(c.body) == 1)
            used_r = {x.id for x in ast.walk(r) if isinstance(x, ast.Name) and x.id.startswith('_container_')}
            used_d = {x.id for x in ast.walk(d) if isinstance(x, ast.Name) and x.id.startswith('_container_')}
            ok = ok and used_r == {cn} and used_d == {cn}
            if not ok:
                detail = 'call=%s register uses %s deregister uses %s' % (ast.unparse(c)[:80], sorted(used_r), sorted(used_d))
                unrecognised.append(k)
        else:
            detail = 'missing _call_/register_/deregister_'
        out.append(['S/dispatcher-wiring/' + k, ok, detail])
    if unrecognised:
        # the functions exist but no longer have the one shape this rule reads (say, they delegate to a helper): that is not a
        # violation by itself -- the wiring of those kinds is decided by a behavioural probe of the real dispatcher instead
        probe = _probe_dispatcher(repo, unrecognised)
        for row in out:
            k = row[0].split('/')[-1]
            if k in unrecognised and probe.get(k) == '':
                row[1] = True; row[2] = 'shape not recognised by the syntactic rule; decided by the dispatcher probe (native/probe_dispatch.py): forwards to exactly its own listeners, in order, arguments unchanged'
            elif k in unrecognised:
                row[2] += '; dispatcher probe: %s' % probe.get(k, 'no answer')
    out = [tuple(r_) for r_ in out]
    t = _parse(repo + '/spydrnet/callback/callback_listener.py')
    cl = [n for n in t.body if isinstance(n, ast.ClassDef)][0]
    ra = [fn for fn in cl.body if isinstance(fn, ast.FunctionDef) and fn.name == 'register_all_listeners'][0]
    mism = []
    seen = set()
    for n in ra.body:
        if isinstance(n, ast.If):
            test = ast.unparse(n.test).replace('\n', ' ')
            body = ast.unparse(n.body[0])
            m = re.match(r'self\.(\w+)\.__func__ is not CallbackListener\.(\w+)', test)
            m2 = re.match(r'self\.register_(\w+)\(\)', body)
            if not (m and m2 and m.group(1) == m.group(2) == m2.group(1)) or len(n.body) != 1:
                mism.append(test[:60])
            else:
                seen.add(m.group(1))
    missing = set(c[len('_container_'):] for c in conts) - seen
    out.append(('S/listener-registration/register_all_listeners', not mism and not missing, '; '.join(mism[:4] + sorted(missing)[:4])))
    # register_K methods of the listener forward to global_callback.register_K(self.K)
    bad = []
    for fn in [f for f in cl.body if isinstance(f, ast.FunctionDef) and f.name.startswith('register_') and f.name != 'register_all_listeners']:
        k = fn.name[len('register_'):]
        if 'global_callback.register_%s(self.%s)' % (k, k) not in ast.unparse(fn):
            bad.append(fn.name)
    out.append(('S/listener-registration/forwarding', not bad, '; '.join(bad[:6])))
    return out


def _has_effect(fn):
    for n in ast.walk(fn):
        if isinstance(n, (ast.Assign, ast.AugAssign)):
            tg = n.targets if isinstance(n, ast.Assign) else [n.target]
            if any(isinstance(t, (ast.Attribute, ast.Subscript)) for t in tg):
                return 'store at line %d' % n.lineno
        if isinstance(n, ast.Delete):
            return 'del at line %d' % n.lineno
        if isinstance(n, ast.Call):
            f = n.func
            name = f.attr if isinstance(f, ast.Attribute) else (f.id if isinstance(f, ast.Name) else '')
            if name in IR_MUTATORS or name.startswith('_call_') or name.startswith('_remove_') or name.startswith('_disconnect'):
                return 'calls %s at line %d' % (name, n.lineno)
            if isinstance(f, ast.Attribute) and name in MUT and isinstance(f.value, ast.Attribute) and f.value.attr.startswith('_'):
                return 'mutates %s at line %d' % (ast.unparse(f.value), n.lineno)
    return None


def rule_coverage(repo, functions):
    """every public callable of the IR classes with an effect on the heap is under contract (or is one of the clone entry
    points, which belong to C07 and are only bounded)"""
    under = set()
    for c, n, k, _p in functions:
        under.add((c, n, k))
    out = []
    files = {'Netlist': 'netlist', 'Library': 'library', 'Definition': 'definition', 'Port': 'port', 'Cable': 'cable', 'Wire': 'wire',
             'Instance': 'instance', 'InnerPin': 'innerpin', 'OuterPin': 'outerpin', 'Bundle': 'bundle', 'FirstClassElement': 'first_class_element',
             'Pin': 'pin', 'Element': 'element'}
    # which concrete class stands for an inherited method in FUNCTIONS
    inherited = {('Bundle', x): [('Cable', x), ('Port', x)] for x in ('is_downto', 'is_scalar', 'is_array', 'lower_index')}
    inherited.update({('FirstClassElement', x): [('Definition', x)] for x in ('__setitem__', '__delitem__', 'pop', 'name')})
    for cls_, mod in files.items():
        t = _parse('%s/spydrnet/ir/%s.py' % (repo, mod))
        for c in [n for n in t.body if isinstance(n, ast.ClassDef) and n.name == cls_]:
            for fn in [n for n in c.body if isinstance(n, ast.FunctionDef)]:
                kind = 'method'
                for d in fn.decorator_list:
                    s = ast.unparse(d)
                    if s == 'property': kind = 'getter'
                    elif s.endswith('.setter'): kind = 'setter'
                    elif s.endswith('.deleter'): kind = 'deleter'
                public = not fn.name.startswith('_') or fn.name in ('__init__', '__setitem__', '__delitem__')
                if not public or fn.name in ('clone', 'compose'):
                    continue
                eff = _has_effect(fn)
                if eff is None:
                    continue
                covered = (cls_, fn.name, kind) in under or any((a, b, kind) in under for a, b in inherited.get((cls_, fn.name), []))
                if cls_ in ('Pin', 'Element') and fn.name == '__init__':
                    covered = True   # inlined into the InnerPin/OuterPin constructors
                if cls_ in ('Bundle', 'FirstClassElement') and fn.name == '__init__':
                    covered = True   # inlined through super().__init__() into every constructor under contract
                out.append(('S/coverage/%s.%s%s' % (cls_, fn.name, {'setter': '=', 'deleter': ' del'}.get(kind, '')), covered,
                            '' if covered else 'public %s with an effect (%s) and no contract' % (kind, eff)))
    return out


def all_ir_rules(repo, functions):
    out = []
    out += rule_encapsulation(repo)
    out += rule_views_read_only(repo)
    out += rule_owned_containers(repo)
    out += rule_static_dispatch(repo)
    out += rule_dispatcher_wiring(repo)
    out += rule_coverage(repo, functions)
    out += rule_stock_listener(repo)
    return out


# ------------------------------------------------------------------------------------------------ C16: composers' write frame
COMPOSER_FILES = ['spydrnet/composers/__init__.py', 'spydrnet/composers/edif/composer.py', 'spydrnet/composers/edif/edifify_names.py',
                  'spydrnet/composers/verilog/composer.py', 'spydrnet/composers/eblif/eblif_composer.py']
# the documented side effects of the EDIF writer (property C16): (function, store target)
DOCUMENTED_EDIF_EFFECTS = {('_edifify_netlist', 'netlist.libraries'), ('_edifify_netlist', 'library.definitions'),
                           ('_edifify_netlist', 'netlist.name'), ('_add_rename_property', "obj['EDIF.identifier']"),
                           ('_add_rename_property', "obj['EDIF.rename']")}
CONT_MUT = {'append', 'insert', 'remove', 'clear', 'add', 'discard', 'update', 'extend', 'sort', 'reverse', 'popitem', 'setdefault', 'pop',
            'appendleft', 'popleft'}
NETLIST_MUT = IR_MUTATORS | {'clone', 'uniquify', 'flatten', '__setitem__', '__delitem__'}


def _fresh_locals(fn):
    fresh = set()
    for n in ast.walk(fn):
        if isinstance(n, ast.Assign) and len(n.targets) == 1 and isinstance(n.targets[0], ast.Name):
            v = n.value
            if isinstance(v, (ast.List, ast.Dict, ast.Set, ast.ListComp, ast.DictComp, ast.SetComp)) or (
                    isinstance(v, ast.Call) and ast.unparse(v.func) in ('list', 'dict', 'set', 'deque', 'OrderedDict', 'sorted', 'collections.deque')):
                fresh.add(n.targets[0].id)
    return fresh


def rule_composer_frame(repo):
    """every store / delete / mutating call in the composer modules targets the composer object itself, a local or closure
    container created in that function, an element of such a container, or a parameter that all call sites bind to such a
    container -- or is one of the documented effects of the EDIF writer.  Any other site may write into the netlist."""
    out = []
    for rel in COMPOSER_FILES:
        path = os.path.join(repo, rel)
        if not os.path.exists(path):
            out.append(('S/composer-frame/' + rel, False, 'file missing')); continue
        t = _parse(path)
        parents = {}
        for n in ast.walk(t):
            for ch in ast.iter_child_nodes(n): parents[ch] = n
        fns = [n for n in ast.walk(t) if isinstance(n, ast.FunctionDef)]
        def enclosing_fn(n):
            while n in parents:
                n = parents[n]
                if isinstance(n, ast.FunctionDef): return n
            return None
        def fresh_in_scope(fn, name):
            f = fn
            while f is not None:
                if name in _fresh_locals(f): return True
                f = enclosing_fn(f)
            return False
        def param_bound_fresh(fn, name):
            params = [a.arg for a in fn.args.args]
            if name not in params: return False
            idx = params.index(name)
            sites = [c for c in ast.walk(t) if isinstance(c, ast.Call) and (
                (isinstance(c.func, ast.Attribute) and c.func.attr == fn.name) or (isinstance(c.func, ast.Name) and c.func.id == fn.name))]
            if not sites: return False
            for c in sites:
                off = 1 if (params and params[0] == 'self' and isinstance(c.func, ast.Attribute)) else 0
                j = idx - off
                arg = c.args[j] if 0 <= j < len(c.args) else next((k.value for k in c.keywords if k.arg == name), None)
                caller = enclosing_fn(c)
                if not (isinstance(arg, ast.Name) and caller is not None and fresh_in_scope(caller, arg.id)):
                    return False
            return True
        def returns_fresh(m):
            """method m of this module returns only containers it created itself (a fresh local, or a tuple of them)"""
            rets = [r for r in ast.walk(m) if isinstance(r, ast.Return) and r.value is not None]
            if not rets: return False
            fr = _fresh_locals(m)
            for r in rets:
                elts = r.value.elts if isinstance(r.value, ast.Tuple) else [r.value]
                if not all(isinstance(x, ast.Name) and x.id in fr for x in elts): return False
            return True
        def bound_to_fresh_result(fn, name):
            for n in ast.walk(fn):
                if isinstance(n, ast.Assign) and len(n.targets) == 1:
                    tg = n.targets[0]
                    names = [x.id for x in (tg.elts if isinstance(tg, ast.Tuple) else [tg]) if isinstance(x, ast.Name)]
                    if name in names and isinstance(n.value, ast.Call) and isinstance(n.value.func, ast.Attribute) and \
                            isinstance(n.value.func.value, ast.Name) and n.value.func.value.id == 'self':
                        ms = [m for m in fns if m.name == n.value.func.attr]
                        if ms and all(returns_fresh(m) for m in ms): return True
            return False
        def owned(fn, e):
            """is expression e a composer-owned container?"""
            if isinstance(e, ast.Name):
                return e.id == 'self' or fresh_in_scope(fn, e.id) or param_bound_fresh(fn, e.id) or bound_to_fresh_result(fn, e.id)
            if isinstance(e, ast.Attribute):
                return isinstance(e.value, ast.Name) and e.value.id == 'self'
            if isinstance(e, ast.Subscript):
                return owned(fn, e.value)
            if isinstance(e, ast.Call) and isinstance(e.func, ast.Attribute) and e.func.attr in ('setdefault', 'get') and owned(fn, e.func.value):
                return True              # an element of an owned container, like the subscript form d[k]
            return False
        bad = []
        for fn in fns:
            for n in ast.walk(fn):
                if enclosing_fn(n) is not fn: continue
                sites = []
                if isinstance(n, (ast.Assign, ast.AugAssign)):
                    for tg in (n.targets if isinstance(n, ast.Assign) else [n.target]):
                        if isinstance(tg, ast.Attribute) and not (isinstance(tg.value, ast.Name) and tg.value.id == 'self'):
                            sites.append(('store', tg))
                        if isinstance(tg, ast.Subscript) and not owned(fn, tg.value):
                            sites.append(('store', tg))
                if isinstance(n, ast.Delete):
                    for tg in n.targets:
                        if isinstance(tg, (ast.Attribute, ast.Subscript)) and not owned(fn, tg.value): sites.append(('del', tg))
                if isinstance(n, ast.Call) and isinstance(n.func, ast.Attribute):
                    a = n.func.attr
                    if a in NETLIST_MUT and not (isinstance(n.func.value, ast.Name) and n.func.value.id == 'self'):
                        if not (a in CONT_MUT and owned(fn, n.func.value)):
                            sites.append(('call', n.func))
                    elif a in CONT_MUT and not owned(fn, n.func.value):
                        sites.append(('call', n.func))
                for kind, e in sites:
                    txt = ast.unparse(e)
                    if (fn.name, txt) in DOCUMENTED_EDIF_EFFECTS and rel.endswith('edif/composer.py'):
                        continue
                    bad.append('%s:%d %s %s in %s' % (os.path.basename(rel), n.lineno, kind, txt, fn.name))
        out.append(('S/composer-frame/' + rel.replace('spydrnet/composers/', ''), not bad, '; '.join(bad[:6])))
    return out


# ------------------------------------------------------------------------------------------------ stock listener (NamespaceManager) frame
def rule_stock_listener(repo):
    """the stock listener's hooks (a) never call an IR mutator and never store to anything but their own tables and the
    '.NS' entry of the element, (b) refuse (raise) only before their first write -- the two facts behind the hook contracts
    used by the IR proofs (specs/ir.py, IRSpec.callback)"""
    out = []
    files = sorted(glob.glob(repo + '/spydrnet/plugins/namespace_manager/*.py'))
    bad = []
    for f in files:
        for n in ast.walk(_parse(f)):
            if isinstance(n, ast.Call) and isinstance(n.func, ast.Attribute) and n.func.attr in IR_MUTATORS:
                bad.append('%s:%d calls %s' % (os.path.basename(f), n.lineno, n.func.attr))
            if isinstance(n, (ast.Assign, ast.AugAssign)):
                for tg in (n.targets if isinstance(n, ast.Assign) else [n.target]):
                    if isinstance(tg, ast.Subscript) and isinstance(tg.slice, ast.Constant) and tg.slice.value not in ('.NS',) \
                            and isinstance(tg.value, ast.Name) and tg.value.id in ('element', 'child', 'parent', 'netlist', 'library',
                                                                                   'definition', 'port', 'cable', 'instance'):
                        bad.append('%s:%d stores %s' % (os.path.basename(f), n.lineno, ast.unparse(tg)))
    out.append(('S/stock-listener/no-structural-effect', not bad, '; '.join(bad[:6])))
    t = _parse(repo + '/spydrnet/plugins/namespace_manager/__init__.py')
    cls = [n for n in t.body if isinstance(n, ast.ClassDef) and n.name == 'NamespaceManager'][0]
    def writes(node):
        w = []
        for n in ast.walk(node):
            if isinstance(n, ast.Call) and isinstance(n.func, ast.Attribute) and n.func.attr in ('update', 'apply_namespace', 'drop_namespace', 'remove'):
                w.append(n.lineno)
            if isinstance(n, (ast.Assign, ast.Delete)):
                tgs = n.targets
                if any(isinstance(tg, ast.Subscript) for tg in tgs): w.append(n.lineno)
        return w
    for fname in ('add', 'dictionary_set', 'dictionary_delete', 'dictionary_pop'):
        fn = [f for f in cls.body if isinstance(f, ast.FunctionDef) and f.name == fname]
        if not fn:
            out.append(('S/stock-listener/refuses-before-writing/' + fname, False, 'hook not found')); continue
        fn = fn[0]
        problems = []
        def is_write(st):
            for n in ast.walk(st):
                if isinstance(n, ast.Call) and isinstance(n.func, ast.Attribute) and n.func.attr in ('update', 'apply_namespace', 'drop_namespace', 'remove'):
                    return True
                if isinstance(n, (ast.Assign, ast.Delete)) and any(isinstance(tg, ast.Subscript) for tg in n.targets):
                    return True
            return False
        def flow(stmts, written):
            """written: set of booleans (has a write happened on some path reaching here?) -> set at exit"""
            for st in stmts:
                if isinstance(st, ast.Raise):
                    if True in written: problems.append('raise at line %d reachable after a write' % st.lineno)
                    return set()
                if isinstance(st, ast.If):
                    written = flow(st.body, set(written)) | flow(st.orelse, set(written))
                elif isinstance(st, (ast.For, ast.While)):
                    w1 = flow(st.body, set(written)); w2 = flow(st.body, set(written) | w1)
                    written = written | w1 | w2
                elif isinstance(st, ast.Return):
                    return set()
                else:
                    if is_write(st): written = {True}
            return written
        flow(fn.body, {False})
        out.append(('S/stock-listener/refuses-before-writing/' + fname, not problems, '; '.join(problems)))
    for fname in ('remove',):
        fn = [f for f in cls.body if isinstance(f, ast.FunctionDef) and f.name == fname][0]
        rs = [n.lineno for n in ast.walk(fn) if isinstance(n, ast.Raise)]
        out.append(('S/stock-listener/never-refuses/' + fname, not rs, 'raise at %s' % rs if rs else ''))
    return out


if __name__ == '__main__':
    import sys
    sys.path.insert(0, os.path.dirname(os.path.dirname(os.path.abspath(__file__))))
    from specs.ir_functions import FUNCTIONS
    res = all_ir_rules(os.environ.get('VERIF_REPO', '/repo'), FUNCTIONS)
    for n, ok, d in res:
        if not ok: print('FAIL', n, d)
    print(len(res), 'rules,', sum(1 for r in res if r[1]), 'hold')


