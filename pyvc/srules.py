"""Syntactic (S) obligations: closed-world / frame side conditions whose truth is a decidable property of the AST of /repo.
Evaluated on every run from the current working tree.  Each rule returns a list of (name, ok, detail)."""
import ast, glob, os, re

MUT = {'append', 'insert', 'remove', 'pop', 'clear', 'add', 'discard', 'update', 'extend', 'sort', 'reverse', 'popitem',
       'setdefault', '__setitem__', '__delitem__'}
IR_MUTATORS = {'add_library', 'add_definition', 'add_port', 'add_cable', 'add_child', 'add_pin', 'add_wire', 'remove_library',
               'remove_definition', 'remove_port', 'remove_cable', 'remove_child', 'remove_pin', 'remove_wire',
               'remove_libraries_from', 'remove_definitions_from', 'remove_ports_from', 'remove_cables_from',
               'remove_children_from', 'remove_pins_from', 'remove_wires_from', 'create_library', 'create_definition',
               'create_port', 'create_cable', 'create_child', 'create_pin', 'create_pins', 'create_wire', 'create_wires',
               'connect_pin', 'disconnect_pin', 'disconnect_pins_from', 'set_top_instance'}


def _parse(p):
    return ast.parse(open(p).read())


def private_slots(repo):
    slots = set()
    for f in sorted(glob.glob(repo + '/spydrnet/ir/*.py')):
        for c in [n for n in ast.walk(_parse(f)) if isinstance(n, ast.ClassDef)]:
            for st in c.body:
                if isinstance(st, ast.Assign) and any(isinstance(t, ast.Name) and t.id == '__slots__' for t in st.targets):
                    for e in ast.walk(st.value):
                        if isinstance(e, ast.Constant) and isinstance(e.value, str):
                            slots.add(e.value)
    return slots - {'_dict', '_list', '_set'}


def rule_encapsulation(repo):
    """outside spydrnet/ir no code touches a private slot of an IR object other than through `self`
    (classes elsewhere may have their own attributes of the same name on self)"""
    slots = private_slots(repo)
    out = []
    bad = []
    for f in sorted(glob.glob(repo + '/spydrnet/**/*.py', recursive=True)):
        rel = f[len(repo) + 1:]
        if '/tests/' in rel or rel.startswith('spydrnet/ir/'):
            continue
        for n in ast.walk(_parse(f)):
            if isinstance(n, ast.Attribute) and n.attr in slots and not (isinstance(n.value, ast.Name) and n.value.id == 'self'):
                bad.append('%s:%d %s' % (rel, n.lineno, ast.unparse(n)))
    out.append(('S/encapsulation/no-private-slot-access-outside-ir', not bad, '; '.join(bad[:8])))
    return out


def rule_views_read_only(repo):
    out = []
    for f in sorted(glob.glob(repo + '/spydrnet/ir/views/*.py')):
        for c in [n for n in _parse(f).body if isinstance(n, ast.ClassDef)]:
            bad = []
            for fn in [n for n in c.body if isinstance(n, ast.FunctionDef) and n.name != '__init__']:
                for n in ast.walk(fn):
                    if isinstance(n, ast.Call) and isinstance(n.func, ast.Attribute) and n.func.attr in MUT:
                        bad.append('%s calls %s' % (fn.name, n.func.attr))
                    if isinstance(n, (ast.Assign, ast.AugAssign, ast.Delete)):
                        bad.append('%s stores' % fn.name)
            out.append(('S/views-read-only/' + c.name, not bad, '; '.join(bad[:5])))
    return out


def rule_owned_containers(repo):
    """every store to a container slot in spydrnet/ir assigns a freshly built container (or a local bound to one);
    no method hands out a private container unwrapped except the private _items"""
    CONT = {'_libraries', '_definitions', '_ports', '_cables', '_children', '_pins', '_wires', '_references', '_data'}
    bad = []
    for f in sorted(glob.glob(repo + '/spydrnet/ir/*.py')):
        t = _parse(f)
        for fn in [n for n in ast.walk(t) if isinstance(n, ast.FunctionDef)]:
            fresh_locals = set()
            for n in ast.walk(fn):
                if isinstance(n, ast.Assign) and len(n.targets) == 1 and isinstance(n.targets[0], ast.Name):
                    v = n.value
                    if isinstance(v, (ast.List, ast.Dict, ast.Set, ast.ListComp, ast.DictComp, ast.SetComp)) or (
                            isinstance(v, ast.Call) and ast.unparse(v.func) in ('list', 'dict', 'set', 'OrderedDict', 'copy', 'deepcopy')):
                        fresh_locals.add(n.targets[0].id)
            for n in ast.walk(fn):
                if isinstance(n, ast.Assign):
                    for tg in n.targets:
                        if isinstance(tg, ast.Attribute) and tg.attr in CONT:
                            v = n.value
                            ok = isinstance(v, (ast.List, ast.Dict, ast.ListComp, ast.Set)) or (
                                isinstance(v, ast.Call) and ast.unparse(v.func) in ('list', 'set', 'dict', 'OrderedDict', 'copy', 'deepcopy')) or (
                                isinstance(v, ast.Name) and v.id in fresh_locals)
                            if not ok:
                                bad.append('%s:%d %s = %s' % (os.path.basename(f), n.lineno, ast.unparse(tg), ast.unparse(v)[:40]))
                if isinstance(n, ast.Return) and isinstance(n.value, ast.Attribute) and n.value.attr in CONT and fn.name != '_items':
                    bad.append('%s:%d raw return %s' % (os.path.basename(f), n.lineno, ast.unparse(n.value)))
    return [('S/owned-containers/ir', not bad, '; '.join(bad[:8]))]


def rule_static_dispatch(repo):
    """no IR class (nor the active plugin's extension classes) defines attribute hooks or truthiness dunders, and no extension
    class overrides a method under contract"""
    out = []
    bad = []
    names_under_contract = set()
    try:
        from specs.ir_functions import FUNCTIONS
        names_under_contract = {f[1] for f in FUNCTIONS}
    except Exception:
        pass
    for f in sorted(glob.glob(repo + '/spydrnet/ir/*.py')) + sorted(glob.glob(repo + '/spydrnet_extension/ir/*.py')):
        ext = 'spydrnet_extension' in f
        for c in [n for n in ast.walk(_parse(f)) if isinstance(n, ast.ClassDef)]:
            names = [fn.name for fn in c.body if isinstance(fn, ast.FunctionDef)]
            for x in names:
                if x in ('__setattr__', '__getattr__', '__getattribute__', '__bool__', '__len__'):
                    bad.append('%s.%s' % (c.name, x))
                if ext and (x in names_under_contract or x in IR_MUTATORS):
                    bad.append('extension %s overrides %s' % (c.name, x))
    out.append(('S/static-dispatch/ir-and-active-plugins', not bad, '; '.join(bad[:8])))
    return out


def rule_dispatcher_wiring(repo):
    """for each callback kind K: _call_K iterates exactly _container_K and calls func(*args, **kwargs);
    register_K / deregister_K touch exactly _container_K; CallbackListener.register_all_listeners registers K iff overridden"""
    out = []
    t = _parse(repo + '/spydrnet/global_state/global_callback.py')
    conts = [tg.id for n in t.body if isinstance(n, ast.Assign) for tg in n.targets if isinstance(tg, ast.Name) and tg.id.startswith('_container_')]
    fns = {n.name: n for n in t.body if isinstance(n, ast.FunctionDef)}
    for cn in conts:
        k = cn[len('_container_'):]
        c, r, d = fns.get('_call_' + k), fns.get('register_' + k), fns.get('deregister_' + k)
        ok = c is not None and r is not None and d is not None
        detail = ''
        if ok:
            loops = [n for n in ast.walk(c) if isinstance(n, ast.For)]
            ok = (len(loops) == 1 and ast.unparse(loops[0].iter) == cn and len(loops[0].body) == 1
                  and ast.unparse(loops[0].body[0]) == '%s(*args, **kwargs)' % ast.unparse(loops[0].target) and len(c.body) == 1)
            used_r = {x.id for x in ast.walk(r) if isinstance(x, ast.Name) and x.id.startswith('_container_')}
            used_d = {x.id for x in ast.walk(d) if isinstance(x, ast.Name) and x.id.startswith('_container_')}
            ok = ok and used_r == {cn} and used_d == {cn}
            if not ok: detail = 'call=%s register uses %s deregister uses %s' % (ast.unparse(c)[:80], sorted(used_r), sorted(used_d))
        else:
            detail = 'missing _call_/register_/deregister_'
        out.append(('S/dispatcher-wiring/' + k, ok, detail))
    t = _parse(repo + '/spydrnet/callback/callback_listener.py')
    cl = [n for n in t.body if isinstance(n, ast.ClassDef)][0]
    ra = [fn for fn in cl.body if isinstance(fn, ast.FunctionDef) and fn.name == 'register_all_listeners'][0]
    mism = []
    seen = set()
    for n in ra.body:
        if isinstance(n, ast.If):
            test = ast.unparse(n.test).replace('\n', ' ')
            body = ast.unparse(n.body[0])
            m = re.match(r'self\.(\w+)\.__func__ is not CallbackListener\.(\w+)', test)
            m2 = re.match(r'self\.register_(\w+)\(\)', body)
            if not (m and m2 and m.group(1) == m.group(2) == m2.group(1)) or len(n.body) != 1:
                mism.append(test[:60])
            else:
                seen.add(m.group(1))
    missing = set(c[len('_container_'):] for c in conts) - seen
    out.append(('S/listener-registration/register_all_listeners', not mism and not missing, '; '.join(mism[:4] + sorted(missing)[:4])))
    # register_K methods of the listener forward to global_callback.register_K(self.K)
    bad = []
    for fn in [f for f in cl.body if isinstance(f, ast.FunctionDef) and f.name.startswith('register_') and f.name != 'register_all_listeners']:
        k = fn.name[len('register_'):]
        if 'global_callback.register_%s(self.%s)' % (k, k) not in ast.unparse(fn):
            bad.append(fn.name)
    out.append(('S/listener-registration/forwarding', not bad, '; '.join(bad[:6])))
    return out


def _has_effect(fn):
    for n in ast.walk(fn):
        if isinstance(n, (ast.Assign, ast.AugAssign)):
            tg = n.targets if isinstance(n, ast.Assign) else [n.target]
            if any(isinstance(t, (ast.Attribute, ast.Subscript)) for t in tg):
                return 'store at line %d' % n.lineno
        if isinstance(n, ast.Delete):
            return 'del at line %d' % n.lineno
        if isinstance(n, ast.Call):
            f = n.func
            name = f.attr if isinstance(f, ast.Attribute) else (f.id if isinstance(f, ast.Name) else '')
            if name in IR_MUTATORS or name.startswith('_call_') or name.startswith('_remove_') or name.startswith('_disconnect'):
                return 'calls %s at line %d' % (name, n.lineno)
            if isinstance(f, ast.Attribute) and name in MUT and isinstance(f.value, ast.Attribute) and f.value.attr.startswith('_'):
                return 'mutates %s at line %d' % (ast.unparse(f.value), n.lineno)
    return None


def rule_coverage(repo, functions):
    """every public callable of the IR classes with an effect on the heap is under contract (or is one of the clone entry
    points, which belong to C07 and are only bounded)"""
    under = set()
    for c, n, k, _p in functions:
        under.add((c, n, k))
    out = []
    files = {'Netlist': 'netlist', 'Library': 'library', 'Definition': 'definition', 'Port': 'port', 'Cable': 'cable', 'Wire': 'wire',
             'Instance': 'instance', 'InnerPin': 'innerpin', 'OuterPin': 'outerpin', 'Bundle': 'bundle', 'FirstClassElement': 'first_class_element',
             'Pin': 'pin', 'Element': 'element'}
    # which concrete class stands for an inherited method in FUNCTIONS
    inherited = {('Bundle', x): [('Cable', x), ('Port', x)] for x in ('is_downto', 'is_scalar', 'is_array', 'lower_index')}
    inherited.update({('FirstClassElement', x): [('Definition', x)] for x in ('__setitem__', '__delitem__', 'pop', 'name')})
    for cls_, mod in files.items():
        t = _parse('%s/spydrnet/ir/%s.py' % (repo, mod))
        for c in [n for n in t.body if isinstance(n, ast.ClassDef) and n.name == cls_]:
            for fn in [n for n in c.body if isinstance(n, ast.FunctionDef)]:
                kind = 'method'
                for d in fn.decorator_list:
                    s = ast.unparse(d)
                    if s == 'property': kind = 'getter'
                    elif s.endswith('.setter'): kind = 'setter'
                    elif s.endswith('.deleter'): kind = 'deleter'
                public = not fn.name.startswith('_') or fn.name in ('__init__', '__setitem__', '__delitem__')
                if not public or fn.name in ('clone', 'compose'):
                    continue
                eff = _has_effect(fn)
                if eff is None:
                    continue
                covered = (cls_, fn.name, kind) in under or any((a, b, kind) in under for a, b in inherited.get((cls_, fn.name), []))
                if cls_ in ('Pin', 'Element') and fn.name == '__init__':
                    covered = True   # inlined into the InnerPin/OuterPin constructors
                if cls_ in ('Bundle', 'FirstClassElement') and fn.name == '__init__':
                    covered = True   # inlined through super().__init__() into every constructor under contract
                out.append(('S/coverage/%s.%s%s' % (cls_, fn.name, {'setter': '=', 'deleter': ' del'}.get(kind, '')), covered,
                            '' if covered else 'public %s with an effect (%s) and no contract' % (kind, eff)))
    return out


def all_ir_rules(repo, functions):
    out = []
    out += rule_encapsulation(repo)
    out += rule_views_read_only(repo)
    out += rule_owned_containers(repo)
    out += rule_static_dispatch(repo)
    out += rule_dispatcher_wiring(repo)
    out += rule_coverage(repo, functions)
    return out


if __name__ == '__main__':
    import sys
    sys.path.insert(0, os.path.dirname(os.path.dirname(os.path.abspath(__file__))))
    from specs.ir_functions import FUNCTIONS
    res = all_ir_rules(os.environ.get('VERIF_REPO', '/repo'), FUNCTIONS)
    for n, ok, d in res:
        if not ok: print('FAIL', n, d)
    print(len(res), 'rules,', sum(1 for r in res if r[1]), 'hold')
