"""Symbolic executor over the real AST of spydrnet/ir (continuation-passing: attribute reads on untyped
references fork over the classes that provide the attribute, plus the AttributeError exit).

Values are tagged tuples:
  ('ref', t)            reference (IR object, None, or Foreign)
  ('bool', t) ('int', t) ('key', t) ('str', python-constant)
  ('list', L, origin)   list value; origin=(field, owner) when it aliases a heap list field, ('local', name) for locals
  ('set', M)            set of references (members array); membership is eq-based (OuterPin structural equality)
  ('odict', i)          Instance._pins of instance i            ('pinsview', i)  OuterPinsView over it
  ('data', e)           element data dict of e                  ('enumcls', name)
  ('range', n) ('zip', a, b) ('tuple', [...]) ('opaque', descr)
"""
import ast
from z3 import (And, Or, Not, Implies, If, Store, Select, IntVal, BoolVal, Solver, SimpleSolver, unsat, sat, unknown, Const, ForAll, Exists,
                BoolSort, ArraySort, IntSort, is_true, is_false, K)
from pyvc.logic import FIELDS, IR_CLASSES, FIRST_CLASS


class Unsupported(Exception):
    """A construct outside the supported subset: the function falls back to the bounded tier (DEGRADED)."""


def R(t): return ('ref', t)
def B(t): return ('bool', t)
def I(t): return ('int', t)


class St:
    """One symbolic path."""
    __slots__ = ('heap', 'pc', 'env', 'handlers', 'frames', 'shaky', 'fresh', 'loops', 'trace')

    def __init__(self, heap, pc=None, env=None):
        self.heap = dict(heap); self.pc = list(pc or []); self.env = dict(env or {})
        self.handlers = []; self.frames = []; self.shaky = False; self.fresh = []; self.loops = []; self.trace = []

    def fork(self):
        s = St(self.heap, self.pc, self.env)
        s.handlers = list(self.handlers); s.frames = list(self.frames); s.shaky = self.shaky
        s.fresh = list(self.fresh); s.loops = list(self.loops); s.trace = list(self.trace)
        return s


class Frame:
    def __init__(self, fi, heap, env):
        self.fi = fi; self.heap = dict(heap); self.env = dict(env)


CALLBACK_ARITY = {}


def ensure_opkey(c):
    """the structural dictionary key of an OuterPin: an injective pairing of (instance, inner pin), distinct from every object"""
    if not hasattr(c, '_opkey'):
        from z3 import Function, MultiPattern
        c._opkey = Function('opkey', c.Ref, c.Ref, c.Ref)
        a1, a2, b1, b2 = (Const(n, c.Ref) for n in ('a1q_ok', 'a2q_ok', 'b1q_ok', 'b2q_ok'))
        c.axioms += [ForAll([a1, a2, b1, b2], Implies(c._opkey(a1, a2) == c._opkey(b1, b2), And(a1 == b1, a2 == b2)),
                            patterns=[MultiPattern(c._opkey(a1, a2), c._opkey(b1, b2))]),
                     ForAll([a1, a2], c.cls(c._opkey(a1, a2)) == c.C['Foreign'], patterns=[c._opkey(a1, a2)])]
    return c._opkey


class SE:
    def __init__(self, ctx, ct, spec, sat_timeout=4000, max_depth=6):
        self.ctx, self.ct, self.spec = ctx, ct, spec
        self.outcomes = []        # (state, kind, value)
        self.obligations = []     # (name, hyps(list), goal, shaky)
        self.sat_timeout = sat_timeout
        self.max_depth = max_depth
        self.nsat = 0
        self.loop_ordinals = {}

    # ------------------------------------------------------------------ basics
    def none(self): return R(self.ctx.null)

    def sat(self, st, strong=False):
        s = SimpleSolver(); s.set('timeout', self.sat_timeout * (10 if strong else 1)); s.set('mbqi', False)
        s.add(self.ctx.axioms); s.add(st.pc)
        self.nsat += 1
        r = s.check()
        if r == unknown:
            why = s.reason_unknown()
            if 'timeout' in why or 'canceled' in why or 'resource' in why:
                st.shaky = True
        return r != unsat

    def assume(self, st, f):
        st.pc.append(f)
        return self.sat(st)

    def branch(self, st, cond, k_true, k_false):
        if is_true(cond):
            return k_true(st)
        if is_false(cond):
            return k_false(st)
        sT = st.fork(); sT.pc.append(cond)
        sF = st.fork(); sF.pc.append(Not(cond))
        if self.sat(sT):
            k_true(sT)
            if self.sat(sF): k_false(sF)
        else:
            # pc & cond is unsatisfiable, so pc & not cond is as satisfiable as pc: no second query needed
            k_false(sF)

    def oblige(self, st, name, goal):
        self.obligations.append((name, list(st.pc), goal, st.shaky))

    def exit(self, st, kind, val=None):
        if st.handlers:
            h = st.handlers.pop()
            return h(st, kind, val)
        self.outcomes.append((st, kind, val))

    def truth(self, st, v):
        k = v[0]
        if k == 'bool': return v[1]
        if k == 'int': return v[1] != 0
        if k == 'ref':
            c = self.ctx
            # None -> False, IR elements -> True, pyTrue/pyFalse constants, other foreign objects unconstrained
            t = c.fresh('truthy', BoolSort())
            st.pc.append(Implies(v[1] == c.null, Not(t)))
            st.pc.append(Implies(c.isa(v[1], *IR_CLASSES), t))
            if 'HRef' in c.C: st.pc.append(Implies(c.isa(v[1], 'HRef'), t))     # HRef defines neither __bool__ nor __len__
            st.pc.append(Implies(v[1] == c.pyTrue, t)); st.pc.append(Implies(v[1] == c.pyFalse, Not(t)))
            return t
        if k == 'list': return self.ctx.len(v[1]) > 0
        if k == 'str': return BoolVal(bool(v[1]))
        if k == 'set':
            return Exists([Const('y_t', self.ctx.Ref)], v[1][Const('y_t', self.ctx.Ref)])
        raise Unsupported('truth of %s' % k)

    def name_term(self, st, t):
        """heap terms must stay ite-free (they end up inside quantifier patterns): name an ite by a fresh constant"""
        from z3 import is_app, Z3_OP_ITE
        if is_app(t) and t.decl().kind() == Z3_OP_ITE:
            v = self.ctx.fresh('v', t.sort())
            st.pc.append(v == t)
            return v
        return t

    def as_ref(self, st, v):
        """box a value into the universal reference sort (for storing into data / scalar fields)"""
        c = self.ctx
        if v[0] == 'ref': return v[1]
        if v[0] == 'bool':
            if is_true(v[1]): return c.pyTrue
            if is_false(v[1]): return c.pyFalse
            return self.name_term(st, If(v[1], c.pyTrue, c.pyFalse))
        if v[0] == 'int': return c.boxint(v[1])
        if v[0] in ('str', 'key', 'enum', 'opaque'):
            key = ('box',) + tuple(map(str, v[1:2]))
            return self._const_box(key)
        raise Unsupported('boxing %s' % v[0])

    def _const_box(self, key):
        if not hasattr(self, '_boxes'): self._boxes = {}
        if key not in self._boxes:
            t = self.ctx.fresh('const', self.ctx.Ref)
            self.ctx.axioms.append(self.ctx.cls(t) == self.ctx.C['Foreign'])
            self.ctx.axioms.append(t != self.ctx.pyTrue); self.ctx.axioms.append(t != self.ctx.pyFalse)
            self._boxes[key] = t
        return self._boxes[key]

    # ------------------------------------------------------------------ equality
    def eq(self, st, a, b):
        """python == on references: identity, except OuterPin.__eq__ (structural; read from the heap at hand)."""
        c = self.ctx; h = st.heap
        both = And(c.cls(a) == c.C['OuterPin'], c.cls(b) == c.C['OuterPin'])
        res = Or(a == b, And(both, h['_instance'][a] == h['_instance'][b], h['_inner_pin'][a] == h['_inner_pin'][b]))
        if getattr(self.spec, 'value_equality', False):
            # strings / enum members / numbers stored as data: == is an (uninterpreted) equivalence that contains identity
            res = Or(res, And(c.cls(a) == c.C['Foreign'], c.cls(b) == c.C['Foreign'], self.spec.veq(a, b)))
        return res

    def emem(self, st, M):
        """==-membership array of a set with identity members M:  E[y] <=> exists z in M. z == y   (skolemised through w)"""
        c = self.ctx; h = st.heap
        if not hasattr(self, '_emem'): self._emem = {}
        key = (M.get_id(), h['_instance'].get_id(), h['_inner_pin'].get_id())
        if key not in self._emem:
            from z3 import Function, MultiPattern
            E = c.fresh('emem', c.SetS); w = Function('w!%d' % next(c._fresh), c.Ref, c.Ref)
            y = Const('yq_em', c.Ref); z = Const('zq_em', c.Ref)
            OP = lambda t: c.cls(t) == c.C['OuterPin']
            same = lambda a, b: And(h['_instance'][a] == h['_instance'][b], h['_inner_pin'][a] == h['_inner_pin'][b])
            facts = [ForAll([y], Implies(M[y], E[y]), patterns=[M[y]]),
                     ForAll([y], Implies(E[y], Or(M[y], And(OP(y), OP(w(y)), M[w(y)], same(w(y), y)))), patterns=[E[y]]),
                     ForAll([z, y], Implies(And(M[z], OP(z), OP(y), same(z, y)), E[y]), patterns=[MultiPattern(M[z], E[y])])]
            self._emem[key] = (E, facts, M)
        E, facts, _M = self._emem[key]
        for f in facts:
            if not any(f is g for g in st.pc): st.pc.append(f)
        return E

    def memeq(self, st, M, x):
        return self.emem(st, M)[x]

    def list_contains_eq(self, st, l, x):
        c = self.ctx
        yy = Const('yq_lc', c.Ref)
        return Exists([yy], And(c.cnt(l, yy) > 0, self.eq(st, yy, x)))

    # ------------------------------------------------------------------ attribute access
    def slot_classes(self, name):
        return FIELDS[name][0] if name in FIELDS else []

    def getattr_(self, st, v, name, cont):
        c = self.ctx
        k = v[0]
        if k == 'pinsview':
            if name == '_dict': return cont(st, ('odict', v[1]))
            raise Unsupported('attribute %s of OuterPinsView' % name)
        if k == 'enumcls':
            return cont(st, ('enum', '%s.%s' % (v[1], name)))
        if k == 'enum':
            if name in ('value', 'name'): return cont(st, ('opaque', 'enum.' + name))
            raise Unsupported('attribute %s of enum' % name)
        if k == 'module':
            if v[1] in ('sdn', 'spydrnet') and name in ('IN', 'OUT', 'INOUT', 'UNDEFINED'):     # spydrnet/__init__.py: IN = Port.Direction.IN, ...
                return cont(st, ('enum', 'Direction.' + name))
            return cont(st, ('module', v[1] + '.' + name))
        if k == 'obj' and hasattr(self.spec, 'obj_attr'):
            return self.spec.obj_attr(self, st, v, name, cont)
        if k != 'ref':
            raise Unsupported('attribute %s of %s' % (name, k))
        if hasattr(self.spec, 'getattr_hook'):
            if self.spec.getattr_hook(self, st, v, name, cont) is not NotImplemented: return
        r = v[1]
        providers = []
        for cl in IR_CLASSES:
            g = self.ct.find(cl, name, 'getter')
            if g is not None:
                providers.append((cl, 'getter', g))
            elif name == '_pins' and cl == 'Instance':
                providers.append((cl, 'odict', None))
            elif name == '_data' and cl in FIRST_CLASS:
                providers.append((cl, 'data', None))
            elif name in FIELDS and cl in FIELDS[name][0]:
                providers.append((cl, 'slot', None))
            elif name == 'Direction' and cl == 'Port':
                providers.append((cl, 'enumcls', None))
            elif self.ct.find_any(cl, name) is not None:
                providers.append((cl, 'bound', None))
        handled = []
        for cl, how, g in providers:
            handled.append(cl)
            s2 = st.fork(); s2.pc.append(c.cls(r) == c.C[cl])
            if not self.sat(s2): continue
            if how == 'slot': cont(s2, self.read_slot(s2, r, name))
            elif how == 'odict': cont(s2, ('odict', r))
            elif how == 'data': cont(s2, ('data', r))
            elif how == 'enumcls': cont(s2, ('enumcls', 'Direction'))
            elif how == 'bound': cont(s2, ('bound', r, cl, name))
            else: self.call_fn(s2, g, [R(r)], cont)
        s4 = st.fork()
        s4.pc.append(And([c.cls(r) != c.C[cl] for cl in handled]) if handled else BoolVal(True))
        if self.sat(s4): self.exit(s4, 'AttributeError')

    def read_slot(self, st, r, name):
        kind = FIELDS[name][1]
        if kind == 'list': return ('list', st.heap[name][r], (name, r))
        if kind == 'set': return ('set', st.heap[name][r], (name, r))
        return R(st.heap[name][r])

    def write_slot(self, st, r, name, v):
        """store to a private slot of object r (class already known to own the slot)"""
        kind = FIELDS[name][1] if name in FIELDS else None
        h = st.heap
        if name == '_pins' and v[0] == 'memo' and st.heap['memo_k:%d' % v[1]].eq(K(self.ctx.Ref, False)): v = ('odict_new',)
        if name == '_pins' and v[0] == 'odict_new':
            self.spec.on_store(self, st, 'okeys', r, None, None)
            h['okeys'] = Store(h['okeys'], r, K(self.ctx.Ref, False))
            return
        if name == '_data' and v[0] == 'datacopy':
            # a deep copy of another element's data: equal keys and values (values are immutable in this model)
            h['dhas'] = Store(h['dhas'], r, h['dhas'][v[1]]); h['dval'] = Store(h['dval'], r, h['dval'][v[1]])
            return
        if name == '_data':
            if v[0] == 'memo' and st.heap['memo_k:%d' % v[1]].eq(K(self.ctx.Ref, False)): v = ('dict_empty',)
            if v[0] != 'dict_empty': raise Unsupported('store to _data')
            h['dhas'] = Store(h['dhas'], r, K(self.ctx.Key, False))
            return
        if kind == 'list':
            if v[0] != 'list': raise Unsupported('list slot assigned a %s' % v[0])
            self.spec.on_list_assign(self, st, name, r, h[name][r], v[1])
            h[name] = Store(h[name], r, v[1]); return
        if kind == 'set':
            if v[0] != 'set': raise Unsupported('set slot assigned a %s' % v[0])
            self.spec.on_store(self, st, name, r, h[name][r], v[1])
            h[name] = Store(h[name], r, v[1]); return
        if kind in ('ref', 'val'):
            t = self.as_ref(st, v)
            self.spec.on_store(self, st, name, r, h[name][r], t)
            h[name] = Store(h[name], r, t); return
        raise Unsupported('store to unknown slot %s' % name)

    def setattr_(self, st, ov, name, v, cont):
        c = self.ctx
        if ov[0] != 'ref': raise Unsupported('attribute store on %s' % ov[0])
        r = ov[1]
        handled = []
        for cl in IR_CLASSES:
            setter = self.ct.find(cl, name, 'setter')
            is_slot = (name in FIELDS and cl in FIELDS[name][0]) or (name == '_pins' and cl == 'Instance') or (name == '_data' and cl in FIRST_CLASS)
            if setter is None and not is_slot: continue
            handled.append(cl)
            s2 = st.fork(); s2.pc.append(c.cls(r) == c.C[cl])
            if not self.sat(s2): continue
            if setter is not None:
                self.call_fn(s2, setter, [R(r), v], lambda s3, _v: cont(s3))
            else:
                self.write_slot(s2, r, name, v); cont(s2)
        s4 = st.fork()
        s4.pc.append(And([c.cls(r) != c.C[cl] for cl in handled]) if handled else BoolVal(True))
        if self.sat(s4): self.exit(s4, 'AttributeError')

    # ------------------------------------------------------------------ expressions
    def ev(self, st, e, cont):
        c = self.ctx
        if isinstance(e, ast.Name):
            if e.id in st.env: return cont(st, st.env[e.id])
            g = self.spec.global_name(self, st, e.id)
            if g is not None: return cont(st, g)
            raise Unsupported('name %s' % e.id)
        if isinstance(e, ast.Constant):
            if e.value is None: return cont(st, self.none())
            if isinstance(e.value, bool): return cont(st, B(BoolVal(e.value)))
            if isinstance(e.value, int): return cont(st, I(IntVal(e.value)))
            if isinstance(e.value, str): return cont(st, ('str', e.value))
            raise Unsupported('constant %r' % (e.value,))
        if isinstance(e, ast.Attribute):
            return self.ev(st, e.value, lambda s, v: self.getattr_(s, v, e.attr, cont))
        if isinstance(e, ast.UnaryOp):
            if isinstance(e.op, ast.Not):
                return self.ev(st, e.operand, lambda s, v: cont(s, B(Not(self.truth(s, v)))))
            if isinstance(e.op, ast.USub):
                return self.ev(st, e.operand, lambda s, v: cont(s, I(-v[1])) if v[0] == 'int' else self._unsup('unary - on %s' % v[0]))
        if isinstance(e, ast.BoolOp):
            def go(s, i):
                def k(s2, v):
                    if i == len(e.values) - 1: return cont(s2, v)
                    t = self.truth(s2, v)
                    if isinstance(e.op, ast.And):
                        self.branch(s2, t, lambda sT: go(sT, i + 1), lambda sF: cont(sF, v))
                    else:
                        self.branch(s2, t, lambda sT: cont(sT, v), lambda sF: go(sF, i + 1))
                self.ev(s, e.values[i], k)
            return go(st, 0)
        if isinstance(e, ast.Compare):
            def chain(s, left, idx):
                def k2(s2, b):
                    def after(s3, res):
                        if idx == len(e.ops) - 1: return cont(s3, res)
                        self.branch(s3, res[1], lambda sT: chain(sT, b, idx + 1), lambda sF: cont(sF, B(BoolVal(False))))
                    self.compare(s2, e.ops[idx], left, b, after)
                self.ev(s, e.comparators[idx], k2)
            return self.ev(st, e.left, lambda s, a: chain(s, a, 0))
        if isinstance(e, ast.Call): return self.call(st, e, cont)
        if isinstance(e, ast.Subscript):
            if isinstance(e.slice, ast.Slice):
                return self.ev(st, e.value, lambda s, v: self.slice_(s, v, e.slice, cont))
            return self.ev(st, e.value, lambda s, cv: self.ev(s, e.slice, lambda s2, i: self.getitem(s2, cv, i, cont)))
        if isinstance(e, ast.IfExp):
            return self.ev(st, e.test, lambda s, t: self.branch(s, self.truth(s, t), lambda sT: self.ev(sT, e.body, cont),
                                                                 lambda sF: self.ev(sF, e.orelse, cont)))
        if isinstance(e, ast.BinOp) and isinstance(e.op, (ast.Add, ast.Sub)):
            def k(s, a):
                def k2(s2, b):
                    if a[0] == 'int' and b[0] == 'int':
                        return cont(s2, I(a[1] + b[1] if isinstance(e.op, ast.Add) else a[1] - b[1]))
                    if a[0] == 'str' or b[0] == 'str': return cont(s2, ('str', '?'))
                    if getattr(self.spec, 'int_slots', False) and any(x[0] == 'ref' and x[1].eq(c.null) for x in (a, b)):
                        return self.exit(s2, 'TypeError')          # None + int
                    if {a[0], b[0]} == {'int', 'ref'} and getattr(self.spec, 'int_slots', False):
                        # a scalar slot that holds an int (documented type, precondition of the spec): int arithmetic on its value
                        ai = a[1] if a[0] == 'int' else c.intval(a[1]); bi = b[1] if b[0] == 'int' else c.intval(b[1])
                        return cont(s2, I(ai + bi if isinstance(e.op, ast.Add) else ai - bi))
                    raise Unsupported('binop on %s,%s' % (a[0], b[0]))
                self.ev(s, e.right, k2)
            return self.ev(st, e.left, k)
        if isinstance(e, (ast.List, ast.Tuple)):
            if not e.elts:
                t, facts = c.L_empty(); st.pc += facts
                return cont(st, ('list', t, None))
            return self.evs(st, e.elts, lambda s, vs: cont(s, ('tuple', vs)))
        if isinstance(e, ast.Dict) and not e.keys:
            if hasattr(self.spec, 'new_dict'): return cont(st, self.spec.new_dict(self, st))
            if not getattr(self.spec, 'memo_dicts', False): return cont(st, ('dict_empty',))
            # a local dictionary keyed by objects (the `memo` of the clone functions): a mutable object, so its content lives in the
            # per-path heap under its own keys
            n = next(c._fresh)
            st.heap['memo_k:%d' % n] = K(c.Ref, False); st.heap['memo_v:%d' % n] = K(c.Ref, c.null)
            return cont(st, ('memo', n))
        if isinstance(e, ast.Set):
            return self.evs(st, e.elts, lambda s, vs: cont(s, ('constset', vs)))
        if isinstance(e, ast.JoinedStr):
            return cont(st, ('str', '?'))
        raise Unsupported('expression %s' % type(e).__name__)

    def _unsup(self, msg):
        raise Unsupported(msg)

    def evs(self, st, es, cont, acc=None):
        acc = acc or []
        if not es: return cont(st, acc)
        self.ev(st, es[0], lambda s, v: self.evs(s, es[1:], cont, acc + [v]))

    def compare(self, st, op, a, b, cont):
        c = self.ctx
        if isinstance(op, (ast.Is, ast.IsNot)):
            if a[0] == 'ref' and b[0] == 'ref': t = (a[1] == b[1])
            elif a[0] == 'bool' and b[0] == 'bool': t = (a[1] == b[1])
            elif a[0] == 'ref' and b[0] == 'bool': t = (a[1] == If(b[1], c.pyTrue, c.pyFalse))
            elif a[0] == 'bool' and b[0] == 'ref': t = (b[1] == If(a[1], c.pyTrue, c.pyFalse))
            elif a[0] == 'enum' and b[0] == 'enum': t = BoolVal(a[1] == b[1])
            elif {a[0], b[0]} == {'key', 'ref'} and (a if a[0] == 'ref' else b)[1].eq(c.null):
                t = BoolVal(False)          # a dictionary key (a str) is never None
            elif a[0] != b[0]:
                t = BoolVal(False) if {a[0], b[0]} & {'int', 'list', 'set', 'str', 'pdict'} else self._unsup('is on %s,%s' % (a[0], b[0]))
            else: raise Unsupported('is on %s,%s' % (a[0], b[0]))
            return cont(st, B(t if isinstance(op, ast.Is) else Not(t)))
        if isinstance(op, (ast.Eq, ast.NotEq)):
            if a[0] == 'ref' and b[0] == 'ref': t = self.eq(st, a[1], b[1])
            elif a[0] == 'int' and b[0] == 'int': t = (a[1] == b[1])
            elif a[0] == 'bool' and b[0] == 'bool': t = (a[1] == b[1])
            elif a[0] == 'key' and b[0] == 'key': t = (a[1] == b[1])
            elif a[0] == 'key' and b[0] == 'str': t = (a[1] == self.spec.key_const(self, b[1]))
            elif a[0] == 'str' and b[0] == 'key': t = (b[1] == self.spec.key_const(self, a[1]))
            elif a[0] == 'str' and b[0] == 'str' and '?' not in (a[1], b[1]): t = BoolVal(a[1] == b[1])
            elif a[0] == 'set' and b[0] == 'set':
                x = Const('xq_se', c.Ref)
                Ea, Eb = self.emem(st, a[1]), self.emem(st, b[1])
                t = ForAll([x], Ea[x] == Eb[x], patterns=[Ea[x], Eb[x]])
            elif a[0] == 'type' and b[0] == 'type':
                t = (c.cls(a[1]) == c.cls(b[1]))
            elif a[0] == 'opaque' or b[0] == 'opaque':
                t = c.fresh('opq', BoolSort())
            elif a[0] == 'ref' and b[0] in ('int', 'str', 'bool') or b[0] == 'ref' and a[0] in ('int', 'str', 'bool'):
                t = c.fresh('mixed_eq', BoolSort())
            else: raise Unsupported('== on %s,%s' % (a[0], b[0]))
            return cont(st, B(t if isinstance(op, ast.Eq) else Not(t)))
        if isinstance(op, (ast.In, ast.NotIn)):
            neg = isinstance(op, ast.NotIn)
            fin = lambda s, t: cont(s, B(Not(t) if neg else t))
            if b[0] == 'odict':
                if a[0] != 'ref': return fin(st, BoolVal(False))
                return fin(st, st.heap['okeys'][b[1]][a[1]])
            if b[0] == 'pinsview':
                fn = self.ct.find('OuterPinsView', '__contains__', 'method')
                return self.call_fn(st, fn, [b, a], lambda s, v: fin(s, self.truth(s, v)))
            if b[0] == 'set':
                if a[0] != 'ref': return fin(st, BoolVal(False))
                return fin(st, self.memeq(st, b[1], a[1]))
            if b[0] == 'list':
                if a[0] != 'ref': return fin(st, BoolVal(False))
                return fin(st, self.list_contains_eq(st, b[1], a[1]))
            if b[0] == 'data' or (b[0] == 'ref'):
                return self.contains_data(st, b, a, fin)
            if b[0] == 'hdict':
                return fin(st, st.heap['dk'][b[1]][self.spec.dict_key(self, st, a)])
            if b[0] == 'idset':
                if a[0] != 'id': return fin(st, BoolVal(False))
                return fin(st, self.ctx.cnt(b[1], a[1]) > 0)
            if b[0] == 'constset':
                if a[0] == 'key':
                    return fin(st, Or([a[1] == self.spec.key_const(self, x[1]) for x in b[1]]))
            if b[0] == 'memo':
                return fin(st, st.heap['memo_k:%d' % b[1]][self.memo_key(st, a)])
            if b[0] == 'tuple':
                # x in (a, b, ...): some item equals x (== of the items, left to right)
                items = list(b[1])
                def go(s, idx, acc):
                    if idx == len(items): return fin(s, Or(acc) if acc else BoolVal(False))
                    it = items[idx]
                    if it[0] == 'enum' and a[0] == 'ref': it = R(self.as_ref(s, it))
                    a_ = R(self.as_ref(s, a)) if a[0] == 'enum' and it[0] == 'ref' else a
                    self.compare(s, ast.Eq(), a_, it, lambda s2, v: go(s2, idx + 1, acc + [self.truth(s2, v)]))
                return go(st, 0, [])
            raise Unsupported('in on %s,%s' % (a[0], b[0]))
        if isinstance(op, (ast.Lt, ast.LtE, ast.Gt, ast.GtE)) and a[0] == 'int' and b[0] == 'int':
            t = {ast.Lt: a[1] < b[1], ast.LtE: a[1] <= b[1], ast.Gt: a[1] > b[1], ast.GtE: a[1] >= b[1]}[type(op)]
            return cont(st, B(t))
        raise Unsupported('comparison %s on %s,%s' % (type(op).__name__, a[0], b[0]))

    def contains_data(self, st, container, key, fin):
        """`key in element` / `key in element._data` (FirstClassElement.__contains__ forwards to the dict)"""
        c = self.ctx
        if container[0] == 'data':
            e = container[1]
        else:
            e = container[1]
            s2 = st.fork(); s2.pc.append(Not(c.isa(e, *FIRST_CLASS)))
            if self.sat(s2): self.exit(s2, 'TypeError')
            st = st.fork(); st.pc.append(c.isa(e, *FIRST_CLASS))
            if not self.sat(st): return
        k = self.to_key(st, key)
        return fin(st, st.heap['dhas'][e][k])

    def to_key(self, st, v):
        if v[0] == 'key': return v[1]
        if v[0] == 'str': return self.spec.key_const(self, v[1])
        raise Unsupported('dictionary key of kind %s' % v[0])

    def hdict_method(self, st, recv, name, args, cont):
        d = recv[1]; h = st.heap
        if name == 'get':
            k = self.spec.dict_key(self, st, args[0]); dflt = args[1] if len(args) > 1 else self.none()
            if dflt[0] != 'ref': raise Unsupported('dict.get default')
            return cont(st, R(self.name_term(st, If(h['dk'][d][k], h['dv'][d][k], dflt[1]))))
        raise Unsupported('dict.%s on a heap dictionary' % name)

    def memo_key(self, st, v):
        """key of an object-keyed local dictionary: identity, for every class that does not redefine __eq__/__hash__ (OuterPin does)"""
        if v[0] != 'ref': raise Unsupported('memo key of kind %s' % v[0])
        c = self.ctx
        s2 = st.fork(); s2.pc.append(c.isa(v[1], 'OuterPin'))
        if not self.sat(s2): return v[1]
        # OuterPin.__eq__/__hash__ are structural: the key is the pair (instance, inner pin) at the time of the operation
        ensure_opkey(c)
        h = st.heap
        return self.name_term(st, If(c.isa(v[1], 'OuterPin'), c._opkey(h['_instance'][v[1]], h['_inner_pin'][v[1]]), v[1]))

    def getitem(self, st, cv, i, cont):
        c = self.ctx
        if cv[0] == 'memo':
            k = self.memo_key(st, i)
            return self.branch(st, st.heap['memo_k:%d' % cv[1]][k], lambda s: cont(s, R(s.heap['memo_v:%d' % cv[1]][k])), lambda s: self.exit(s, 'KeyError'))
        if cv[0] == 'pdict':
            k = self.to_key(st, i)
            return self.branch(st, cv[1][k], lambda s: cont(s, R(cv[2][k])), lambda s: self.exit(s, 'KeyError'))
        if cv[0] == 'policies':
            if i[0] != 'ref': raise Unsupported('policy name of kind %s' % i[0])
            pn = self.spec.policy_names(self)
            known = Or([self.spec.sv(i[1]) == self.spec.sv(x) for x in pn.values()])
            return self.branch(st, known, lambda s: cont(s, ('policycls', i[1])), lambda s: self.exit(s, 'KeyError'))
        if cv[0] == 'hdict':
            k = self.spec.dict_key(self, st, i); d = cv[1]
            return self.branch(st, st.heap['dk'][d][k], lambda s: cont(s, self.spec.dict_value(self, s, s.heap['dv'][d][k], cv)),
                               lambda s: self.exit(s, 'KeyError'))
        if cv[0] == 'odict':
            if i[0] != 'ref': return self.exit(st, 'KeyError')
            ok = st.heap['okeys'][cv[1]][i[1]]
            return self.branch(st, ok, lambda s: cont(s, R(s.heap['ovals'][cv[1]][i[1]])), lambda s: self.exit(s, 'KeyError'))
        if cv[0] == 'pinsview':
            fn = self.ct.find('OuterPinsView', '__getitem__', 'method')
            return self.call_fn(st, fn, [cv, i], cont)
        if cv[0] == 'list':
            if i[0] == 'ref': return self.exit(st, 'TypeError')
            if i[0] == 'int':
                inb = And(i[1] < c.len(cv[1]), i[1] >= -c.len(cv[1]))
                def ok(s):
                    idx = If(i[1] >= 0, i[1], i[1] + c.len(cv[1]))
                    x = c.at(cv[1], idx)
                    s.pc.append(c.cnt(cv[1], x) > 0)
                    cont(s, R(x))
                return self.branch(st, inb, ok, lambda s: self.exit(s, 'IndexError'))
        if cv[0] in ('data', 'ref'):
            e = cv[1]
            if cv[0] == 'ref':
                s2 = st.fork(); s2.pc.append(Not(c.isa(e, *FIRST_CLASS)))
                if self.sat(s2): self.exit(s2, 'TypeError')
                st = st.fork(); st.pc.append(c.isa(e, *FIRST_CLASS))
                if not self.sat(st): return
            k = self.to_key(st, i)
            return self.branch(st, st.heap['dhas'][e][k], lambda s: cont(s, R(s.heap['dval'][e][k])), lambda s: self.exit(s, 'KeyError'))
        raise Unsupported('subscript of %s by %s' % (cv[0], i[0]))

    def slice_(self, st, v, sl, cont):
        if v[0] != 'list': raise Unsupported('slice of %s' % v[0])
        t, facts = self.ctx.L_any('slice')
        c = self.ctx
        st.pc.append(self.ctx.forall(['y'], lambda y: c.cnt(t, y) <= c.cnt(v[1], y), lambda y: c.cnt(t, y)))
        cont(st, ('list', t, None))

    # ------------------------------------------------------------------ calls
    def call(self, st, e, cont):
        f = e.func
        fname = ast.unparse(f)
        if e.keywords and any(k.arg is None for k in e.keywords): raise Unsupported('**kwargs call')
        handled = self.spec.special_call(self, st, e, fname, cont)
        if handled is not NotImplemented:
            return handled
        if isinstance(f, ast.Attribute):
            def k(s, recv):
                def k2(s2, args):
                    def k3(s3, kwv):
                        kw = dict(zip([x.arg for x in e.keywords], kwv))
                        self.call_method(s3, recv, f.attr, args, kw, cont, node=e)
                    self.evs(s2, [x.value for x in e.keywords], k3)
                self.evs(s, e.args, k2)
            return self.ev(st, f.value, k)
        raise Unsupported('call of %s' % fname)

    def call_method(self, st, recv, name, args, kw, cont, node=None):
        c = self.ctx
        k = recv[0]
        if k == 'list': return self.list_method(st, recv, name, args, cont, node)
        if k == 'odict': return self.odict_method(st, recv, name, args, cont)
        if k == 'set': return self.set_method(st, recv, name, args, cont, node)
        if k == 'data': return self.data_method(st, recv, name, args, cont)
        if k == 'pinsview':
            fn = self.ct.find('OuterPinsView', name, 'method')
            if fn is None: raise Unsupported('OuterPinsView.%s' % name)
            return self.call_fn(st, fn, [recv] + args, cont, kw)
        if k == 'super':
            # super().__init__() / super().__str__()
            cls_here = recv[2]
            for base in self.ct.mro(cls_here)[1:]:
                fi = self.ct.methods.get((base, name, 'method'))
                if fi is not None:
                    return self.call_fn(st, fi, [R(recv[1])] + args, cont, kw)
            return cont(st, self.none())
        if k == 'str':
            return cont(st, ('str', '?'))
        if k == 'policycls':
            return self.spec.policy_call(self, st, recv, name, args, kw, cont)
        if k == 'clsobj':
            fi = self.ct.find_any(recv[1], name)
            if fi is None: raise Unsupported('%s.%s' % (recv[1], name))
            return self.call_fn(st, fi, ([recv] if fi.kind == 'classmethod' else []) + args, cont, kw)
        if k == 'obj':
            fi = self.ct.find_any(recv[1], name)
            if fi is None: raise Unsupported('method %s of %s' % (name, recv[1]))
            return self.call_fn(st, fi, ([] if fi.kind == 'static' else [recv]) + args, cont, kw)
        if k == 'hdict': return self.hdict_method(st, recv, name, args, cont)
        if k != 'ref': raise Unsupported('method %s on %s' % (name, k))
        if hasattr(self.spec, 'method_hook'):
            if self.spec.method_hook(self, st, recv, name, args, kw, cont) is not NotImplemented: return
        if name in ('startswith', 'endswith', 'split', 'lower', 'upper', 'format'):
            # string methods on a data value (names are opaque values): uninterpreted, deterministic in the receiver
            return cont(st, self.spec.string_method(self, st, recv, name, args))
        handled = []
        for cl in IR_CLASSES:
            m = self.ct.find(cl, name, 'method')
            if m is None:
                # a static method reached through an instance: same body, no receiver
                m = self.ct.find(cl, name, 'static')
                if m is None:
                    if self.ct.find(cl, name, 'classmethod') is not None: raise Unsupported('classmethod %s through an instance' % name)
                    continue
                handled.append(cl)
                s2 = st.fork(); s2.pc.append(c.cls(recv[1]) == c.C[cl])
                if self.sat(s2): self.call_fn(s2, m, list(args), cont, kw)
                continue
            handled.append(cl)
            s2 = st.fork(); s2.pc.append(c.cls(recv[1]) == c.C[cl])
            if self.sat(s2): self.call_fn(s2, m, [recv] + args, cont, kw)
        s4 = st.fork()
        s4.pc.append(And([c.cls(recv[1]) != c.C[cl] for cl in handled]) if handled else BoolVal(True))
        if self.sat(s4): self.exit(s4, 'AttributeError')

    def call_fn(self, st, fi, args, cont, kw=None):
        """inline the real body of fi"""
        if len(st.frames) >= self.max_depth: raise Unsupported('call depth > %d at %s' % (self.max_depth, fi.qual))
        contract = self.spec.contract_for(self, st, fi)
        if contract is not None:
            return contract(self, st, fi, args, kw or {}, cont)
        fn = fi.node
        params = [a.arg for a in fn.args.args]
        defaults = fn.args.defaults
        if fn.args.vararg or fn.args.kwarg: raise Unsupported('*args in %s' % fi.qual)
        env = {}
        nd = len(defaults)
        for i, p in enumerate(params):
            if i < len(args): env[p] = args[i]
            elif kw and p in kw: env[p] = kw[p]
            else:
                di = i - (len(params) - nd)
                if di < 0: raise Unsupported('missing argument %s of %s' % (p, fi.qual))
                d = defaults[di]
                if isinstance(d, ast.Constant) and d.value is None: env[p] = self.none()
                elif isinstance(d, ast.Constant) and isinstance(d.value, str): env[p] = ('str', d.value)
                elif isinstance(d, ast.Constant) and isinstance(d.value, bool): env[p] = B(BoolVal(d.value))
                elif isinstance(d, ast.Constant) and isinstance(d.value, int): env[p] = I(IntVal(d.value))
                else: raise Unsupported('default of %s' % p)
        saved_env = st.env
        nh = len(st.handlers)
        st.env = env
        st.frames = st.frames + [Frame(fi, st.heap, env)]

        def leave(s, val):
            s.env = saved_env; s.frames = s.frames[:-1]
            cont(s, val if val is not None else self.none())
        # exceptions that escape the callee must see the caller's env/frames again
        depth = len(st.frames)
        def unwinder(s, kind, val):
            s.env = saved_env; s.frames = s.frames[:depth - 1]
            self.exit(s, kind, val)
        st.handlers = st.handlers + [unwinder]
        def pop_and(k):
            def w(s, *a):
                if s.handlers and s.handlers[-1] is unwinder: s.handlers = s.handlers[:-1]
                return k(s, *a)
            return w
        self.block(st, fn.body, pop_and(lambda s: leave(s, None)), pop_and(lambda s, v: leave(s, v)), None, None)

    # ---- builtin container methods
    def _local_rebind(self, st, recv, newval):
        o = recv[2] if len(recv) > 2 else None
        if o is not None and o[0] == 'local':
            st.env[o[1]] = (newval[0], newval[1], o)
            return True
        return False

    def list_method(self, st, recv, name, args, cont, node):
        c = self.ctx
        l = recv[1]; origin = recv[2] if len(recv) > 2 else None
        def store(s, newl, added=None, removed=None):
            if origin is None: raise Unsupported('mutation of a temporary list')
            if origin[0] == 'local':
                s.env[origin[1]] = ('list', newl, origin)
            else:
                fld, owner = origin
                self.spec.on_list_store(self, s, fld, owner, s.heap[fld][owner], newl, added, removed)
                s.heap[fld] = Store(s.heap[fld], owner, newl)
        if name in ('append', 'insert'):
            x = args[-1]
            if x[0] != 'ref': raise Unsupported('list.%s of %s' % (name, x[0]))
            if name == 'insert' and args[0][0] not in ('int',):
                if args[0][0] == 'ref':
                    return self.exit(st, 'TypeError')
            cur = st.heap[origin[0]][origin[1]] if origin and origin[0] != 'local' else l
            t, facts = c.L_append(cur, x[1]); st.pc += facts
            store(st, t, added=x[1]); return cont(st, self.none())
        if name == 'remove':
            x = args[0]
            if x[0] != 'ref': return self.exit(st, 'ValueError')
            cur = st.heap[origin[0]][origin[1]] if origin and origin[0] != 'local' else l
            present = self.list_contains_eq(st, cur, x[1])
            def ok(s):
                r = c.fresh('removed', c.Ref)
                s.pc += [c.cnt(cur, r) > 0, self.eq(s, r, x[1])]
                t, facts = c.L_remove(cur, r); s.pc += facts
                store(s, t, removed=r); cont(s, self.none())
            return self.branch(st, present, ok, lambda s: self.exit(s, 'ValueError'))
        if name == 'index':
            x = args[0]
            present = self.list_contains_eq(st, l, x[1]) if x[0] == 'ref' else BoolVal(False)
            def found(s):
                if x[0] == 'ref' and getattr(c, '_positions', False):
                    # list.index finds the first ==-equal element; for identity-compared elements of a duplicate-free list that is idx(l, x)
                    s.pc.append(c.cnt(l, x[1]) >= 1)
                    return cont(s, I(c.idx(l, x[1])))
                return cont(s, I(c.fresh('idx', IntSort())))
            return self.branch(st, present, found, lambda s: self.exit(s, 'ValueError'))
        if name == 'copy':
            return cont(st, ('list', l, None))
        raise Unsupported('list.%s' % name)

    def odict_method(self, st, recv, name, args, cont):
        c = self.ctx; i = recv[1]; h = st.heap
        if name == 'clear':
            self.spec.on_store(self, st, 'okeys', i, None, None)
            h['okeys'] = Store(h['okeys'], i, K(c.Ref, False))
            return cont(st, self.none())
        if name == 'pop':
            q = args[0]
            if q[0] != 'ref': return self.exit(st, 'KeyError')
            def ok(s):
                v = s.heap['ovals'][i][q[1]]
                self.spec.on_okey(self, s, i, q[1], False)
                s.heap['okeys'] = Store(s.heap['okeys'], i, Store(s.heap['okeys'][i], q[1], False))
                cont(s, R(v))
            return self.branch(st, h['okeys'][i][q[1]], ok, lambda s: self.exit(s, 'KeyError'))
        if name == 'values':
            return cont(st, ('odict_values', i))
        if name == 'items':
            return cont(st, ('odict_items', i))
        if name == 'get':
            q = args[0]
            dflt = args[1] if len(args) > 1 else self.none()
            if q[0] != 'ref': return cont(st, dflt)
            return self.branch(st, h['okeys'][i][q[1]], lambda s: cont(s, R(s.heap['ovals'][i][q[1]])), lambda s: cont(s, dflt))
        raise Unsupported('dict.%s on Instance._pins' % name)

    def set_method(self, st, recv, name, args, cont, node):
        c = self.ctx; M = recv[1]; origin = recv[2] if len(recv) > 2 else None
        if name in ('add', 'remove', 'discard'):
            x = args[0]
            if x[0] != 'ref': raise Unsupported('set.%s of %s' % (name, x[0]))
            if origin is None or origin[0] == 'local': raise Unsupported('mutation of a local set')
            fld, owner = origin
            cur = st.heap[fld][owner]
            if name == 'add':
                new = Store(cur, x[1], True)
                self.spec.on_set_store(self, st, fld, owner, x[1], True)
                st.heap[fld] = Store(st.heap[fld], owner, new); return cont(st, self.none())
            def ok(s):
                self.spec.on_set_store(self, s, fld, owner, x[1], False)
                s.heap[fld] = Store(s.heap[fld], owner, Store(cur, x[1], False)); cont(s, self.none())
            if name == 'discard': return ok(st)
            return self.branch(st, cur[x[1]], ok, lambda s: self.exit(s, 'KeyError'))
        raise Unsupported('set.%s' % name)

    def data_method(self, st, recv, name, args, cont):
        c = self.ctx; e = recv[1]; h = st.heap
        if name == 'get':
            k = self.to_key(st, args[0]); dflt = args[1] if len(args) > 1 else self.none()
            if dflt[0] == 'ref':
                # no fork: the result is one (named) conditional value
                return cont(st, R(self.name_term(st, If(h['dhas'][e][k], h['dval'][e][k], dflt[1]))))
            return self.branch(st, h['dhas'][e][k], lambda s: cont(s, R(s.heap['dval'][e][k])), lambda s: cont(s, dflt))
        if name == '__setitem__':
            k = self.to_key(st, args[0]); v = self.as_ref(st, args[1])
            self.spec.on_data_store(self, st, e, k, v, True)
            h['dhas'] = Store(h['dhas'], e, Store(h['dhas'][e], k, True))
            h['dval'] = Store(h['dval'], e, Store(h['dval'][e], k, v))
            return cont(st, self.none())
        if name in ('__delitem__', 'pop'):
            k = self.to_key(st, args[0])
            def ok(s):
                v = s.heap['dval'][e][k]
                self.spec.on_data_store(self, s, e, k, None, False)
                s.heap['dhas'] = Store(s.heap['dhas'], e, Store(s.heap['dhas'][e], k, False))
                cont(s, R(v))
            return self.branch(st, h['dhas'][e][k], ok, lambda s: self.exit(s, 'KeyError'))
        if name == '__getitem__':
            return self.getitem(st, recv, args[0], cont)
        if name == '__contains__':
            return self.contains_data(st, recv, args[0], lambda s, t: cont(s, B(t)))
        if name == 'update' and len(args) == 1 and args[0][0] == 'pdict':
            # dict.update(d): every key of d is stored at once (each of these stores needs its announcement, like a single store)
            ph, pv = args[0][1], args[0][2]
            kq = Const('kq_upd', c.Key)
            if hasattr(self.spec, 'on_data_update'): self.spec.on_data_update(self, st, e, ph, pv)
            nh = c.fresh('dh_upd', h['dhas'][e].sort()); nv = c.fresh('dv_upd', h['dval'][e].sort())
            st.pc += [ForAll([kq], nh[kq] == Or(h['dhas'][e][kq], ph[kq]), patterns=[nh[kq]]),
                      ForAll([kq], nv[kq] == If(ph[kq], pv[kq], h['dval'][e][kq]), patterns=[nv[kq]])]
            h['dhas'] = Store(h['dhas'], e, nh); h['dval'] = Store(h['dval'], e, nv)
            return cont(st, self.none())
        raise Unsupported('dict.%s on element data' % name)

    # ------------------------------------------------------------------ statements
    def block(self, st, stmts, k_next, k_ret, k_brk, k_cnt):
        if not stmts: return k_next(st)
        s0 = stmts[0]; rest = stmts[1:]
        nxt = lambda s: self.block(s, rest, k_next, k_ret, k_brk, k_cnt)
        if isinstance(s0, ast.Expr):
            if isinstance(s0.value, ast.Constant): return nxt(st)
            return self.ev(st, s0.value, lambda s, v: nxt(s))
        if isinstance(s0, (ast.Pass, ast.Import, ast.ImportFrom)):
            if isinstance(s0, ast.ImportFrom):
                for a in s0.names:
                    st.env[a.asname or a.name] = ('import', a.name)
            return nxt(st)
        if isinstance(s0, ast.Return):
            if s0.value is None: return k_ret(st, self.none())
            return self.ev(st, s0.value, lambda s, v: k_ret(s, v))
        if isinstance(s0, ast.Assert):
            return self.ev(st, s0.test, lambda s, v: self.branch(s, self.truth(s, v), nxt, lambda sF: self.exit(sF, 'AssertionError')))
        if isinstance(s0, ast.Raise):
            if s0.exc is None:
                cur = getattr(st, '_cur', None)
                kind = st.env.get('$exc', ('exc', 'Exception'))[1]
                return self.exit(st, kind)
            name = ast.unparse(s0.exc.func) if isinstance(s0.exc, ast.Call) else ast.unparse(s0.exc)
            return self.exit(st, name)
        if isinstance(s0, ast.If):
            return self.ev(st, s0.test, lambda s, v: self.branch(s, self.truth(s, v),
                                                                 lambda sT: self.block(sT, s0.body, nxt, k_ret, k_brk, k_cnt),
                                                                 lambda sF: self.block(sF, s0.orelse, nxt, k_ret, k_brk, k_cnt)))
        if isinstance(s0, ast.Assign) and len(s0.targets) == 1:
            return self.ev(st, s0.value, lambda s, v: self.assign(s, s0.targets[0], v, nxt))
        if isinstance(s0, ast.AugAssign) and isinstance(s0.target, ast.Name):
            def k(s, v):
                a = s.env[s0.target.id]
                if a[0] == 'int' and v[0] == 'int' and isinstance(s0.op, (ast.Add, ast.Sub)):
                    s.env[s0.target.id] = I(a[1] + v[1] if isinstance(s0.op, ast.Add) else a[1] - v[1]); return nxt(s)
                raise Unsupported('augmented assignment on %s' % a[0])
            return self.ev(st, s0.value, k)
        if isinstance(s0, ast.Delete) and len(s0.targets) == 1 and isinstance(s0.targets[0], ast.Subscript):
            t = s0.targets[0]
            return self.ev(st, t.value, lambda s, cv: self.ev(s, t.slice, lambda s2, i: self.delitem(s2, cv, i, nxt)))
        if isinstance(s0, ast.For):
            return self.spec.loop(self, st, s0, nxt, k_ret, k_brk, k_cnt)
        if isinstance(s0, ast.While) and hasattr(self.spec, 'while_loop') and not s0.orelse:
            return self.spec.while_loop(self, st, s0, nxt, k_ret)
        if isinstance(s0, ast.Break):
            if k_brk is None: raise Unsupported('break outside a handled loop')
            return k_brk(st)
        if isinstance(s0, ast.Continue):
            if k_cnt is None: raise Unsupported('continue outside a handled loop')
            return k_cnt(st)
        if isinstance(s0, ast.Try):
            return self.try_(st, s0, nxt, k_ret, k_brk, k_cnt)
        raise Unsupported('statement %s' % type(s0).__name__)

    def try_(self, st, node, nxt, k_ret, k_brk, k_cnt):
        if node.finalbody or node.orelse: raise Unsupported('try/finally')
        saved_env_keys = None
        base = list(st.handlers)
        frames = list(st.frames)
        def handler(s, kind, val):
            s.handlers = list(base); s.frames = list(frames)
            for h in node.handlers:
                tname = ast.unparse(h.type) if h.type is not None else 'BaseException'
                if self.spec.exc_matches(kind, tname):
                    s.env = dict(s.env); s.env['$exc'] = ('exc', kind)
                    if h.name: s.env[h.name] = ('exc', kind)
                    return self.block(s, h.body, nxt, k_ret, k_brk, k_cnt)
            return self.exit(s, kind, val)
        st.handlers = base + [handler]
        def done(k):
            def w(s, *a):
                if s.handlers and s.handlers[-1] is handler: s.handlers = s.handlers[:-1]
                return k(s, *a)
            return w
        self.block(st, node.body, done(nxt), done(k_ret), done(k_brk) if k_brk else None, done(k_cnt) if k_cnt else None)

    def assign(self, st, tgt, v, nxt):
        if isinstance(tgt, ast.Name):
            if v[0] in ('list', 'set') and (len(v) < 3 or v[2] is None):
                v = (v[0], v[1], ('local', tgt.id))
            st.env[tgt.id] = v; return nxt(st)
        if isinstance(tgt, ast.Attribute):
            return self.ev(st, tgt.value, lambda s, o: self.setattr_(s, o, tgt.attr, v, nxt))
        if isinstance(tgt, ast.Subscript):
            return self.ev(st, tgt.value, lambda s, cv: self.ev(s, tgt.slice, lambda s2, i: self.setitem(s2, cv, i, v, nxt)))
        if isinstance(tgt, ast.Tuple) and v[0] == 'tuple' and len(v[1]) == len(tgt.elts):
            def go(s, idx):
                if idx == len(tgt.elts): return nxt(s)
                self.assign(s, tgt.elts[idx], v[1][idx], lambda s2: go(s2, idx + 1))
            return go(st, 0)
        raise Unsupported('assignment target %s' % type(tgt).__name__)

    def setitem(self, st, cv, i, v, nxt):
        c = self.ctx
        if cv[0] == 'memo':
            k = self.memo_key(st, i)
            if v[0] != 'ref': raise Unsupported('memo value of kind %s' % v[0])
            st.heap['memo_k:%d' % cv[1]] = Store(st.heap['memo_k:%d' % cv[1]], k, True)
            st.heap['memo_v:%d' % cv[1]] = Store(st.heap['memo_v:%d' % cv[1]], k, v[1])
            return nxt(st)
        if cv[0] == 'hdict':
            k = self.spec.dict_key(self, st, i); d = cv[1]; h = st.heap
            val = v[1] if v[0] in ('ref', 'hdict') else self.as_ref(st, v)
            if hasattr(self.spec, 'on_dict_store'): self.spec.on_dict_store(self, st, cv, k, v)
            h['dk'] = Store(h['dk'], d, Store(h['dk'][d], k, True))
            h['dv'] = Store(h['dv'], d, Store(h['dv'][d], k, val))
            return nxt(st)
        if cv[0] == 'odict':
            if i[0] != 'ref' or v[0] != 'ref': raise Unsupported('Instance._pins[%s] = %s' % (i[0], v[0]))
            inst = cv[1]
            self.spec.on_okey(self, st, inst, i[1], True)
            st.heap['okeys'] = Store(st.heap['okeys'], inst, Store(st.heap['okeys'][inst], i[1], True))
            st.heap['ovals'] = Store(st.heap['ovals'], inst, Store(st.heap['ovals'][inst], i[1], v[1]))
            return nxt(st)
        if cv[0] == 'ref':
            # element[key] = value -> FirstClassElement.__setitem__ (real body inlined)
            return self.call_method(st, cv, '__setitem__', [i, v], {}, lambda s, _v: nxt(s))
        if cv[0] == 'data':
            return self.data_method(st, cv, '__setitem__', [i, v], lambda s, _v: nxt(s))
        raise Unsupported('subscript store on %s' % cv[0])

    def delitem(self, st, cv, i, nxt):
        if cv[0] == 'hdict':
            k = self.spec.dict_key(self, st, i); d = cv[1]
            def ok(s):
                s.heap['dk'] = Store(s.heap['dk'], d, Store(s.heap['dk'][d], k, False)); nxt(s)
            return self.branch(st, st.heap['dk'][d][k], ok, lambda s: self.exit(s, 'KeyError'))
        if cv[0] == 'odict':
            if i[0] != 'ref': return self.exit(st, 'KeyError')
            inst = cv[1]
            def ok(s):
                self.spec.on_okey(self, s, inst, i[1], False)
                s.heap['okeys'] = Store(s.heap['okeys'], inst, Store(s.heap['okeys'][inst], i[1], False)); nxt(s)
            return self.branch(st, st.heap['okeys'][inst][i[1]], ok, lambda s: self.exit(s, 'KeyError'))
        if cv[0] == 'ref':
            return self.call_method(st, cv, '__delitem__', [i], {}, lambda s, _v: nxt(s))
        if cv[0] == 'data':
            return self.data_method(st, cv, '__delitem__', [i], lambda s, _v: nxt(s))
        raise Unsupported('del on %s' % cv[0])
