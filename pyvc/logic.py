"""Logic context of pyvc: Burstall-Bornat heap (one SMT array per field), uninterpreted references,
abstract lists (multiset `cnt` + `len` + positional `at`), sets as Boolean arrays, ghost fields.

Every list/set constructor returns a FRESH constant together with its defining (quantified, pattern-carrying)
facts; the facts are appended to the path condition of the state that built the term.  Heap terms handed to
the solver are ite-free in patterns (z3 rejects ite/distinct inside quantifier patterns).
"""
import itertools
from z3 import (DeclareSort, EnumSort, Function, Const, Consts, IntSort, BoolSort, ArraySort, ForAll, Exists, And, Or,
                Not, Implies, If, Select, Store, IntVal, BoolVal, K, Solver, unsat, sat, unknown, is_true, is_false, simplify,
                StringSort, StringVal)

IR_CLASSES = ['Netlist', 'Library', 'Definition', 'Port', 'Cable', 'Wire', 'Instance', 'InnerPin', 'OuterPin']
EXTRA_CLASSES = ['Dict', 'DefaultNamespace', 'EdifNamespace', 'HRef']      # heap dictionaries and the policy objects of the namespace plugin (C10)
CLASSES = ['NoneType', 'Foreign'] + IR_CLASSES + EXTRA_CLASSES

# field name -> (owner classes, kind)   kind: ref | list | set | odict | val
FIELDS = {
    '_netlist': (['Library'], 'ref'), '_library': (['Definition'], 'ref'), '_definition': (['Port', 'Cable'], 'ref'),
    '_parent': (['Instance'], 'ref'), '_port': (['InnerPin'], 'ref'), '_cable': (['Wire'], 'ref'),
    '_wire': (['InnerPin', 'OuterPin'], 'ref'), '_reference': (['Instance'], 'ref'), '_instance': (['OuterPin'], 'ref'),
    '_inner_pin': (['OuterPin'], 'ref'), '_top_instance': (['Netlist'], 'ref'),
    '_libraries': (['Netlist'], 'list'), '_definitions': (['Library'], 'list'), '_ports': (['Definition'], 'list'),
    '_cables': (['Definition'], 'list'), '_children': (['Definition'], 'list'), '_wires': (['Cable'], 'list'),
    '_pins': (['Port', 'Wire'], 'list'),           # Instance._pins is the ordered dict below
    '_references': (['Definition'], 'set'),
    '_opins': (['Instance'], 'odict'),             # Instance._pins: keys okeys, values ovals
    '_is_downto': (['Port', 'Cable'], 'val'), '_is_scalar': (['Port', 'Cable'], 'val'), '_lower_index': (['Port', 'Cable'], 'val'),
    '_direction': (['Port'], 'val'), '_is_top_instance': (['Instance'], 'val'),
    '_data': (['Netlist', 'Library', 'Definition', 'Port', 'Cable', 'Instance'], 'data'),
}
FIRST_CLASS = ['Netlist', 'Library', 'Definition', 'Port', 'Cable', 'Instance']

_uid = itertools.count()


class Ctx:
    def __init__(self):
        u = str(next(_uid))
        self.u = u
        self.Ref = DeclareSort('Ref')
        self.Lst = DeclareSort('Lst')
        self.Key = DeclareSort('Key')           # dictionary keys of element data (strings used only as keys)
        self.Val = self.Ref                      # scalar/data values are references too (boxed)
        self.Cls, cc = EnumSort('Cls' + u, [c + '_' + u for c in CLASSES])
        self.C = dict(zip(CLASSES, cc))
        R, L = self.Ref, self.Lst
        self.null = Const('null', R)
        self.pyTrue, self.pyFalse = Const('pyTrue', R), Const('pyFalse', R)
        self.cls = Function('cls', R, self.Cls)
        self.cnt = Function('cnt', L, R, IntSort())
        self.len = Function('len', L, IntSort())
        self.at = Function('at', L, IntSort(), R)
        self.idx = Function('idx', L, R, IntSort())
        self.SetS = ArraySort(R, BoolSort())
        self.card = Function('card', self.SetS, IntSort())
        self.boxint = Function('boxint', IntSort(), R)
        self.intval = Function('intval', R, IntSort())
        self.KEY_NAME = Const('key_NAME', self.Key)
        self.KEY_NS = Const('key_NS', self.Key)
        self.KEY_EDIF = Const('key_EDIF_identifier', self.Key)
        self._fresh = itertools.count()
        l, y, i = Const('l', L), Const('y', R), Const('i', IntSort())
        self.axioms = [
            self.cls(self.null) == self.C['NoneType'],
            self.cls(self.pyTrue) == self.C['Foreign'], self.cls(self.pyFalse) == self.C['Foreign'], self.pyTrue != self.pyFalse,
            self.KEY_NAME != self.KEY_NS, self.KEY_NAME != self.KEY_EDIF, self.KEY_NS != self.KEY_EDIF,
            ForAll([l, y], self.cnt(l, y) >= 0, patterns=[self.cnt(l, y)]),
            ForAll([l], self.len(l) >= 0, patterns=[self.len(l)]),
            ForAll([i], And(self.cls(self.boxint(i)) == self.C['Foreign'], self.intval(self.boxint(i)) == i), patterns=[self.boxint(i)]),
        ]

    def enable_positions(self):
        """positional view of lists (at / idx), added only for functions whose contract talks about positions: the axioms
        feed each other's triggers, so they are kept out of every other query"""
        if getattr(self, '_positions', False): return
        self._positions = True
        l, y, i = Const('l', self.Lst), Const('y', self.Ref), Const('i', IntSort())
        self.axioms += [
            ForAll([l, i], Implies(And(0 <= i, i < self.len(l)), self.cnt(l, self.at(l, i)) >= 1), patterns=[self.at(l, i)]),
            ForAll([l, y], Implies(self.cnt(l, y) >= 1, And(0 <= self.idx(l, y), self.idx(l, y) < self.len(l), self.at(l, self.idx(l, y)) == y)),
                   patterns=[self.idx(l, y)]),
            ForAll([l, i], Implies(And(0 <= i, i < self.len(l), self.cnt(l, self.at(l, i)) == 1), self.idx(l, self.at(l, i)) == i),
                   patterns=[self.at(l, i)]),
        ]

    # ------------------------------------------------------------------ helpers
    def fresh(self, name, sort):
        return Const('%s!%d' % (name, next(self._fresh)), sort)

    def isa(self, r, *names):
        if len(names) == 1:
            return self.cls(r) == self.C[names[0]]
        return Or([self.cls(r) == self.C[n] for n in names])

    def forall(self, names, body_fn, pat_fn=None, sorts=None):
        sorts = sorts or [self.Ref] * len(names)
        vs = [Const(n, s) for n, s in zip(names, sorts)]
        body = body_fn(*vs)
        pats = pat_fn(*vs) if pat_fn else None
        if pats is not None and not isinstance(pats, (list, tuple)):
            pats = [pats]
        return ForAll(vs, body, patterns=pats) if pats else ForAll(vs, body)

    def sort_of_field(self, name):
        kind = FIELDS[name][1] if name in FIELDS else None
        R = self.Ref
        if kind == 'ref' or kind == 'val':
            return ArraySort(R, R)
        if kind == 'list':
            return ArraySort(R, self.Lst)
        if kind == 'set':
            return ArraySort(R, self.SetS)
        raise KeyError(name)

    def mk_heap(self, tag='0'):
        R = self.Ref
        h = {}
        for f, (_, kind) in FIELDS.items():
            if kind in ('ref', 'val', 'list', 'set'):
                h[f] = Const(f + tag, self.sort_of_field(f))
        h['okeys'] = Const('okeys' + tag, ArraySort(R, ArraySort(R, BoolSort())))
        h['ovals'] = Const('ovals' + tag, ArraySort(R, ArraySort(R, R)))
        h['dhas'] = Const('dhas' + tag, ArraySort(R, ArraySort(self.Key, BoolSort())))
        h['dval'] = Const('dval' + tag, ArraySort(R, ArraySort(self.Key, R)))
        h['alloc'] = Const('alloc' + tag, ArraySort(R, BoolSort()))
        # heap dictionaries (content keyed by a canonical key reference) and the two dictionary attributes of a policy object
        h['dk'] = Const('dk' + tag, ArraySort(R, ArraySort(R, BoolSort())))
        h['dv'] = Const('dv' + tag, ArraySort(R, ArraySort(R, R)))
        h['f_namespaces'] = Const('f_namespaces' + tag, ArraySort(R, R))
        h['f_edif'] = Const('f_edif_namespaces' + tag, ArraySort(R, R))
        # ghost ownership of dictionary objects (who allocated / stored it): role 1 = outer table of a policy object, 2 = inner per-type
        # table, 3 = the manager's parent -> policy-object map; owner policy object, table kind (0 names / 1 identifiers), type key
        h['g_role'] = Const('g_role' + tag, ArraySort(R, IntSort()))
        h['g_own'] = Const('g_own' + tag, ArraySort(R, R))
        h['g_kind'] = Const('g_kind' + tag, ArraySort(R, IntSort()))
        h['g_tkey'] = Const('g_tkey' + tag, ArraySort(R, R))
        h['g_par'] = Const('g_par' + tag, ArraySort(R, R))          # policy object -> the parent element it serves
        # hierarchical references (spydrnet/util/hierarchical_reference.py): immutable nodes with a parent node and an item
        h['hr_parent'] = Const('hr_parent' + tag, ArraySort(R, R)); h['hr_item'] = Const('hr_item' + tag, ArraySort(R, R))
        # abstract name tables of the stock listener, per parent (C10 composition, specs/irns.py): [parent][class][key] -> element or None
        tab = ArraySort(R, ArraySort(self.Cls, ArraySort(R, R)))
        h['nt'] = Const('nt' + tag, tab); h['ntE'] = Const('ntE' + tag, tab)
        h['nhas'] = Const('nhas' + tag, ArraySort(R, BoolSort()))
        h['ns'] = Const('ns' + tag, ArraySort(R, DeclareSort('NsState')))   # opaque per-parent state of the stock listener's name tables
        h['nsdefault'] = Const('nsdefault' + tag, R)
        return h

    # ------------------------------------------------------------------ list constructors (fresh constant + facts)
    def L_empty(self):
        t = self.fresh('nil', self.Lst)
        return t, [self.forall(['y'], lambda y: self.cnt(t, y) == 0, lambda y: self.cnt(t, y)), self.len(t) == 0]

    def L_append(self, l, x):
        t = self.fresh('app', self.Lst)
        return t, [self.forall(['y'], lambda y: self.cnt(t, y) == self.cnt(l, y) + If(y == x, 1, 0), lambda y: self.cnt(t, y)),
                   self.len(t) == self.len(l) + 1]

    def L_remove(self, l, x):
        """remove one occurrence of the element identical to x (caller resolved == to identity and proved presence)"""
        t = self.fresh('rem', self.Lst)
        return t, [self.forall(['y'], lambda y: self.cnt(t, y) == self.cnt(l, y) - If(y == x, 1, 0), lambda y: self.cnt(t, y)),
                   self.len(t) == self.len(l) - 1]

    def L_filter(self, l, keep):
        """keep: python callable Ref-term -> Bool-term"""
        t = self.fresh('flt', self.Lst)
        return t, [self.forall(['y'], lambda y: self.cnt(t, y) == If(keep(y), self.cnt(l, y), 0), lambda y: self.cnt(t, y)),
                   self.len(t) <= self.len(l)]

    def L_of_set(self, M):
        t = self.fresh('los', self.Lst)
        return t, [self.forall(['y'], lambda y: self.cnt(t, y) == If(M[y], 1, 0), lambda y: self.cnt(t, y)),
                   self.len(t) == self.card(M)]

    def L_any(self, name='lst'):
        t = self.fresh(name, self.Lst)
        return t, []
