"""Extraction: reads the real source of /repo on every run (ast), indexes classes, methods, properties.
What extraction drops is documented in DESIGN.md 3.1 (docstrings, assert/raise messages, __str__/__repr__/__lt__)."""
import ast, hashlib, os

REPO = os.environ.get('VERIF_REPO', '/repo')

IR_FILES = {
    'Element': 'spydrnet/ir/element.py', 'FirstClassElement': 'spydrnet/ir/first_class_element.py',
    'Bundle': 'spydrnet/ir/bundle.py', 'Pin': 'spydrnet/ir/pin.py', 'InnerPin': 'spydrnet/ir/innerpin.py',
    'OuterPin': 'spydrnet/ir/outerpin.py', 'Port': 'spydrnet/ir/port.py', 'Wire': 'spydrnet/ir/wire.py',
    'Cable': 'spydrnet/ir/cable.py', 'Instance': 'spydrnet/ir/instance.py', 'Definition': 'spydrnet/ir/definition.py',
    'Library': 'spydrnet/ir/library.py', 'Netlist': 'spydrnet/ir/netlist.py',
    'ListView': 'spydrnet/ir/views/listview.py', 'SetView': 'spydrnet/ir/views/setview.py',
    'DictView': 'spydrnet/ir/views/dictview.py', 'OuterPinsView': 'spydrnet/ir/views/outerpinsview.py',
}


class FnInfo:
    def __init__(self, cls, name, kind, node, file):
        self.cls, self.name, self.kind, self.node, self.file = cls, name, kind, node, file

    @property
    def qual(self):
        suffix = {'getter': '', 'setter': '=', 'deleter': ' del', 'method': '', 'static': '', 'classmethod': ''}[self.kind]
        return '%s.%s%s' % (self.cls, self.name, suffix) if self.cls else self.name + suffix

    def sha(self):
        return hashlib.sha256(ast.dump(self.node).encode()).hexdigest()[:16]


def _kind(fn):
    k = 'method'
    for d in fn.decorator_list:
        s = ast.unparse(d)
        if s == 'property':
            k = 'getter'
        elif s.endswith('.setter'):
            k = 'setter'
        elif s.endswith('.deleter'):
            k = 'deleter'
        elif s == 'staticmethod':
            k = 'static'
        elif s == 'classmethod':
            k = 'classmethod'
    return k


class ClassTable:
    def __init__(self, files=None, repo=None):
        self.repo = repo or REPO
        self.methods = {}     # (cls, name, kind) -> FnInfo
        self.bases = {}
        self.slots = {}
        self.trees = {}
        self.class_nodes = {}
        for cls, f in (files or IR_FILES).items():
            self.load(cls, f)

    def load(self, cls, relpath):
        path = os.path.join(self.repo, relpath)
        tree = self.trees.get(relpath)
        if tree is None:
            tree = ast.parse(open(path).read())
            self.trees[relpath] = tree
        for node in tree.body:
            if isinstance(node, ast.ClassDef) and node.name == cls:
                self.class_nodes[cls] = node
                self.bases[cls] = [ast.unparse(b).split('.')[-1] for b in node.bases]
                self.slots[cls] = []
                for st in node.body:
                    if isinstance(st, ast.FunctionDef):
                        self.methods[(cls, st.name, _kind(st))] = FnInfo(cls, st.name, _kind(st), st, relpath)
                    elif isinstance(st, ast.Assign) and any(isinstance(t, ast.Name) and t.id == '__slots__' for t in st.targets):
                        self.slots[cls] = [e.value for e in ast.walk(st.value) if isinstance(e, ast.Constant) and isinstance(e.value, str)]

    def load_module_functions(self, relpath, prefix=''):
        path = os.path.join(self.repo, relpath)
        tree = ast.parse(open(path).read())
        self.trees[relpath] = tree
        out = {}
        for node in tree.body:
            if isinstance(node, ast.FunctionDef):
                out[node.name] = FnInfo(None, prefix + node.name, 'static', node, relpath)
        return out

    def mro(self, cls):
        out = [cls]
        for b in self.bases.get(cls, []):
            if b in self.bases:
                for c in self.mro(b):
                    if c not in out:
                        out.append(c)
        return out

    def find(self, cls, name, kind):
        for c in self.mro(cls):
            fi = self.methods.get((c, name, kind))
            if fi is not None:
                return fi
        return None

    def find_any(self, cls, name):
        for c in self.mro(cls):
            for k in ('method', 'static', 'classmethod', 'getter'):
                fi = self.methods.get((c, name, k))
                if fi is not None:
                    return fi
        return None

    def all_slots(self, cls):
        out = []
        for c in self.mro(cls):
            out += self.slots.get(c, [])
        return out
