"""Driver: symbolic execution of one function under contract + discharge of its obligations."""
import os as _os, sys as _sys
_sys.path.insert(0, _os.path.dirname(_os.path.dirname(_os.path.abspath(__file__))))
import itertools, time, traceback, sys, os
from z3 import (And, Or, Not, Implies, Const, ForAll, Solver, SimpleSolver, Store, BoolVal, unsat, sat, unknown, K, BoolSort, IntSort, set_param)
from pyvc.logic import Ctx, IR_CLASSES, FIRST_CLASS
from pyvc.classes import ClassTable
from pyvc.se import SE, St, Unsupported, R, B, I


def _cli(cmd, text, timeout_s):
    import subprocess, tempfile
    with tempfile.NamedTemporaryFile('w', suffix='.smt2', delete=True) as f:
        f.write(text); f.flush()
        try:
            p = subprocess.run(cmd + [f.name], capture_output=True, text=True, timeout=timeout_s + 5)
            out = (p.stdout or '').strip().split('\n')[0].strip()
            return out if out in ('sat', 'unsat', 'unknown') else 'unknown(%s)' % (p.stdout + p.stderr)[:80].replace('\n', ' ')
        except subprocess.TimeoutExpired:
            return 'timeout'


def discharge(ctx, hyps, goal, timeout_ms=20000, stages='all'):
    """stage 1: z3 (Python API) with E-matching only -- fast, and fast to give up;
    stage 2: the same query as SMT-LIB text to cvc5, then to /usr/bin/z3 (4.8.12), then z3's default strategy (MBQI).
    An obligation counts as discharged when any back end answers unsat.  Returns (status, seconds, detail, backend)."""
    s = SimpleSolver(); s.set('timeout', timeout_ms); s.set('mbqi', False)
    s.add(ctx.axioms); s.add(hyps); s.add(Not(goal))
    t = time.time(); r = s.check()
    if r == unsat: return 'discharged', time.time() - t, '', 'z3-ematching'
    reason1 = s.reason_unknown() if r == unknown else 'sat'
    if stages == 'first':
        return 'failed', time.time() - t, 'z3-ematching: ' + reason1, ''
    if stages == 'cheap':
        r2 = _cli(['/usr/bin/cvc5', '--tlimit=8000'], '(set-logic ALL)\n' + s.to_smt2(), 8)
        if r2 == 'unsat': return 'discharged', time.time() - t, '', 'cvc5'
        return 'failed', time.time() - t, 'z3-ematching: %s; cvc5(8s): %s' % (reason1, r2), ''
    text = '(set-logic ALL)\n' + s.to_smt2()
    tl = max(timeout_ms // 2000, 10)
    r2 = _cli(['/usr/bin/cvc5', '--tlimit=%d' % (tl * 1000)], text, tl)
    if r2 == 'unsat': return 'discharged', time.time() - t, '', 'cvc5'
    r3 = _cli(['/usr/bin/z3', '-T:%d' % tl], text, tl)
    if r3 == 'unsat': return 'discharged', time.time() - t, '', 'z3-4.8-cli'
    s4 = Solver(); s4.set('timeout', tl * 1000)
    s4.add(ctx.axioms); s4.add(hyps); s4.add(Not(goal))
    r4 = s4.check()
    if r4 == unsat: return 'discharged', time.time() - t, '', 'z3-mbqi'
    reason4 = s4.reason_unknown() if r4 == unknown else 'sat'
    detail = 'z3-ematching: %s; cvc5: %s; z3-4.8: %s; z3-mbqi: %s' % (reason1, r2, r3, reason4)
    timed_out = lambda why: any(w in why for w in ('timeout', 'canceled', 'max', 'resource'))
    if timed_out(reason1) and r2 in ('timeout',) and r3 in ('timeout',):
        return 'undecided', time.time() - t, detail, ''
    return 'failed', time.time() - t, detail, ''


def param_alternatives(ctx, h0, name, kind):
    """list of (value, [assumptions]) for one parameter"""
    c = ctx
    if kind == 'any':
        v = Const(name, c.Ref); return [(R(v), [h0['alloc'][v]])]
    if kind.startswith('is:'):
        v = Const(name, c.Ref); return [(R(v), [h0['alloc'][v], c.isa(v, *kind[3:].split('|'))])]
    if kind.startswith('any!'):
        v = Const(name, c.Ref); return [(R(v), [h0['alloc'][v], Not(c.isa(v, kind[4:]))])]
    if kind == 'none':
        return [(R(c.null), [])]
    if kind == 'int':
        return [(I(Const(name, IntSort())), [])]
    if kind == 'optint':
        return [(R(c.null), []), (I(Const(name, IntSort())), [])]
    if kind == 'bool':
        v = Const(name, BoolSort()); return [(B(v), [])]
    if kind == 'key':
        return [(('key', Const(name, c.Key)), [Const(name, c.Key) != c.KEY_NS])]
    if kind == 'list':
        L = Const(name + '_list', c.Lst); y = Const('yq_pl', c.Ref)
        return [(('list', L, None), [ForAll([y], Implies(c.cnt(L, y) > 0, h0['alloc'][y]), patterns=[c.cnt(L, y)]), c.len(L) >= 0])]
    if kind == 'optkey':
        return [(R(c.null), [])] + param_alternatives(ctx, h0, name, 'key')
    if kind.startswith('optis:'):
        return [(R(c.null), [])] + param_alternatives(ctx, h0, name, kind[3:])
    if kind == 'optpdict':
        # None, or a dict with str keys (any number of entries): key set and values as arrays over the key sort; '.NS' not among the keys
        from z3 import ArraySort
        ph = Const(name + '_has', ArraySort(c.Key, BoolSort())); pv = Const(name + '_val', ArraySort(c.Key, c.Ref))
        kq = Const('kq_pd', c.Key)
        return [(R(c.null), []), (('pdict', ph, pv), [Not(ph[c.KEY_NS]), ForAll([kq], Implies(ph[kq], h0['alloc'][pv[kq]]), patterns=[pv[kq]])])]
    if kind == 'str':
        return [(('str', '?'), [])]
    if kind == 'iter':
        M = Const(name + '_set', c.SetS); L = Const(name + '_list', c.Lst); v = Const(name + '_obj', c.Ref)
        y = Const('yq_pa', c.Ref)
        return [(('set', M, None), [ForAll([y], Implies(M[y], h0['alloc'][y]), patterns=[M[y]]), c.card(M) >= 0]),
                (('list', L, None), [ForAll([y], Implies(c.cnt(L, y) > 0, h0['alloc'][y]), patterns=[c.cnt(L, y)])]),
                (R(v), [h0['alloc'][v]])]
    raise KeyError(kind)


SUITES = {
    'ir': {'module': 'specs.ir', 'spec_class': 'IRSpec', 'functions': 'specs.ir_functions', 'files': {}, 'obligations': 'all'},
    'ns': {'module': 'specs.ns', 'spec_class': 'NSSpec', 'functions': 'specs.ns',
           'files': {'DefaultNamespace': 'spydrnet/plugins/namespace_manager/default_namespace.py',
                     'EdifNamespace': 'spydrnet/plugins/namespace_manager/edif_namespace.py'}, 'obligations': 'posts'},
    'clone': {'module': 'specs.clone', 'spec_class': 'CloneSpec', 'functions': 'specs.clone', 'files': {}, 'obligations': 'posts'},
    'edifnames': {'module': 'specs.edifnames', 'spec_class': 'EdifNamesSpec', 'functions': 'specs.edifnames', 'files': {}, 'obligations': 'posts'},
    'irns': {'module': 'specs.irns', 'spec_class': 'IRNSSpec', 'functions': 'specs.irns', 'files': {}, 'obligations': 'posts'},
    'vcomposer': {'module': 'specs.vcomposer', 'spec_class': 'VComposerSpec', 'functions': 'specs.vcomposer', 'files': {}, 'obligations': 'posts'},
    'ecomposer': {'module': 'specs.ecomposer', 'spec_class': 'EComposerSpec', 'functions': 'specs.ecomposer', 'files': {}, 'obligations': 'posts'},
    'vparser': {'module': 'specs.vparser', 'spec_class': 'VParserSpec', 'functions': 'specs.vparser', 'files': {}, 'obligations': 'posts'},
    'uniq': {'module': 'specs.uniq', 'spec_class': 'UniqSpec', 'functions': 'specs.uniq', 'files': {}, 'obligations': 'posts'},
    'flat': {'module': 'specs.flat', 'spec_class': 'FlatSpec', 'functions': 'specs.flat', 'files': {}, 'obligations': 'posts'},
    'hwires': {'module': 'specs.hwires', 'spec_class': 'HWiresSpec', 'functions': 'specs.hwires', 'files': {}, 'obligations': 'posts'},
    'href': {'module': 'specs.href', 'spec_class': 'HRefSpec', 'functions': 'specs.href', 'files': {}, 'obligations': 'posts'},
    'compare': {'module': 'specs.compare', 'spec_class': 'CompareSpec', 'functions': 'specs.compare',
                'files': {'Comparer': 'spydrnet/compare/compare_netlists.py'}, 'obligations': 'posts'},
}


def run_function(repo, cls, name, kind, params, spec_module='specs.ir', opts=None, suite='ir'):
    """Returns dict(function, sha, results=[{name,status,time_s,detail}], paths, exits, error/degraded)"""
    import importlib
    opts = opts or {}
    SU = SUITES[suite]
    t_start = time.time()
    ctx = Ctx()
    ct = ClassTable(repo=repo)
    irm = importlib.import_module('specs.ir')
    importlib.import_module('specs.ir_loops')
    sm = importlib.import_module(SU['module'])
    for c_, f_ in dict(SU['files'], **getattr(sm, 'FILES', {})).items(): ct.load(c_, f_)
    for pseudo, relpath in getattr(sm, 'MODULE_FUNCTIONS', {}).items():
        # module-level functions are registered as static methods of a pseudo-class named after the module (the bodies are the real AST)
        from pyvc.classes import FnInfo
        for fname_, fi_ in ct.load_module_functions(relpath).items():
            ct.methods[(pseudo, fname_, 'static')] = FnInfo(pseudo, fname_, 'static', fi_.node, relpath)
        ct.bases.setdefault(pseudo, [])
    fm = importlib.import_module(SU['functions'])
    spec = getattr(sm, SU['spec_class'])(ctx, ct)
    if (cls, name, kind) in getattr(fm, 'POSITIONAL', set()): ctx.enable_positions()
    POSTS_ = getattr(sm, 'POSTS', {})
    sm_posts = sm
    sm = irm
    fi = ct.find(cls, name, kind)
    if fi is None:
        return {'function': '%s.%s' % (cls, name), 'missing': True, 'results': [], 'degraded': 'function not found in source'}
    out = {'function': fi.qual, 'sha': fi.sha(), 'file': fi.file, 'results': [], 'paths': 0, 'exits': {}, 'degraded': None}
    h0 = ctx.mk_heap('0')
    g0 = sm.mk_ghost(ctx, '0')
    for k_, v_ in g0.items():
        if k_.startswith('t:'):
            h0[k_] = K(ctx.Ref, K(ctx.Key, False)) if k_ == 't:data' else K(ctx.Ref, False)
        else:
            h0[k_] = v_
    spec.h0 = h0
    spec._ctor_run = cls if name == '__init__' else None
    inv0 = spec.inv.clauses(h0, hyp=True)
    self_ = Const('self', ctx.Ref)
    is_ir_self = cls in ctx.C
    base_pc = [g for _, _, g in inv0] + ([h0['alloc'][self_], ctx.cls(self_) == ctx.C[cls]] if is_ir_self else [])
    if hasattr(sm_posts, 'extra_pre'): base_pc += sm_posts.extra_pre(ctx, spec, h0)
    alts = [param_alternatives(ctx, h0, p, k) for p, k in params]
    agg = {}      # obligation name -> [status, time, detail]
    budget = {'expensive_failures': 0}
    MAX_EXPENSIVE_FAILURES = opts.get('max_expensive_failures', 4)
    def full_discharge(hyps, goal):
        """full pipeline, but once several obligations of this function have failed after the full pipeline the remaining
        failures are reported from the first stage only (a broken function fails many obligations; retrying each one on
        every back end adds minutes and no information)"""
        if budget['expensive_failures'] >= MAX_EXPENSIVE_FAILURES:
            r = discharge(ctx, hyps, goal, opts.get('timeout_ms', 20000), stages='cheap')
            return r
        r = discharge(ctx, hyps, goal, opts.get('timeout_ms', 20000))
        if r[0] != 'discharged': budget['expensive_failures'] += 1
        return r
    def record(name, status, dt, detail='', backend=''):
        rank = {'discharged': 0, 'undecided': 1, 'failed': 2}
        cur = agg.get(name)
        if cur is None or rank[status] > rank[cur[0]]:
            agg[name] = [status, (cur[1] if cur else 0) + dt, detail, backend if not cur or (backend and backend != 'z3-ematching') else cur[3]]
        else:
            cur[1] += dt
            if backend and backend != 'z3-ematching': cur[3] = backend
    nsat = 0
    try:
        for combo in itertools.product(*alts) if alts else [()]:
            se = SE(ctx, ct, spec, sat_timeout=opts.get('sat_timeout', 500))
            st = St(h0, base_pc)
            if name == '__init__':
                # a constructor runs on a freshly allocated object that nothing refers to yet
                st.pc = [g for _, _, g in inv0] + [Not(h0['alloc'][self_]), ctx.cls(self_) == ctx.C[cls], self_ != ctx.null]
                if hasattr(sm_posts, 'extra_pre'): st.pc += sm_posts.extra_pre(ctx, spec, h0)
                st.heap['alloc'] = Store(h0['alloc'], self_, True)
                st.fresh.append(self_)
            args = [] if kind == 'static' else [R(self_) if is_ir_self else ('obj', cls)]
            for v, assumptions in combo:
                args.append(v); st.pc += assumptions
            if hasattr(sm_posts, 'arg_pre'): st.pc += sm_posts.arg_pre(ctx, spec, h0, fi.qual, args)
            if not se.sat(st):
                record('VACUITY/%s/precondition-satisfiable' % fi.qual, 'failed', 0, 'Inv and parameter assumptions are contradictory')
                continue
            se.call_fn(st, fi, args, lambda s, v: se.exit(s, 'normal', v))
            nsat += se.nsat
            out['paths'] += len(se.outcomes)
            # mid-path obligations (loop init/preservation, cover-before-write, ...)
            for oname, hyps, goal, shaky in se.obligations:
                stt, dt, why, be = discharge(ctx, hyps, goal, opts.get('timeout_ms', 20000), stages='cheap')
                if stt != 'discharged':
                    stt, dt, why, be = full_discharge(hyps, goal)
                if stt != 'discharged' and shaky:
                    fst, fdt, fwhy, fbe = discharge(ctx, hyps, BoolVal(False), opts.get('timeout_ms', 20000), stages='cheap')
                    if fst == 'discharged': stt, why, be = 'discharged', 'path infeasible', fbe
                    elif stt == 'failed': stt = 'undecided'; why = 'path feasibility undecided; ' + why
                record(oname, stt, dt, why, be)
            for s, ekind, val in se.outcomes:
                out['exits'][ekind] = out['exits'].get(ekind, 0) + 1
                goals = []
                if SU['obligations'] == 'all':
                    for prop, cname, g in spec.inv.clauses(s.heap):
                        goals.append(('%s/%s/exit=%s/%s' % (prop, fi.qual, ekind, cname), g))
                    if ekind not in ('normal', 'ListenerVeto'):
                        for cname, g in spec.inv.frame(h0, s.heap):
                            goals.append(('C14/%s/exit=%s/%s' % (fi.qual, ekind, cname), g))
                    if ekind in sm.WELL_TYPED_EXITS:
                        for cname, g in spec.in_vain(s.heap):
                            goals.append(('C19/%s/exit=%s/%s' % (fi.qual, ekind, cname), g))
                elif ekind == 'normal':
                    goals.append(('REACH/%s/exit=normal/reachable' % fi.qual, BoolVal(True)))
                post = POSTS_.get(fi.qual)
                if post is not None:
                    for prop, cname, g in post(ctx, spec, h0, s, ekind, args, val):
                        goals.append(('%s/%s/exit=%s/%s' % (prop, fi.qual, ekind, cname), g))
                pending = []
                for oname, g in goals:
                    stt, dt, why, be = discharge(ctx, s.pc, g, opts.get('timeout_ms', 20000), stages='first')
                    if stt == 'discharged': record(oname, stt, dt, why, be)
                    else: pending.append((oname, g))
                # an obligation that already failed (after the full pipeline, on a feasible path) stays failed: further paths add nothing
                pending = [(o_, g_) for o_, g_ in pending if not (agg.get(o_) and agg[o_][0] == 'failed')]
                if pending:
                    still = []
                    for oname, g in pending:
                        stt, dt, why, be = discharge(ctx, s.pc, g, opts.get('timeout_ms', 20000), stages='cheap')
                        if stt == 'discharged': record(oname, stt, dt, why, be)
                        else: still.append((oname, g))
                    if still:
                        # before anything is reported: is this path feasible at all?  (feasibility checks during execution are
                        # cheap and may have let an infeasible path through)
                        fst, fdt, fwhy, fbe = full_discharge(s.pc, BoolVal(False)) if budget['expensive_failures'] < MAX_EXPENSIVE_FAILURES \
                            else discharge(ctx, s.pc, BoolVal(False), opts.get('timeout_ms', 20000), stages='cheap')
                        if fst != 'discharged': budget['expensive_failures'] = max(0, budget['expensive_failures'] - 1)   # a feasible path is not a failure
                        for oname, g in still:
                            if fst == 'discharged':
                                record(oname, 'discharged', fdt, 'path infeasible', fbe); fdt = 0
                                continue
                            stt, dt, why, be = full_discharge(s.pc, g)
                            if stt == 'failed' and s.shaky: stt = 'undecided'; why = 'path feasibility undecided; ' + why
                            record(oname, stt, dt, why, be)
        if not agg:
            record('VACUITY/%s/no-obligations' % fi.qual, 'failed', 0, 'zero obligations generated')
    except Unsupported as e:
        out['degraded'] = 'left-subset: %s' % e
    except RecursionError:
        out['degraded'] = 'left-subset: recursion depth'
    except Exception as e:
        out['error'] = traceback.format_exc()[-1500:]
    out['results'] = [{'name': n, 'status': v[0], 'time_s': round(v[1], 4), 'detail': v[2], 'backend': v[3]} for n, v in sorted(agg.items())]
    out['wall_s'] = round(time.time() - t_start, 2)
    out['sat_checks'] = nsat
    return out


def run_lemmas(suite, timeout_ms=20000, only=None):
    """lemmas over contracts (module-level `lemmas(ctx, spec)` of the suite's spec module): pure logic, discharged like any obligation;
    the hypotheses of every lemma are also checked for satisfiability-in-the-weak-sense (must not be refutable by the cheap stage)"""
    import importlib
    SU = SUITES[suite]
    ctx = Ctx(); ct = ClassTable(repo=os.environ.get('VERIF_REPO', '/repo'))
    sm = importlib.import_module(SU['module'])
    spec = getattr(sm, SU['spec_class'])(ctx, ct)
    out = []
    vac_done = set()
    for name, hyps, goal in sm.lemmas(ctx, spec):
        if only and only not in name: continue
        st, dt, why, be = discharge(ctx, hyps, goal, timeout_ms, stages='cheap')
        if st != 'discharged': st, dt2, why, be = discharge(ctx, hyps, goal, timeout_ms); dt += dt2
        out.append({'name': name, 'status': st, 'time_s': round(dt, 3), 'detail': why, 'backend': be})
        fam = name.rsplit('/', 1)[0]
        if fam not in vac_done:
            vac_done.add(fam)
            vst, vdt, vwhy, vbe = discharge(ctx, hyps, BoolVal(False), 5000, stages='first')
            out.append({'name': 'VACUITY/%s/hypotheses-not-refutable' % fam, 'status': 'failed' if vst == 'discharged' else 'discharged',
                        'time_s': round(vdt, 3), 'detail': 'hypotheses are contradictory' if vst == 'discharged' else '', 'backend': 'z3-ematching'})
    return out


def _worker(job):
    sys.setrecursionlimit(20000)
    repo, cls, name, kind, params, opts = job
    try:
        return run_function(repo, cls, name, kind, params, opts=opts, suite=(opts or {}).get('suite', 'ir'))
    except Exception:
        return {'function': '%s.%s' % (cls, name), 'results': [], 'error': traceback.format_exc()[-1500:]}


def run_all(repo, functions, opts=None, workers=16, per_function_timeout=300, progress=None):
    """one subprocess per function (a stuck solver or executor cannot hold up the others); results as JSON"""
    import subprocess, json, concurrent.futures as cf
    here = os.path.dirname(os.path.abspath(__file__))
    def one(f):
        c, n, k, p = f
        env = dict(os.environ); env['VERIF_REPO'] = repo
        t0 = time.time()
        try:
            pr = subprocess.run([sys.executable, '-B', os.path.join(here, 'verify.py'), '--json', c, n, k, json.dumps(opts or {})],
                                capture_output=True, text=True, timeout=per_function_timeout, env=env)
            out = pr.stdout.split('@@JSON@@')[-1]
            r = json.loads(out)
        except subprocess.TimeoutExpired:
            fq = '%s.%s%s' % (c, n, {'setter': '=', 'deleter': ' del'}.get(k, ''))
            r = {'function': fq, 'results': [], 'timeout': True, 'wall_s': round(time.time() - t0, 1),
                 'error': 'verification of this function exceeded %ds' % per_function_timeout}
        except Exception as e:
            r = {'function': '%s.%s' % (c, n), 'results': [], 'error': 'worker failed: %s %s' % (e, (pr.stderr if 'pr' in dir() else '')[-800:])}
        if progress: progress(r)
        return r
    with cf.ThreadPoolExecutor(workers) as ex:
        return list(ex.map(one, functions))


def _print(r):
    bad = [x for x in r['results'] if x['status'] != 'discharged']
    print('%-36s paths=%-3s exits=%s obligations=%d undischarged=%d wall=%ss %s%s' % (
        r['function'], r.get('paths'), r.get('exits'), len(r['results']), len(bad), r.get('wall_s'),
        ('DEGRADED ' + r['degraded']) if r.get('degraded') else '', ('ERROR ' + r['error']) if r.get('error') else ''), flush=True)
    for x in bad[:12]: print('     ', x['status'], x['name'], x['detail'][:100], flush=True)


if __name__ == '__main__':
    import json
    sys.setrecursionlimit(20000)
    from specs.ir_functions import FUNCTIONS
    if len(sys.argv) > 1 and sys.argv[1] == '--json':
        c, n, k = sys.argv[2:5]
        opts = json.loads(sys.argv[5]) if len(sys.argv) > 5 else {}
        import importlib
        FUNCTIONS = importlib.import_module(SUITES[opts.get('suite', 'ir')]['functions']).FUNCTIONS
        params = [f for f in FUNCTIONS if f[0] == c and f[1] == n and f[2] == k][0][3]
        r = _worker((os.environ.get('VERIF_REPO', '/repo'), c, n, k, params, opts))
        sys.stdout.write('@@JSON@@' + json.dumps(r))
        sys.exit(0)
    if len(sys.argv) > 2 and sys.argv[1] == '--lemmas':
        res = run_lemmas(sys.argv[2], only=sys.argv[3] if len(sys.argv) > 3 and not sys.argv[3].startswith('--') else None)
        if '--json' in sys.argv:
            sys.stdout.write('@@JSON@@' + json.dumps(res)); sys.exit(0)
        for r in res: print(r['status'], r['name'], r['time_s'], r['backend'], (r['detail'] or '')[:150])
        sys.exit(0)
    sel = sys.argv[1:]
    suite = 'ir'
    if sel and sel[0].startswith('--suite='):
        suite = sel[0].split('=')[1]; sel = sel[1:]
        import importlib
        FUNCTIONS = importlib.import_module(SUITES[suite]['functions']).FUNCTIONS
    fns = [f for f in FUNCTIONS if not sel or ('%s.%s' % (f[0], f[1])) in sel or f[0] in sel]
    run_all(os.environ.get('VERIF_REPO', '/repo'), fns, opts={'suite': suite}, progress=_print, per_function_timeout=int(os.environ.get('PYVC_FN_TIMEOUT', '300')))
