"""String VC generator (C17): symbolic execution of the real AST of pure string/int functions, strings encoded as
code-point arrays (len : Int, chr : Array Int Int) -- z3's and cvc5's string theories time out on the substring/charset
obligations these functions need, the array encoding discharges them in milliseconds (DESIGN.md 3.3).

Python semantics assumed by the encoding (listed in evidence): characters are ASCII 32..126 (the property's quantifier),
integers are mathematical, str.isalpha/isalnum/isdigit/lower are the ASCII predicates/maps, slices follow CPython's clamping
rules, `re` is used only through the one pattern `_sdn_[0-9]+_$` whose match is characterised positionally, int()/str() are
uninterpreted up to "str(n) for n >= 0 is a non-empty digit string"."""
import ast, itertools, time
from z3 import (Int, IntSort, BoolSort, ArraySort, Array, Const, ForAll, Exists, And, Or, Not, Implies, If, IntVal, BoolVal, Store, K,
                SimpleSolver, Solver, unsat, sat, unknown, Function, is_true, is_false)

_n = itertools.count()
CHR = ArraySort(IntSort(), IntSort())


class Unsupported(Exception):
    pass


class Str:
    def __init__(self, n, a, facts=()):
        self.n, self.a, self.facts = n, a, list(facts)
        self.base = None       # (string, offset) for a slice: self[k] == string[offset + k] for 0 <= k < len(self)


def fresh_str(name):
    i = next(_n)
    return Str(Int('%s_n%d' % (name, i)), Array('%s_a%d' % (name, i), IntSort(), IntSort()))


def const_str(text):
    s = fresh_str('lit')
    s.facts = [s.n == len(text)] + [s.a[i] == ord(ch) for i, ch in enumerate(text)]
    return s


# ASCII character predicates
def c_upper(c): return And(c >= 65, c <= 90)
def c_lowerp(c): return And(c >= 97, c <= 122)
def c_alpha(c): return Or(c_upper(c), c_lowerp(c))
def c_digit(c): return And(c >= 48, c <= 57)
def c_alnum(c): return Or(c_alpha(c), c_digit(c))
def c_lower(c): return If(c_upper(c), c + 32, c)
def c_print(c): return And(c >= 32, c <= 126)
def c_ok(c): return Or(c_alnum(c), c == 95)


# int(<string>) as an uninterpreted function of (length, characters); extensionality is stated where it is needed
INTVAL = Function('intval_of_numeral', IntSort(), CHR, IntSort())


def concat(x, y):
    r = fresh_str('cat'); k = Int('k_cat%d' % next(_n))
    r.facts = [r.n == x.n + y.n,
               ForAll([k], Implies(And(0 <= k, k < x.n), r.a[k] == x.a[k]), patterns=[r.a[k]]),
               ForAll([k], Implies(And(x.n <= k, k < r.n), r.a[k] == y.a[k - x.n]), patterns=[r.a[k]])]
    return r


def clamp_index(i, n):
    j = If(i < 0, i + n, i)
    return If(j < 0, 0, If(j > n, n, j))


def slice_(x, lo, hi):
    """x[lo:hi] with CPython clamping; lo/hi are Int terms or None"""
    r = fresh_str('slc'); k = Int('k_slc%d' % next(_n))
    lo_ = IntVal(0) if lo is None else clamp_index(lo, x.n)
    hi_ = x.n if hi is None else clamp_index(hi, x.n)
    L = Int('lo%d' % next(_n)); H = Int('hi%d' % next(_n))
    r.facts = [L == lo_, H == hi_, r.n == If(H - L > 0, H - L, 0),
               ForAll([k], Implies(And(0 <= k, k < r.n), r.a[k] == x.a[L + k]), patterns=[r.a[k]])]
    bx, boff = x.base if x.base is not None else (x, IntVal(0))
    r.base = (bx, boff + L)
    return r


def lower(x):
    r = fresh_str('low'); k = Int('k_low%d' % next(_n))
    r.facts = [r.n == x.n, ForAll([k], Implies(And(0 <= k, k < x.n), r.a[k] == c_lower(x.a[k])), patterns=[r.a[k]])]
    return r


def _first_in(x, ch, lo, hi, tag):
    """first position of character ch in x[lo:hi] (lo <= hi assumed by the caller's guard), or -1"""
    r = Int('%s%d' % (tag, next(_n))); j = Int('k_%s%d' % (tag, next(_n)))
    return r, Or(And(lo <= r, r < hi, x.a[r] == ch, ForAll([j], Implies(And(lo <= j, j < r), x.a[j] != ch), patterns=[x.a[j]])),
                 And(r == -1, ForAll([j], Implies(And(lo <= j, j < hi), x.a[j] != ch), patterns=[x.a[j]])))


def _last_in(x, ch, lo, hi, tag):
    r = Int('%s%d' % (tag, next(_n))); j = Int('k_%s%d' % (tag, next(_n)))
    return r, Or(And(lo <= r, r < hi, x.a[r] == ch, ForAll([j], Implies(And(r < j, j < hi), x.a[j] != ch), patterns=[x.a[j]])),
                 And(r == -1, ForAll([j], Implies(And(lo <= j, j < hi), x.a[j] != ch), patterns=[x.a[j]])))


class Split:
    """s.split(<one character>): the list of pieces is not built; it is described by the positions of the first two and the last two
    occurrences of the separator (p1 < p2, q2 < q1; -1 = no such occurrence) and by its length L = occurrences + 1, of which only
    L == 1 / L == 2 / L >= 3 is characterised -- enough for len() comparisons against 1 and 2 and for the pieces [0], [1], [-2], [-1]"""
    def __init__(self, x, ch):
        self.x, self.ch = x, ch
        self.p1, f1 = _first_in(x, ch, IntVal(0), x.n, 'sp_p1')
        self.q1, f2 = _last_in(x, ch, IntVal(0), x.n, 'sp_q1')
        self.p2, f3 = _first_in(x, ch, self.p1 + 1, x.n, 'sp_p2')
        self.q2, f4 = _last_in(x, ch, IntVal(0), self.q1, 'sp_q2')
        self.L = Int('sp_len%d' % next(_n))
        self.facts = [x.n >= 0, f1, f2, Implies(self.p1 >= 0, f3), Implies(self.p1 < 0, self.p2 == -1), Implies(self.q1 >= 0, f4), Implies(self.q1 < 0, self.q2 == -1),
                      self.L >= 1, (self.L == 1) == (self.p1 == -1), (self.L == 2) == And(self.p1 >= 0, self.p1 == self.q1)]

    def piece(self, idx):
        """(in-range condition, lo, hi) of piece idx in (0, 1, -1, -2)"""
        x = self.x
        if idx == 0: return BoolVal(True), IntVal(0), If(self.p1 >= 0, self.p1, x.n)
        if idx == 1: return self.L >= 2, self.p1 + 1, If(self.p2 >= 0, self.p2, x.n)
        if idx == -1: return BoolVal(True), self.q1 + 1, x.n
        if idx == -2: return self.L >= 2, self.q2 + 1, self.q1
        raise Unsupported('piece %d of a split' % idx)


class St:
    def __init__(self, pc=None, env=None, stack=None):
        self.pc = list(pc or []); self.env = dict(env or {}); self.stack = list(stack or [])
    def fork(self):
        return St(self.pc, self.env, self.stack)


class StrSE:
    """values: ('str', Str) ('int', t) ('bool', t) ('chr', t) ('none',) ('match', ok, start, end) ('pattern', text) ('opaque', tag)"""
    def __init__(self, cls_node, consts, contracts, loops, timeout=3000):
        self.cls, self.consts, self.contracts, self.loops = cls_node, consts, contracts, loops
        self.methods = {f.name: f for f in cls_node.body if isinstance(f, ast.FunctionDef)}
        self.outcomes = []; self.obligations = []; self.timeout = timeout
        self.stack = []
        self.brk = []          # continuations of `break`, innermost loop last

    def sat(self, st):
        s = SimpleSolver(); s.set('timeout', self.timeout); s.set('mbqi', False); s.add(st.pc)
        return s.check() != unsat

    def branch(self, st, cond, kt, kf):
        if is_true(cond): return kt(st)
        if is_false(cond): return kf(st)
        a = st.fork(); a.pc.append(cond); b = st.fork(); b.pc.append(Not(cond))
        if self.sat(a):
            kt(a)
            if self.sat(b): kf(b)
        else:
            kf(b)

    def exit(self, st, kind, val=None):
        self.outcomes.append((st, kind, val))

    def truth(self, v):
        if v[0] == 'bool': return v[1]
        if v[0] == 'none': return BoolVal(False)
        if v[0] == 'match': return v[1]
        if v[0] == 'int': return v[1] != 0
        if v[0] == 'str': return v[1].n > 0
        raise Unsupported('truth of ' + v[0])

    def add_str(self, st, s):
        st.pc += s.facts; s.facts = []
        return ('str', s)

    # ------------------------------------------------------------ expressions
    def ev(self, st, e, k):
        if isinstance(e, ast.Constant):
            v = e.value
            if v is None: return k(st, ('none',))
            if isinstance(v, bool): return k(st, ('bool', BoolVal(v)))
            if isinstance(v, int): return k(st, ('int', IntVal(v)))
            if isinstance(v, str): return k(st, self.add_str(st, const_str(v)))
        if isinstance(e, ast.Name):
            if e.id in st.env: return k(st, st.env[e.id])
            raise Unsupported('name ' + e.id)
        if isinstance(e, ast.Attribute):
            if isinstance(e.value, ast.Name) and e.value.id == 'self':
                if e.attr in self.consts: return k(st, ('int', IntVal(self.consts[e.attr])))
                raise Unsupported('self.' + e.attr)
            return self.ev(st, e.value, lambda s, v: self.attr(s, v, e.attr, k))
        if isinstance(e, ast.Tuple):
            return self.evs(st, e.elts, lambda s, vs: k(s, ('tuple', vs)))
        if isinstance(e, ast.UnaryOp) and isinstance(e.op, ast.USub) and isinstance(e.operand, ast.Constant) and isinstance(e.operand.value, int):
            return k(st, ('int', IntVal(-e.operand.value)))
        if isinstance(e, ast.UnaryOp) and isinstance(e.op, ast.Not):
            return self.ev(st, e.operand, lambda s, v: k(s, ('bool', Not(self.truth(v)))))
        if isinstance(e, ast.BoolOp):
            def go(s, i):
                def kk(s2, v):
                    if i == len(e.values) - 1: return k(s2, ('bool', self.truth(v)))
                    t = self.truth(v)
                    if isinstance(e.op, ast.And):
                        self.branch(s2, t, lambda a: go(a, i + 1), lambda b: k(b, ('bool', BoolVal(False))))
                    else:
                        self.branch(s2, t, lambda a: k(a, ('bool', BoolVal(True))), lambda b: go(b, i + 1))
                self.ev(s, e.values[i], kk)
            return go(st, 0)
        if isinstance(e, ast.Compare) and len(e.ops) == 1:
            return self.ev(st, e.left, lambda s, a: self.ev(s, e.comparators[0], lambda s2, b: self.compare(s2, e.ops[0], a, b, k)))
        if isinstance(e, ast.BinOp) and isinstance(e.op, (ast.Add, ast.Sub)):
            def kk(s, a):
                def k2(s2, b):
                    if a[0] == 'int' and b[0] == 'int':
                        return k(s2, ('int', a[1] + b[1] if isinstance(e.op, ast.Add) else a[1] - b[1]))
                    if isinstance(e.op, ast.Add) and a[0] in ('str', 'chr') and b[0] in ('str', 'chr'):
                        return k(s2, self.add_str(s2, concat(self.as_str(s2, a), self.as_str(s2, b))))
                    raise Unsupported('binop %s %s' % (a[0], b[0]))
                self.ev(s, e.right, k2)
            return self.ev(st, e.left, kk)
        if isinstance(e, ast.Subscript):
            if isinstance(e.slice, ast.Slice):
                sl = e.slice
                def kk(s, v):
                    if v[0] != 'str': raise Unsupported('slice of ' + v[0])
                    def with_lo(s2, lo):
                        def with_hi(s3, hi):
                            k(s3, self.add_str(s3, slice_(v[1], None if lo is None else lo[1], None if hi is None else hi[1])))
                        if sl.upper is None: return with_hi(s2, None)
                        self.ev(s2, sl.upper, with_hi)
                    if sl.lower is None: return with_lo(s, None)
                    self.ev(s, sl.lower, with_lo)
                return self.ev(st, e.value, kk)
            def kk(s, v):
                def k2(s2, i):
                    if v[0] == 'split' and i[0] == 'int':
                        from z3 import is_int_value
                        if not is_int_value(i[1]): raise Unsupported('piece of a split at a position that is not a literal')
                        inr, lo, hi = v[1].piece(i[1].as_long())
                        return self.branch(s2, inr, lambda a: k(a, self.add_str(a, slice_(v[1].x, lo, hi))), lambda b: self.exit(b, 'IndexError'))
                    if v[0] != 'str' or i[0] != 'int': raise Unsupported('subscript %s[%s]' % (v[0], i[0]))
                    x = v[1]
                    inb = And(i[1] < x.n, i[1] >= -x.n)
                    self.branch(s2, inb, lambda a: k(a, ('chr', x.a[If(i[1] >= 0, i[1], i[1] + x.n)])), lambda b: self.exit(b, 'IndexError'))
                self.ev(s, e.slice, k2)
            return self.ev(st, e.value, kk)
        if isinstance(e, ast.Call): return self.call(st, e, k)
        if isinstance(e, ast.Set) and all(isinstance(x, ast.Constant) and isinstance(x.value, str) and len(x.value) == 1 for x in e.elts):
            return k(st, ('cset', [ord(x.value) for x in e.elts]))
        raise Unsupported('expression ' + type(e).__name__)

    def as_str(self, st, v):
        if v[0] == 'str': return v[1]
        if v[0] == 'chr':
            s = fresh_str('ch'); st.pc += [s.n == 1, s.a[0] == v[1]]; return s
        raise Unsupported('as_str ' + v[0])

    def attr(self, st, v, name, k):
        if v[0] == 'obj' and name == 'name': return k(st, v[1]['name'])
        raise Unsupported('attribute %s of %s' % (name, v[0]))

    def compare(self, st, op, a, b, k):
        if isinstance(op, (ast.Is, ast.IsNot)):
            if b[0] == 'none' or a[0] == 'none':
                x = a if b[0] == 'none' else b
                t = BoolVal(True) if x[0] == 'none' else (Not(x[1]) if x[0] == 'match' else BoolVal(False))
                return k(st, ('bool', t if isinstance(op, ast.Is) else Not(t)))
            if a[0] == 'bool' and b[0] == 'bool':
                t = a[1] == b[1]; return k(st, ('bool', t if isinstance(op, ast.Is) else Not(t)))
        if isinstance(op, (ast.In, ast.NotIn)) and a[0] == 'str' and b[0] == 'str':
            # "<one character>" in s: some position of s holds it (substring search is supported for single characters only)
            j = Int('k_in%d' % next(_n))
            if not self._is_single_char(st, a[1]): raise Unsupported('substring test with a needle that is not one character')
            t = Exists([j], And(0 <= j, j < b[1].n, b[1].a[j] == a[1].a[0]))
            return k(st, ('bool', t if isinstance(op, ast.In) else Not(t)))
        if isinstance(op, (ast.In, ast.NotIn)) and a[0] == 'chr' and b[0] == 'cset':
            t = Or([a[1] == v for v in b[1]])
            return k(st, ('bool', t if isinstance(op, ast.In) else Not(t)))
        if a[0] == 'int' and b[0] == 'int':
            t = {ast.Lt: a[1] < b[1], ast.LtE: a[1] <= b[1], ast.Gt: a[1] > b[1], ast.GtE: a[1] >= b[1], ast.Eq: a[1] == b[1], ast.NotEq: a[1] != b[1]}.get(type(op))
            if t is not None: return k(st, ('bool', t))
        if isinstance(op, (ast.Eq, ast.NotEq)) and a[0] in ('chr', 'str') and b[0] in ('chr', 'str'):
            if a[0] == 'chr' or b[0] == 'chr':
                c, o = (a, b) if a[0] == 'chr' else (b, a)
                if o[0] == 'chr': t = c[1] == o[1]
                else: t = And(o[1].n == 1, o[1].a[0] == c[1])
            else:
                x, y = a[1], b[1]; kk = Int('k_eq%d' % next(_n))
                t = And(x.n == y.n, ForAll([kk], Implies(And(0 <= kk, kk < x.n), x.a[kk] == y.a[kk])))
            return k(st, ('bool', t if isinstance(op, ast.Eq) else Not(t)))
        raise Unsupported('compare %s %s %s' % (type(op).__name__, a[0], b[0]))

    def call(self, st, e, k):
        f = e.func
        name = ast.unparse(f)
        if name == 'len':
            return self.ev(st, e.args[0], lambda s, v: k(s, ('int', v[1].n)) if v[0] == 'str' else (k(s, ('int', v[1].L)) if v[0] == 'split' else self._u('len of ' + v[0])))
        if name == 're.compile':
            return k(st, ('pattern', e.args[0].value))
        if name == 'range':
            return self.evs(st, e.args, lambda s, vs: k(s, ('range', vs[0][1] if len(vs) == 2 else IntVal(0), vs[-1][1])))
        if name == 'reversed' and len(e.args) == 1:
            def kr(s, v):
                if v[0] != 'range': raise Unsupported('reversed of ' + v[0])
                k(s, ('rrange', v[1], v[2]))
            return self.ev(st, e.args[0], kr)
        if name == 'str':
            def kk(s, v):
                if v[0] != 'int': raise Unsupported('str of ' + v[0])
                r = fresh_str('dec'); j = Int('k_dec%d' % next(_n))
                s.pc += [r.n >= 1, ForAll([j], Implies(And(0 <= j, j < r.n), c_digit(r.a[j])), patterns=[r.a[j]]), v[1] >= 0]
                k(s, ('str', r))
            return self.ev(st, e.args[0], kk)
        if name == 'print':
            return k(st, ('none',))
        if name == 'int' and len(e.args) == 1 and isinstance(e.args[0], (ast.Name, ast.Subscript)):
            # int(<string>): an uninterpreted function of the string's content (decimal parsing itself is not encoded); a string that is
            # not a decimal numeral raises ValueError -- the caller's precondition decides whether that exit is reachable
            def kk(s, v):
                if v[0] != 'str': raise Unsupported('int of ' + v[0])
                x = v[1]; j = Int('k_int%d' % next(_n))
                numeral = And(x.n >= 1, ForAll([j], Implies(And(0 <= j, j < x.n), c_digit(x.a[j])), patterns=[x.a[j]]))
                self.branch(s, numeral, lambda a: k(a, ('int', INTVAL(x.n, x.a))), lambda b: self.exit(b, 'ValueError'))
            return self.ev(st, e.args[0], kk)
        if name == 'int':
            # int(re.search(r"\d+", <suffix>).group()): the number inside the matched suffix; only its non-negativity is used
            return k(st, ('int', Int('num%d' % next(_n)))) if self._num_ok(st) else None
        if isinstance(f, ast.Attribute):
            if isinstance(f.value, ast.Name) and f.value.id == 'self' and f.attr in self.methods:
                return self.evs(st, e.args, lambda s, vs: self.call_method(s, f.attr, vs, k))
            def kk(s, recv):
                m = f.attr
                if recv[0] == 'chr' and m in ('isalpha', 'isalnum', 'isdigit'):
                    t = {'isalpha': c_alpha, 'isalnum': c_alnum, 'isdigit': c_digit}[m](recv[1]); return k(s, ('bool', t))
                if recv[0] == 'str' and m in ('find', 'rfind') and 1 <= len(e.args) <= 2:
                    def with_args(s2, vs):
                        needle = vs[0]
                        if needle[0] != 'str' or not self._is_single_char(s2, needle[1]): raise Unsupported('%s of something that is not one character' % m)
                        ch = needle[1].a[0]; x = recv[1]
                        lo = clamp_index(vs[1][1], x.n) if len(vs) > 1 else IntVal(0)
                        r_ = Int('%s%d' % (m, next(_n))); j = Int('k_fd%d' % next(_n))
                        if m == 'find':
                            found = And(lo <= r_, r_ < x.n, x.a[r_] == ch, ForAll([j], Implies(And(lo <= j, j < r_), x.a[j] != ch), patterns=[x.a[j]]))
                            none = And(r_ == -1, ForAll([j], Implies(And(lo <= j, j < x.n), x.a[j] != ch), patterns=[x.a[j]]))
                        else:
                            if len(vs) > 1: raise Unsupported('rfind with a start index')
                            found = And(0 <= r_, r_ < x.n, x.a[r_] == ch, ForAll([j], Implies(And(r_ < j, j < x.n), x.a[j] != ch), patterns=[x.a[j]]))
                            none = And(r_ == -1, ForAll([j], Implies(And(0 <= j, j < x.n), x.a[j] != ch), patterns=[x.a[j]]))
                        s2.pc.append(Or(found, none))
                        return k(s2, ('int', r_))
                    return self.evs(s, e.args, with_args)
                if recv[0] == 'str' and m == 'split' and len(e.args) == 1:
                    def with_sep(s2, vs):
                        sep = vs[0]
                        if sep[0] != 'str' or not self._is_single_char(s2, sep[1]): raise Unsupported('split by something that is not one character')
                        sp = Split(recv[1], sep[1].a[0]); s2.pc += sp.facts
                        return k(s2, ('split', sp))
                    return self.evs(s, e.args, with_sep)
                if recv[0] == 'str' and m == 'isdigit' and not e.args:
                    x = recv[1]; j = Int('k_isd%d' % next(_n))
                    if x.base is not None:
                        # a slice: the same statement over the characters of the string it was cut from (equal under the slice's defining
                        # facts; stated there so that a position named in the caller's terms instantiates it)
                        bx, off = x.base
                        return k(s, ('bool', And(x.n >= 1, ForAll([j], Implies(And(off <= j, j < off + x.n), c_digit(bx.a[j])), patterns=[bx.a[j]]))))
                    return k(s, ('bool', And(x.n >= 1, ForAll([j], Implies(And(0 <= j, j < x.n), c_digit(x.a[j])), patterns=[x.a[j]]))))
                if recv[0] == 'str' and m == 'lower':
                    return k(s, self.add_str(s, lower(recv[1])))
                if recv[0] == 'chr' and m == 'lower':
                    return k(s, ('chr', c_lower(recv[1])))
                if recv[0] == 'pattern' and m == 'search':
                    return self.ev(s, e.args[0], lambda s2, x: self.search(s2, recv[1], x, k))
                if recv[0] == 'match' and m in ('start', 'end'):
                    return k(s, ('int', recv[2] if m == 'start' else recv[3]))
                raise Unsupported('method %s on %s' % (m, recv[0]))
            return self.ev(st, f.value, kk)
        raise Unsupported('call ' + name)

    def _is_single_char(self, st, x):
        """is the string known to have length one (a literal)?"""
        s = SimpleSolver(); s.set('timeout', 1000); s.add(st.pc); s.add(x.n != 1)
        return s.check() == unsat

    def _num_ok(self, st):
        st.pc.append(BoolVal(True)); return True

    def _u(self, m): raise Unsupported(m)

    def evs(self, st, es, k, acc=None):
        acc = acc or []
        if not es: return k(st, acc)
        self.ev(st, es[0], lambda s, v: self.evs(s, es[1:], k, acc + [v]))

    def search(self, st, pat, x, k):
        """pattern.search(s) for the suffix pattern _sdn_[0-9]+_$ : the match, if any, is the unique suffix _sdn_<digits>_"""
        if pat != '_sdn_[0-9]+_$' or x[0] != 'str': raise Unsupported('regex ' + pat)
        s = x[1]; ok = Const('m_ok%d' % next(_n), BoolSort()); b = Int('m_start%d' % next(_n)); j = Int('k_m%d' % next(_n))
        lit = '_sdn_'
        st.pc.append(Implies(ok, And(0 <= b, b + 7 <= s.n, *[s.a[b + i] == ord(ch) for i, ch in enumerate(lit)], s.a[s.n - 1] == 95,
                                     ForAll([j], Implies(And(b + 5 <= j, j < s.n - 1), c_digit(s.a[j]))))))
        k(st, ('match', ok, b, s.n))

    # ------------------------------------------------------------ calls
    def call_method(self, st, name, args, k):
        c = self.contracts.get(name)
        if c is not None and (name in st.stack or c.get('always')):
            return c['apply'](self, st, args, k)
        if len(st.stack) > 12: raise Unsupported('call depth')
        fn = self.methods[name]
        params = [a.arg for a in fn.args.args][1:]
        env = dict(zip(params, args))
        saved_env, saved_stack = st.env, st.stack
        st.env = env; st.stack = st.stack + [name]
        def leave(s, v):
            s.env = saved_env; s.stack = saved_stack
            k(s, v)
        self.block(st, fn.body, lambda s: leave(s, ('none',)), leave, fn)

    # ------------------------------------------------------------ statements
    def block(self, st, stmts, knext, kret, fn):
        if not stmts: return knext(st)
        s0, rest = stmts[0], stmts[1:]
        nxt = lambda s: self.block(s, rest, knext, kret, fn)
        if isinstance(s0, ast.Expr) and isinstance(s0.value, ast.Constant): return nxt(st)
        if isinstance(s0, ast.Expr) and isinstance(s0.value, ast.Call) and ast.unparse(s0.value.func) == 'print':
            return nxt(st)               # output only
        if isinstance(s0, ast.Return):
            if s0.value is None: return kret(st, ('none',))
            return self.ev(st, s0.value, kret)
        if isinstance(s0, ast.Assign) and len(s0.targets) == 1 and isinstance(s0.targets[0], ast.Name):
            def kk(s, v):
                s.env = dict(s.env); s.env[s0.targets[0].id] = v; nxt(s)
            return self.ev(st, s0.value, kk)
        if isinstance(s0, ast.If):
            return self.ev(st, s0.test, lambda s, v: self.branch(s, self.truth(v), lambda a: self.block(a, s0.body, nxt, kret, fn),
                                                                lambda b: self.block(b, s0.orelse, nxt, kret, fn)))
        if isinstance(s0, ast.For):
            return self.loop(st, s0, nxt, kret, fn)
        if isinstance(s0, ast.Pass): return nxt(st)
        if isinstance(s0, ast.AugAssign) and isinstance(s0.target, ast.Name) and isinstance(s0.op, (ast.Add, ast.Sub)):
            def ka(s, v):
                cur = s.env.get(s0.target.id)
                if cur is None: raise Unsupported('name ' + s0.target.id)
                if cur[0] != 'int' or v[0] != 'int': raise Unsupported('augmented assignment %s %s' % (cur[0], v[0]))
                s.env = dict(s.env); s.env[s0.target.id] = ('int', cur[1] + v[1] if isinstance(s0.op, ast.Add) else cur[1] - v[1]); nxt(s)
            return self.ev(st, s0.value, ka)
        if isinstance(s0, ast.Break):
            if not self.brk: raise Unsupported('break outside a modelled loop')
            return self.brk[-1](st)
        raise Unsupported('statement ' + type(s0).__name__)

    def loop(self, st, node, nxt, kret, fn):
        loops = [n for n in ast.walk(fn) if isinstance(n, ast.For)]
        loops.sort(key=lambda n: (n.lineno, n.col_offset))
        spec = self.loops.get((fn.name, loops.index(node)))
        if spec is None: raise Unsupported('no invariant for loop %d of %s' % (loops.index(node), fn.name))
        def with_range(s, r):
            over_str = None
            if r[0] == 'str':                      # for ch in <string>: positions 0..len-1, the target is the character
                over_str = r[1]; r = ('range', IntVal(0), over_str.n)
            if r[0] == 'rrange': return self.loop_reversed(s, node, r, spec, nxt, kret, fn, loops.index(node))
            if r[0] != 'range': raise Unsupported('loop over ' + r[0])
            if any(isinstance(n, ast.Break) for n in ast.walk(node)): raise Unsupported('break in a forward loop')
            lo, hi = r[1], r[2]
            entry = dict(s.env)
            # init
            for name, g in spec['inv'](entry, s.env, lo, lo, hi):
                self.obligations.append(('%s.loop%d/init/%s' % (fn.name, loops.index(node), name), list(s.pc), g))
            # preserve
            sb = s.fork(); sb.env = dict(s.env)
            i = Int('i%d' % next(_n))
            for v in spec['modifies']:
                sb.env[v] = ('str', fresh_str(v)) if entry[v][0] == 'str' else entry[v]
            sb.pc += [lo <= i, i < hi] + [g for _, g in spec['inv'](entry, sb.env, lo, i, hi)]
            sb.env[node.target.id] = ('int', i) if over_str is None else ('chr', over_str.a[i])
            def body_end(s2):
                for name, g in spec['inv'](entry, s2.env, lo, i + 1, hi):
                    self.obligations.append(('%s.loop%d/preserve/%s' % (fn.name, loops.index(node), name), list(s2.pc), g))
            if self.sat(sb): self.block(sb, node.body, body_end, kret, fn)
            # after
            sa = s.fork(); sa.env = dict(s.env)
            for v in spec['modifies']:
                sa.env[v] = ('str', fresh_str(v)) if entry[v][0] == 'str' else entry[v]
            end = If(hi > lo, hi, lo)
            sa.pc += [g for _, g in spec['inv'](entry, sa.env, lo, end, hi)]
            if self.sat(sa): nxt(sa)
        self.ev(st, node.iter, with_range)


    def loop_reversed(self, s, node, r, spec, nxt, kret, fn, ordinal):
        """for i in reversed(range(lo, hi)): visits hi-1, hi-2, ..., lo; the invariant spec['inv'](entry, env, lo, i, hi) speaks about the
        moment BEFORE position i is visited (positions i+1 .. hi-1 done); `break` leaves with the environment as it is (target bound to
        the position being visited); exhaustion leaves with the invariant at lo-1 and the target bound to lo (unbound for an empty range)"""
        if node.orelse: raise Unsupported('for/else')
        lo, hi = r[1], r[2]
        entry = dict(s.env)
        def havoc(env):
            for v in spec['modifies']:
                if entry[v][0] == 'str': env[v] = ('str', fresh_str(v))
                elif entry[v][0] == 'int': env[v] = ('int', Int('%s_h%d' % (v, next(_n))))
                else: raise Unsupported('loop modifies %s of kind %s' % (v, entry[v][0]))
        for name, g in spec['inv'](entry, s.env, lo, hi - 1, hi):
            self.obligations.append(('%s.loop%d/init/%s' % (fn.name, ordinal, name), list(s.pc), g))
        sb = s.fork(); sb.env = dict(s.env)
        i = Int('i%d' % next(_n))
        havoc(sb.env)
        sb.pc += [lo <= i, i < hi] + [g for _, g in spec['inv'](entry, sb.env, lo, i, hi)]
        sb.env[node.target.id] = ('int', i)
        def body_end(s2):
            for name, g in spec['inv'](entry, s2.env, lo, i - 1, hi):
                self.obligations.append(('%s.loop%d/preserve/%s' % (fn.name, ordinal, name), list(s2.pc), g))
        self.brk.append(nxt)
        try:
            if self.sat(sb): self.block(sb, node.body, body_end, kret, fn)
        finally:
            self.brk.pop()
        # exhausted, non-empty range
        sa = s.fork(); sa.env = dict(s.env); havoc(sa.env)
        sa.pc += [hi > lo] + [g for _, g in spec['inv'](entry, sa.env, lo, lo - 1, hi)]
        sa.env[node.target.id] = ('int', lo)
        if self.sat(sa): nxt(sa)
        # empty range: nothing runs, the target stays as it was (unbound unless assigned before)
        se_ = s.fork(); se_.env = dict(s.env); se_.pc.append(hi <= lo)
        if self.sat(se_): nxt(se_)


def discharge(hyps, goal, timeout_ms=20000, cheap=False, inputs=None):
    """stage 1: z3 E-matching only; then cvc5, z3 default strategy (MBQI), /usr/bin/z3.  cheap=True: first stage only with a short
    budget (used once an obligation of the same name has already failed: a broken function fails the same obligation on many paths)"""
    from pyvc.verify import _cli
    s = SimpleSolver(); s.set('timeout', 1500 if cheap else min(timeout_ms, 8000)); s.set('mbqi', False); s.add(hyps); s.add(Not(goal))
    t = time.time(); r = s.check()
    if r == unsat: return 'discharged', time.time() - t, '', 'z3-ematching'
    r1 = s.reason_unknown() if r == unknown else 'sat'
    if cheap:
        return 'failed', time.time() - t, 'z3-ematching: %s (other back ends not tried: an obligation of the same name already failed)' % r1, ''
    text = '(set-logic ALL)\n' + s.to_smt2()
    r2 = _cli(['/usr/bin/cvc5', '--tlimit=10000'], text, 10)
    if r2 == 'unsat': return 'discharged', time.time() - t, '', 'cvc5'
    s4 = Solver(); s4.set('timeout', 10000); s4.add(hyps); s4.add(Not(goal)); r4 = s4.check()
    if r4 == unsat: return 'discharged', time.time() - t, '', 'z3-mbqi'
    r3 = _cli(['/usr/bin/z3', '-T:8'], text, 8)
    if r3 == 'unsat': return 'discharged', time.time() - t, '', 'z3-4.8-cli'
    det = 'z3-ematching: %s; cvc5: %s; z3-mbqi: %s; z3-4.8: %s' % (r1, r2, s4.reason_unknown() if r4 == unknown else r4, r3)
    if r4 == sat and inputs:
        # the verifier's counterexample: concrete input strings read off the model (replayed natively by the caller)
        try:
            m = s4.model(); vals = {}
            for name, x in inputs.items():
                n = m.eval(x.n, model_completion=True).as_long()
                vals[name] = ''.join(chr(m.eval(x.a[i], model_completion=True).as_long()) for i in range(max(0, min(n, 2000))))
            det += '; model=' + repr(vals)
            return 'failed', time.time() - t, det, vals
        except Exception as e:
            det += '; model extraction failed: %s' % e
    if r4 != sat and all(('timeout' in str(x) or 'canceled' in str(x)) for x in (r1, r2, r3)):
        return 'undecided', time.time() - t, det, ''
    return 'failed', time.time() - t, det, ''
