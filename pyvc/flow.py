"""Exception-safe restore of a process-wide setting (C15, policy clause).

Contract on <Parser>.parse():  on the normal AND on every exceptional exit  namespace_manager.default == old(namespace_manager.default).
Callee contract (parse_construct, parse_verilog, tokenizer methods, ...): "may raise anything; modifies excludes
namespace_manager.default" -- discharged by the closed-world rule that no other function of spydrnet/ stores to that attribute.

The obligation is decided by an abstract execution of the real AST in which EVERY statement other than the tracked loads/stores
may raise (a sound over-approximation of Python), try/finally and try/except are followed exactly, and loops are iterated to a
fixed point over the (finite) abstract state.  Abstract value of the setting: 'ENTRY' (value at call time), ('saved', local) is never
needed because locals map to abstract values directly."""
import ast, glob, os

TRACKED = 'namespace_manager.default'


class Outcome:
    def __init__(self, kind, cur, locs):
        self.kind, self.cur, self.locs = kind, cur, dict(locs)   # kind: normal | exception | return | break | continue
    def key(self):
        return (self.kind, self.cur, tuple(sorted(self.locs.items())))


def _is_tracked(e):
    return isinstance(e, ast.Attribute) and ast.unparse(e) == TRACKED


def run_block(stmts, cur, locs):
    """returns a list of Outcomes"""
    states = [Outcome('normal', cur, locs)]
    for st in stmts:
        nxt = []
        for s in states:
            if s.kind != 'normal':
                nxt.append(s); continue
            nxt += run_stmt(st, s.cur, s.locs)
        # de-duplicate
        seen = {}
        for o in nxt: seen[o.key()] = o
        states = list(seen.values())
    return states


def run_stmt(st, cur, locs):
    locs = dict(locs)
    if isinstance(st, ast.Assign) and len(st.targets) == 1:
        tg = st.targets[0]
        if _is_tracked(tg):                        # store to the setting: cannot raise by itself if the value is a name/constant
            if isinstance(st.value, ast.Name) and st.value.id in locs:
                return [Outcome('normal', locs[st.value.id], locs)]
            if isinstance(st.value, ast.Constant):
                return [Outcome('normal', ('const', st.value.value), locs)]
            return [Outcome('normal', ('expr', ast.unparse(st.value)), locs), Outcome('exception', cur, locs)]
        if isinstance(tg, ast.Name) and _is_tracked(st.value):
            locs[tg.id] = cur
            return [Outcome('normal', cur, locs), Outcome('exception', cur, dict(locs))]
        if isinstance(tg, ast.Name):
            locs.pop(tg.id, None)
    if isinstance(st, ast.Return):
        return [Outcome('return', cur, locs), Outcome('exception', cur, locs)]
    if isinstance(st, ast.Raise):
        return [Outcome('exception', cur, locs)]
    if isinstance(st, ast.Break): return [Outcome('break', cur, locs)]
    if isinstance(st, ast.Continue): return [Outcome('continue', cur, locs)]
    if isinstance(st, ast.Pass): return [Outcome('normal', cur, locs)]
    if isinstance(st, ast.If):
        out = [Outcome('exception', cur, locs)]
        out += run_block(st.body, cur, locs) + run_block(st.orelse, cur, locs)
        return out
    if isinstance(st, (ast.For, ast.While)):
        out = [Outcome('exception', cur, locs)]
        entry = {Outcome('normal', cur, locs).key(): Outcome('normal', cur, locs)}
        work = list(entry.values())
        exits = []
        while work:
            s = work.pop()
            for o in run_block(st.body, s.cur, s.locs):
                if o.kind in ('normal', 'continue'):
                    n = Outcome('normal', o.cur, o.locs)
                    if n.key() not in entry:
                        entry[n.key()] = n; work.append(n)
                elif o.kind == 'break':
                    exits.append(Outcome('normal', o.cur, o.locs))
                else:
                    out.append(o)
        for s in entry.values():
            out += run_block(st.orelse, s.cur, s.locs) if st.orelse else [s]
        return out + exits
    if isinstance(st, ast.With):
        return [Outcome('exception', cur, locs)] + run_block(st.body, cur, locs)
    if isinstance(st, ast.Try):
        body = run_block(st.body, cur, locs)
        after = []
        for o in body:
            if o.kind == 'exception' and st.handlers:
                after.append(o)                                      # not caught by any handler
                for h in st.handlers:
                    after += run_block(h.body, o.cur, o.locs)        # caught
            elif o.kind == 'normal' and st.orelse:
                after += run_block(st.orelse, o.cur, o.locs)
            else:
                after.append(o)
        if not st.finalbody:
            return after
        out = []
        for o in after:
            for f in run_block(st.finalbody, o.cur, o.locs):
                if f.kind == 'normal':
                    out.append(Outcome(o.kind, f.cur, f.locs))       # the finally block completed: the original outcome continues
                else:
                    out.append(f)                                    # the finally block itself raised / returned
        return out
    # any other statement: may raise, does not store to the setting (closed-world rule checks the callees)
    for n in ast.walk(st):
        if isinstance(n, (ast.Assign, ast.AugAssign)):
            tgs = n.targets if isinstance(n, ast.Assign) else [n.target]
            if any(_is_tracked(t) for t in tgs):
                return [Outcome('normal', ('expr', 'nested store'), locs), Outcome('exception', ('expr', 'nested store'), locs)]
    return [Outcome('normal', cur, locs), Outcome('exception', cur, locs)]


def check_restore(repo, relpath, cls, fn_name):
    """obligations: (name, ok, detail) per kind of exit"""
    tree = ast.parse(open(os.path.join(repo, relpath)).read())
    fn = None
    for c in [n for n in tree.body if isinstance(n, ast.ClassDef) and n.name == cls]:
        for f in c.body:
            if isinstance(f, ast.FunctionDef) and f.name == fn_name: fn = f
    base = 'C15/%s.%s' % (cls, fn_name)
    if fn is None:
        return [(base + '/function-present', False, 'not found in %s' % relpath)]
    outs = run_block(fn.body, 'ENTRY', {})
    res = []
    for kind, label in (('normal', 'exit=normal'), ('return', 'exit=normal'), ('exception', 'exit=exception')):
        bad = [o for o in outs if o.kind == kind and o.cur != 'ENTRY']
        have = [o for o in outs if o.kind == kind]
        if not have: continue
        res.append(('%s/%s/policy-restored' % (base, label if kind != 'return' else 'exit=return'), not bad,
                    '' if not bad else 'namespace_manager.default is %r on some %s path' % (bad[0].cur, kind)))
    switches = any(isinstance(n, ast.Assign) and any(_is_tracked(t) for t in n.targets) for n in ast.walk(fn))
    res.append((base + '/reachability/switches-policy' if switches else base + '/reachability/does-not-touch-policy', True, ''))
    return res


def rule_policy_frame(repo, allowed):
    """closed world: the only stores to <anything>.default of the namespace manager inside spydrnet/ are in `allowed`
    (list of (relpath, function)) -- this is what discharges the callee contract 'modifies excludes the policy'"""
    bad = []
    for f in sorted(glob.glob(repo + '/spydrnet/**/*.py', recursive=True)):
        rel = f[len(repo) + 1:]
        if '/tests/' in rel: continue
        t = ast.parse(open(f).read())
        for fn in [n for n in ast.walk(t) if isinstance(n, (ast.FunctionDef, ast.Module))]:
            name = getattr(fn, 'name', '<module>')
            body_nodes = ast.iter_child_nodes(fn) if isinstance(fn, ast.Module) else ast.walk(fn)
            for n in (ast.walk(fn) if not isinstance(fn, ast.Module) else []):
                if isinstance(n, (ast.Assign, ast.AugAssign, ast.Delete)):
                    tgs = n.targets if not isinstance(n, ast.AugAssign) else [n.target]
                    for tg in tgs:
                        if isinstance(tg, ast.Attribute) and tg.attr == 'default' and 'namespace' in ast.unparse(tg.value).lower():
                            if (rel, name) not in allowed:
                                bad.append('%s:%d %s in %s' % (rel, n.lineno, ast.unparse(tg), name))
                if isinstance(n, ast.Call) and ast.unparse(n.func) == 'setattr' and len(n.args) >= 2 and 'default' in ast.unparse(n.args[1]):
                    bad.append('%s:%d setattr(..., default)' % (rel, n.lineno))
    return [('S/policy-frame/no-other-store-to-namespace_manager.default', not bad, '; '.join(sorted(set(bad))[:6]))]
